(* C08 — Retry budget never grants more retries than it was funded.
   Model: Model/Budget.v (atomic-step machine; token bucket and AIMD budget programs).
   Every statement quantifies over all configurations, all thread programs
   [progs : list (list call)] (any number of threads, any calls) and all schedules
   [sched : list (thread id * spurious-CAS-failure flag)], and holds in EVERY state visited
   ([states step init sched] lists them all). Only statements, `exact`, Print Assumptions. *)
From TR Require Import Lib.Base Model.Budget Proof.Budget.
From Coq Require Import Permutation.

(* token bucket, scaled units (1 token = SCALE = 1000) and whole tokens:
   grants * cost + balance <= initial + completed deposits * amount. An operation takes
   effect at the very step that completes it, so no in-progress operation has touched the
   balance. *)
Theorem C08_conservation :
  forall (maxt initial : Z) (progs : list (list tb_call)) (sched : list (nat * bool)),
    0 <= maxt -> 0 <= initial ->
    Forall (fun s =>
              tb_grants s * SCALE + st_mem s LTok <= initial * SCALE + tb_deposits s * SCALE
              /\ tb_grants s + st_mem s LTok / SCALE <= initial + tb_deposits s)
           (states (step (tb_prog (maxt * SCALE))) (init_state (tb_mem initial) progs) sched).
Proof. exact tb_conservation. Qed.
Print Assumptions C08_conservation.

(* the balance never goes negative and never exceeds max(initial, max_tokens): the
   constructor does not clamp initial_tokens, so the cap is max_tokens when initial <= max *)
Theorem C08_balance_le_max :
  forall (maxt initial : Z) (progs : list (list tb_call)) (sched : list (nat * bool)),
    0 <= maxt -> 0 <= initial ->
    Forall (fun s =>
              0 <= st_mem s LTok <= Z.max initial maxt * SCALE
              /\ 0 <= st_mem s LTok / SCALE <= Z.max initial maxt
              /\ (initial <= maxt -> st_mem s LTok / SCALE <= maxt))
           (states (step (tb_prog (maxt * SCALE))) (init_state (tb_mem initial) progs) sched).
Proof. exact tb_balance_le_max. Qed.
Print Assumptions C08_balance_le_max.

(* AIMD budget, for every decrease function [dec] (the f64 computation) and every ceiling the
   controller may hold: a deposit counts from the step that adds its tokens (it returns only
   after it has also raised the ceiling); at quiescence those are the completed deposits *)
Theorem C08_aimd_conservation :
  forall (min_b max_b amount w : Z) (dec : Z -> Z) (progs : list (list ab_call))
         (sched : list (nat * bool)),
    0 <= min_b <= max_b -> max_b <= U64MAX -> 0 <= amount -> 0 <= w ->
    Forall (fun s =>
              ab_grants s * w + st_mem s LTok
              <= max_b + (ab_deposits s + ab_deposits_in_effect s) * amount
              /\ (quiescent s -> ab_grants s * w + st_mem s LTok <= max_b + ab_deposits s * amount))
           (states (step (ab_prog (ab_cfg min_b max_b amount w) dec))
                   (init_state (ab_mem (ab_cfg min_b max_b amount w)) progs) sched).
Proof. exact ab_conservation. Qed.
Print Assumptions C08_aimd_conservation.

Theorem C08_aimd_balance_le_max :
  forall (min_b max_b amount w : Z) (dec : Z -> Z) (progs : list (list ab_call))
         (sched : list (nat * bool)),
    0 <= min_b <= max_b -> max_b <= U64MAX -> 0 <= amount -> 0 <= w ->
    Forall (fun s => 0 <= st_mem s LTok <= max_b)
           (states (step (ab_prog (ab_cfg min_b max_b amount w) dec))
                   (init_state (ab_mem (ab_cfg min_b max_b amount w)) progs) sched).
Proof. exact ab_balance_le_max. Qed.
Print Assumptions C08_aimd_balance_le_max.

(* the dynamic ceiling of the AIMD budget stays in [min_budget, max_budget] *)
Theorem C08_aimd_limit_in_bounds :
  forall (min_b max_b amount w : Z) (dec : Z -> Z) (progs : list (list ab_call))
         (sched : list (nat * bool)),
    0 <= min_b <= max_b -> max_b <= U64MAX -> 0 <= amount -> 0 <= w ->
    Forall (fun s => min_b <= st_mem s LLim <= max_b)
           (states (step (ab_prog (ab_cfg min_b max_b amount w) dec))
                   (init_state (ab_mem (ab_cfg min_b max_b amount w)) progs) sched).
Proof. exact ab_limit_in_bounds. Qed.
Print Assumptions C08_aimd_limit_in_bounds.

(* linearizability of the token bucket: in every reachable state there is a sequential order
   [lin] of the completed operations ([st_log]: thread, call, returned value, instant of the
   first atomic step, instant of the response) that respects real time (an operation that
   responded before another one took its first step comes first) and on which the sequential
   object [tb_seq] yields the same return values and the current balance. Linearization
   points: the successful compare-exchange, or the load that sees an empty bucket. *)
Theorem C08_linearizable_token_bucket :
  forall (maxt initial : Z) (progs : list (list tb_call)) (sched : list (nat * bool)),
    0 <= maxt -> 0 <= initial ->
    Forall (fun s =>
              exists lin : list (orec tb_call),
                Permutation lin (st_log s)
                /\ (forall i j a b, nth_error lin i = Some a -> nth_error lin j = Some b ->
                                    r_res a < r_first b -> (i < j)%nat)
                /\ seq_run (tb_seq (maxt * SCALE)) (initial * SCALE) (map r_call lin)
                   = (map r_ret lin, st_mem s LTok))
           (states (step (tb_prog (maxt * SCALE))) (init_state (tb_mem initial) progs) sched).
Proof. exact tb_linearizable. Qed.
Print Assumptions C08_linearizable_token_bucket.

(* the log is the history: per thread, its completed operations (in log order), the call in
   progress and the calls not yet begun are exactly the thread's program *)
Theorem C08_log_is_the_history :
  forall (maxt initial : Z) (progs : list (list tb_call)) (sched : list (nat * bool)),
    Forall (fun s => forall tid t, nth_error (st_thr s) tid = Some t ->
                       done_calls tid (st_log s) ++ cur_calls t ++ th_calls t = nth tid progs [])
           (states (step (tb_prog (maxt * SCALE))) (init_state (tb_mem initial) progs) sched).
Proof. exact tb_program_order. Qed.
Print Assumptions C08_log_is_the_history.
