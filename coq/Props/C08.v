(* C08 — Retry budget never grants more retries than it was funded.
   Model: Model/Budget.v (atomic-step machine; token bucket and AIMD budget programs).
   Every statement quantifies over all configurations, all thread programs
   [progs : list (list call)] (any number of threads, any calls) and all schedules
   [sched : list (thread id * spurious-CAS-failure flag)], and holds in EVERY state visited
   ([states step init sched] lists them all).
   Token bucket: the statements named C08_* without suffix are about the budget that
   TokenBucketBudget::new builds ([tb_new_prog] / [tb_new_mem]: scale by 1000 saturating at
   u64::MAX, initial balance clamped to the maximum) — what Model.Budget.run_script executes;
   the *_steps statements are the same facts for ANY scaled maximum and ANY scaled initial
   balance (they contain the pre-a863e6a constructor, maxs = max*1000, init0 = initial*1000).
   Only statements, `exact`, Print Assumptions. *)
From TR Require Import Lib.Base Model.Budget Proof.Budget Proof.BudgetLin.
From Coq Require Import Permutation.

(* token bucket, scaled units (1 token = SCALE = 1000) and whole tokens:
   grants * cost + balance <= initial + completed deposits * amount, for every max_tokens and
   initial_tokens (also initial > max, also sizes at and beyond 2^64/1000). An operation takes
   effect at the very step that completes it, so no in-progress operation has touched the
   balance. *)
Theorem C08_conservation :
  forall (maxt initial : Z) (progs : list (list tb_call)) (sched : list (nat * bool)),
    0 <= maxt -> 0 <= initial ->
    Forall (fun s =>
              tb_grants s * SCALE + st_mem s LTok <= tb_init maxt initial + tb_deposits s * SCALE
              /\ tb_grants s + st_mem s LTok / SCALE <= Z.min initial maxt + tb_deposits s
              /\ tb_grants s + st_mem s LTok / SCALE <= initial + tb_deposits s)
           (states (step (tb_new_prog maxt)) (init_state (tb_new_mem maxt initial) progs) sched).
Proof. exact tb_conservation. Qed.
Print Assumptions C08_conservation.

Theorem C08_conservation_steps :
  forall (maxs init0 : Z) (progs : list (list tb_call)) (sched : list (nat * bool)),
    0 <= maxs -> 0 <= init0 ->
    Forall (fun s => tb_grants s * SCALE + st_mem s LTok <= init0 + tb_deposits s * SCALE)
           (states (step (tb_prog maxs)) (init_state (tb_mem0 init0) progs) sched).
Proof. exact tb_conservation_steps. Qed.
Print Assumptions C08_conservation_steps.

(* the balance never goes negative and NEVER exceeds the configured maximum, for all
   initial_tokens and max_tokens (the constructor clamps; before /repo a863e6a this held only
   for initial <= max — see Proof.Budget.unclamped_start_refuted) *)
Theorem C08_balance_le_max :
  forall (maxt initial : Z) (progs : list (list tb_call)) (sched : list (nat * bool)),
    0 <= maxt -> 0 <= initial ->
    Forall (fun s =>
              0 <= st_mem s LTok <= tb_maxs maxt
              /\ st_mem s LTok <= maxt * SCALE
              /\ 0 <= st_mem s LTok / SCALE <= maxt)
           (states (step (tb_new_prog maxt)) (init_state (tb_new_mem maxt initial) progs) sched).
Proof. exact tb_balance_le_max. Qed.
Print Assumptions C08_balance_le_max.

(* step level: the balance stays within max(initial, max), and within max when it starts there *)
Theorem C08_balance_steps :
  forall (maxs init0 : Z) (progs : list (list tb_call)) (sched : list (nat * bool)),
    0 <= maxs -> 0 <= init0 ->
    Forall (fun s => 0 <= st_mem s LTok <= Z.max init0 maxs
                     /\ (init0 <= maxs -> st_mem s LTok <= maxs))
           (states (step (tb_prog maxs)) (init_state (tb_mem0 init0) progs) sched).
Proof. exact tb_balance_steps. Qed.
Print Assumptions C08_balance_steps.

(* AIMD budget, for every decrease function [dec] (the f64 computation) and every ceiling the
   controller may hold: a deposit counts from the step that adds its tokens (it returns only
   after it has also raised the ceiling); at quiescence those are the completed deposits *)
Theorem C08_aimd_conservation :
  forall (min_b max_b amount w : Z) (dec : Z -> Z) (progs : list (list ab_call))
         (sched : list (nat * bool)),
    0 <= min_b <= max_b -> max_b <= U64MAX -> 0 <= amount -> 0 <= w ->
    Forall (fun s =>
              ab_grants s * w + st_mem s LTok
              <= max_b + (ab_deposits s + ab_deposits_in_effect s) * amount
              /\ (quiescent s -> ab_grants s * w + st_mem s LTok <= max_b + ab_deposits s * amount))
           (states (step (ab_prog (ab_cfg min_b max_b amount w) dec))
                   (init_state (ab_mem (ab_cfg min_b max_b amount w)) progs) sched).
Proof. exact ab_conservation. Qed.
Print Assumptions C08_aimd_conservation.

Theorem C08_aimd_balance_le_max :
  forall (min_b max_b amount w : Z) (dec : Z -> Z) (progs : list (list ab_call))
         (sched : list (nat * bool)),
    0 <= min_b <= max_b -> max_b <= U64MAX -> 0 <= amount -> 0 <= w ->
    Forall (fun s => 0 <= st_mem s LTok <= max_b)
           (states (step (ab_prog (ab_cfg min_b max_b amount w) dec))
                   (init_state (ab_mem (ab_cfg min_b max_b amount w)) progs) sched).
Proof. exact ab_balance_le_max. Qed.
Print Assumptions C08_aimd_balance_le_max.

(* the dynamic ceiling of the AIMD budget stays in [min_budget, max_budget] *)
Theorem C08_aimd_limit_in_bounds :
  forall (min_b max_b amount w : Z) (dec : Z -> Z) (progs : list (list ab_call))
         (sched : list (nat * bool)),
    0 <= min_b <= max_b -> max_b <= U64MAX -> 0 <= amount -> 0 <= w ->
    Forall (fun s => min_b <= st_mem s LLim <= max_b)
           (states (step (ab_prog (ab_cfg min_b max_b amount w) dec))
                   (init_state (ab_mem (ab_cfg min_b max_b amount w)) progs) sched).
Proof. exact ab_limit_in_bounds. Qed.
Print Assumptions C08_aimd_limit_in_bounds.

(* linearizability of the token bucket: in every reachable state there is a sequential order
   [lin] of the completed operations ([st_log]: thread, call, returned value, instant of the
   first atomic step, instant of the response) that respects real time (an operation that
   responded before another one took its first step comes first) and on which the sequential
   object [tb_seq] yields the same return values and the current balance. Linearization
   points: the successful compare-exchange, or the load that sees an empty bucket. *)
Theorem C08_linearizable_token_bucket :
  forall (maxt initial : Z) (progs : list (list tb_call)) (sched : list (nat * bool)),
    0 <= maxt -> 0 <= initial ->
    Forall (fun s =>
              exists lin : list (orec tb_call),
                Permutation lin (st_log s)
                /\ (forall i j a b, nth_error lin i = Some a -> nth_error lin j = Some b ->
                                    r_res a < r_first b -> (i < j)%nat)
                /\ seq_run (tb_seq (tb_maxs maxt)) (tb_init maxt initial) (map r_call lin)
                   = (map r_ret lin, st_mem s LTok))
           (states (step (tb_new_prog maxt)) (init_state (tb_new_mem maxt initial) progs) sched).
Proof. exact tb_linearizable. Qed.
Print Assumptions C08_linearizable_token_bucket.

Theorem C08_linearizable_token_bucket_steps :
  forall (maxs init0 : Z) (progs : list (list tb_call)) (sched : list (nat * bool)),
    0 <= maxs -> 0 <= init0 ->
    Forall (fun s =>
              exists lin : list (orec tb_call),
                Permutation lin (st_log s)
                /\ (forall i j a b, nth_error lin i = Some a -> nth_error lin j = Some b ->
                                    r_res a < r_first b -> (i < j)%nat)
                /\ seq_run (tb_seq maxs) init0 (map r_call lin) = (map r_ret lin, st_mem s LTok))
           (states (step (tb_prog maxs)) (init_state (tb_mem0 init0) progs) sched).
Proof. exact tb_linearizable_steps. Qed.
Print Assumptions C08_linearizable_token_bucket_steps.

(* the log is the history: per thread, its completed operations (in log order), the call in
   progress and the calls not yet begun are exactly the thread's program *)
Theorem C08_log_is_the_history :
  forall (maxs : Z) (m0 : mem) (progs : list (list tb_call)) (sched : list (nat * bool)),
    Forall (fun s => forall tid t, nth_error (st_thr s) tid = Some t ->
                       done_calls tid (st_log s) ++ cur_calls t ++ th_calls t = nth tid progs [])
           (states (step (tb_prog maxs)) (init_state m0 progs) sched).
Proof. exact tb_program_order. Qed.
Print Assumptions C08_log_is_the_history.

Theorem C08_aimd_log_is_the_history :
  forall (b : bcfg) (dec : Z -> Z) (m0 : mem) (progs : list (list ab_call))
         (sched : list (nat * bool)),
    Forall (fun s => forall tid t, nth_error (st_thr s) tid = Some t ->
                       done_calls tid (st_log s) ++ cur_calls t ++ th_calls t = nth tid progs [])
           (states (step (ab_prog b dec)) (init_state m0 progs) sched).
Proof. exact ab_program_order. Qed.
Print Assumptions C08_aimd_log_is_the_history.

(* linearizability of the AIMD budget's token balance (the deposit's ceiling nondeterministic
   within [min_budget, max_budget], see Model.Budget.ab_seq_step): at every quiescent state
   there is a sequential order [lin] of the completed try_withdraw / deposit / balance()
   operations that respects real time and on which the sequential object yields the same
   return values and the current balance. Linearization points: the successful
   compare-exchange on the balance (granted withdrawal, deposit — the deposit's later update
   of the ceiling is not part of the token object), the load that sees too few tokens
   (refused withdrawal), the load of balance(). *)
Theorem C08_linearizable_aimd_tokens :
  forall (min_b max_b amount w : Z) (dec : Z -> Z) (progs : list (list ab_call))
         (sched : list (nat * bool)),
    0 <= min_b <= max_b -> max_b <= U64MAX -> 0 <= amount -> 0 <= w ->
    Forall (fun s =>
              quiescent s ->
              exists lin : list (orec ab_call),
                Permutation lin (filter tok_op (st_log s))
                /\ (forall i j a b, nth_error lin i = Some a -> nth_error lin j = Some b ->
                                    r_res a < r_first b -> (i < j)%nat)
                /\ ab_seq_run (ab_cfg min_b max_b amount w) max_b
                              (map (fun r => (r_call r, r_ret r)) lin) (st_mem s LTok))
           (states (step (ab_prog (ab_cfg min_b max_b amount w) dec))
                   (init_state (ab_mem (ab_cfg min_b max_b amount w)) progs) sched).
Proof. exact ab_linearizable. Qed.
Print Assumptions C08_linearizable_aimd_tokens.
