(* C07 — Bulkhead never loses capacity and rejects only by timeout.
   Same model as C01. Only statements, `exact`, and Print Assumptions. *)
From TR Require Import Lib.Base Lib.TokioTime Model.Bulkhead Proof.Bulkhead.

(* permits are conserved along every history (successes, errors, panics, timeouts,
   cancellations before the first poll, while queued, while granted, while running) *)
Theorem C07_conservation :
  forall (c : cfg) (evs : list ev),
    Forall (fun s => (free s + length (granted s) + inflight s = cap c)%nat)
           (states (step_st c) (init c) evs).
Proof. exact conservation. Qed.
Print Assumptions C07_conservation.

(* once no call is waiting or in flight the whole capacity is available again *)
Theorem C07_no_leak :
  forall (c : cfg) (evs : list ev),
    Forall (fun s => idle s -> free s = cap c) (states (step_st c) (init c) evs).
Proof. exact no_leak. Qed.
Print Assumptions C07_no_leak.

(* a caller arriving while fewer than cap are in flight and nobody is queued is admitted
   at once: its first poll starts the inner call *)
Theorem C07_immediate :
  forall (c : cfg) (s : st) (i : nat),
    Inv c s -> (inflight s < cap c)%nat -> queue s = [] -> granted s = [] ->
    cs s i = Created ->
    started (snd (poll c s i)) = true /\ entered (fst (poll c s i)) i = true.
Proof. exact immediate. Qed.
Print Assumptions C07_immediate.

(* the only bulkhead rejection is Timeout (BulkheadFull, code 4, is unreachable); it
   never happens before arrival + max_wait, and the rejected request has not reached
   and is not inside the inner service *)
Theorem C07_reject_only_by_timeout :
  forall (c : cfg) (s : st) (i : nat),
    Inv c s ->
    let s' := fst (poll c s i) in let o := snd (poll c s i) in
    r o <> 4 /\
    (r o = 3 ->
       exists w a, max_wait c = Some w /\ arrival s' i = Some a /\ a + w <= now s /\
                   started o = false /\ entered s' i = false /\ cs s' i = Done /\
                   ~ In i (running s')).
Proof. exact reject_only_by_timeout. Qed.
Print Assumptions C07_reject_only_by_timeout.

(* a waiter's deadline is its arrival (first poll) plus max_wait, rounded up to the timer
   wheel's millisecond tick (times are in ns; MS = 10^6): never early, less than 1 ms late,
   and exactly arrival + max_wait whenever that is a whole millisecond ... *)
Theorem C07_deadline_is_arrival_plus_wait :
  forall (c : cfg) (evs : list ev),
    Forall (fun s => forall i d, cs s i = Waiting (Some d) ->
                       exists a w, arrival s i = Some a /\ max_wait c = Some w /\
                                   d = ceil_ms (a + w) /\ a + w <= d < a + w + MS /\
                                   (forall k, a + w = k * MS -> d = a + w))
           (states (step_st c) (init c) evs).
Proof. exact deadline_is_arrival_plus_wait. Qed.
Print Assumptions C07_deadline_is_arrival_plus_wait.

(* ... its timer wakes it when the clock reaches the deadline, and every poll at or
   after the deadline of a waiter that holds no permit rejects: rejection happens
   exactly max_wait after arrival *)
Theorem C07_timer_wakes :
  forall (s : st) (i : nat) (d dd : Z),
    cs s i = Waiting (Some d) -> now s < d -> d <= now s + dd ->
    woken (advance s dd) i = true.
Proof. exact timer_wakes. Qed.
Print Assumptions C07_timer_wakes.

Theorem C07_deadline_rejects :
  forall (c : cfg) (s : st) (i : nat) (d : Z),
    cs s i = Waiting (Some d) -> ~ In i (granted s) -> d <= now s ->
    r (snd (poll c s i)) = 3.
Proof. exact deadline_rejects. Qed.
Print Assumptions C07_deadline_rejects.

(* a request cancelled before admission never reaches the inner service, and nothing
   that happens after a caller is finished or dropped can make it enter *)
Theorem C07_cancelled_waiting_never_entered :
  forall (c : cfg) (s : st) (i : nat),
    Inv c s -> (cs s i = Created \/ is_waiting (cs s i)) ->
    entered (drop s i) i = false /\ cs (drop s i) i = Dropped.
Proof. exact cancelled_waiting_never_entered. Qed.
Print Assumptions C07_cancelled_waiting_never_entered.

Theorem C07_finished_is_final :
  forall (c : cfg) (s : st) (e : ev) (i : nat),
    (cs s i = Done \/ cs s i = Dropped) ->
    entered (step_st c s e) i = entered s i /\ cs (step_st c s e) i = cs s i.
Proof. exact entered_stable. Qed.
Print Assumptions C07_finished_is_final.

(* ---- added after the review ---- *)

(* clause 1 as the property words it: after ANY history, once nothing waits or runs, cap fresh
   callers polled back to back (in any order) are all admitted ... *)
Theorem C07_full_capacity_again :
  forall (c : cfg) (evs : list ev) (l : list nat),
    let s := fold_left (step_st c) evs (init c) in
    idle s -> NoDup l -> length l = cap c -> (forall i, In i l -> cs s i = Created) ->
    Forall (fun o => started o = true) (run_obs c s (map Poll l)).
Proof. exact full_capacity_again. Qed.
Print Assumptions C07_full_capacity_again.

(* ... and mid-history: while k callers legitimately run and nobody waits, cap - k fresh callers
   are admitted *)
Theorem C07_spare_capacity_admits :
  forall (c : cfg) (evs : list ev) (l : list nat),
    let s := fold_left (step_st c) evs (init c) in
    queue s = [] -> granted s = [] -> NoDup l -> (forall i, In i l -> cs s i = Created) ->
    (length l + inflight s <= cap c)%nat ->
    Forall (fun o => started o = true) (run_obs c s (map Poll l)).
Proof. exact spare_capacity_admits. Qed.
Print Assumptions C07_spare_capacity_admits.

(* clause 1 on the trace bin/check compares: for EVERY script the rows of the first cap probe
   callers that run_script appends (after the scripted history and the drop of every scripted
   caller) report a started inner call.  [run_obs] above and the trace are the same run:
   column 1 of run_evs is the started flag of run_obs *)
Theorem C07_probe_admits_cap :
  forall (sc : list Z),
    let c := cfg_of sc in
    let k := (length (script_evs sc) + callers_of sc)%nat in
    let m := Nat.min (cap c) (probe_len sc) in
    firstn m (col6 1 (skipn (6 * k) (run_script sc))) = repeat 1 m.
Proof. exact probe_admits_cap. Qed.
Print Assumptions C07_probe_admits_cap.

(* m is cap for an ordinary capacity (the probe has cap + 1 callers) and the whole probe
   (PROBE_BIG callers) for a sentinel capacity = max_concurrent_calls >= tokio's MAX_PERMITS,
   which Bulkhead::new clamps (fix 40a6972) *)
Theorem C07_probe_min_ordinary :
  forall (sc : list Z),
    zn sc 0 < CAP_SENTINEL -> Nat.min (cap (cfg_of sc)) (probe_len sc) = cap (cfg_of sc).
Proof. exact probe_min_ordinary. Qed.
Print Assumptions C07_probe_min_ordinary.

Theorem C07_probe_min_sentinel :
  forall (sc : list Z),
    CAP_SENTINEL <= zn sc 0 -> Nat.min (cap (cfg_of sc)) (probe_len sc) = PROBE_BIG.
Proof. exact probe_min_sentinel. Qed.
Print Assumptions C07_probe_min_sentinel.

Theorem C07_trace_started_is_run_obs :
  forall (c : cfg) (total : nat) (evs : list ev) (s : st),
    col6 1 (run_evs c total s evs) = map (fun o => b2z (started o)) (run_obs c s evs).
Proof. exact col6_started. Qed.
Print Assumptions C07_trace_started_is_run_obs.

(* a permit handed to a waiter is usable: the waiter's wake flag is set for as long as it holds
   the undelivered grant (no capacity parked on a sleeping caller), and its next poll -- at
   any time, even after its deadline -- starts the inner call *)
Theorem C07_granted_is_woken :
  forall (c : cfg) (evs : list ev),
    Forall (fun s => forall i, In i (granted s) -> woken s i = true /\ is_waiting (cs s i))
           (states (step_st c) (init c) evs).
Proof. exact granted_is_woken. Qed.
Print Assumptions C07_granted_is_woken.

Theorem C07_granted_starts :
  forall (c : cfg) (s : st) (i : nat) (dl : option Z),
    cs s i = Waiting dl -> In i (granted s) -> started (snd (poll c s i)) = true.
Proof. exact granted_starts. Qed.
Print Assumptions C07_granted_starts.

(* clause 3, composed: a waiter that holds no permit is still pending at every poll before its
   deadline; advancing the clock exactly to the deadline sets its wake flag and the poll then
   returns Timeout, at now = deadline = arrival + max_wait *)
Theorem C07_waits_until_deadline :
  forall (c : cfg) (s : st) (i : nat) (d : Z),
    cs s i = Waiting (Some d) -> ~ In i (granted s) -> now s < d ->
    r (snd (poll c s i)) = 0 /\ started (snd (poll c s i)) = false.
Proof. exact waits_until_deadline. Qed.
Print Assumptions C07_waits_until_deadline.

Theorem C07_rejected_at_deadline :
  forall (c : cfg) (s : st) (i : nat) (d dd : Z),
    cs s i = Waiting (Some d) -> ~ In i (granted s) -> now s < d -> now s + dd = d ->
    let s1 := advance s dd in now s1 = d /\ woken s1 i = true /\ r (snd (poll c s1 i)) = 3.
Proof. exact rejected_at_deadline. Qed.
Print Assumptions C07_rejected_at_deadline.

(* zero wait (reject_when_full, the presets) and, generally, a wait whose timer tick has already
   been reached: a fresh caller that finds no free permit is rejected in that very poll, without
   reaching the inner service; for a zero wait that is the case at every whole-millisecond instant *)
Theorem C07_zero_wait_rejects :
  forall (c : cfg) (s : st) (i : nat) (w : Z),
    cs s i = Created -> free s = 0%nat -> max_wait c = Some w -> ceil_ms (now s + w) <= now s ->
    r (snd (poll c s i)) = 3 /\ started (snd (poll c s i)) = false /\
    now (fst (poll c s i)) = now s.
Proof. exact zero_wait_rejects. Qed.
Print Assumptions C07_zero_wait_rejects.

Theorem C07_zero_wait_rejects_on_tick :
  forall (c : cfg) (s : st) (i : nat) (k : Z),
    cs s i = Created -> free s = 0%nat -> max_wait c = Some 0 -> now s = k * MS ->
    r (snd (poll c s i)) = 3 /\ started (snd (poll c s i)) = false /\
    now (fst (poll c s i)) = now s.
Proof. exact zero_wait_rejects_on_tick. Qed.
Print Assumptions C07_zero_wait_rejects_on_tick.

(* off the tick the caller is queued with the next tick as its deadline (tokio's granularity:
   "exactly max_wait" is exact only up to the millisecond tick; never early) *)
Theorem C07_zero_wait_off_tick :
  forall (c : cfg) (s : st) (i : nat) (w : Z),
    cs s i = Created -> free s = 0%nat -> max_wait c = Some w -> now s < ceil_ms (now s + w) ->
    r (snd (poll c s i)) = 0 /\ started (snd (poll c s i)) = false /\
    cs (fst (poll c s i)) i = Waiting (Some (ceil_ms (now s + w))).
Proof. exact zero_wait_off_tick. Qed.
Print Assumptions C07_zero_wait_off_tick.
