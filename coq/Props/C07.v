(* C07 — Bulkhead never loses capacity and rejects only by timeout.
   Same model as C01. Only statements, `exact`, and Print Assumptions. *)
From TR Require Import Lib.Base Model.Bulkhead Proof.Bulkhead.

(* permits are conserved along every history (successes, errors, panics, timeouts,
   cancellations before the first poll, while queued, while granted, while running) *)
Theorem C07_conservation :
  forall (c : cfg) (evs : list ev),
    Forall (fun s => (free s + length (granted s) + inflight s = cap c)%nat)
           (states (step_st c) (init c) evs).
Proof. exact conservation. Qed.
Print Assumptions C07_conservation.

(* once no call is waiting or in flight the whole capacity is available again *)
Theorem C07_no_leak :
  forall (c : cfg) (evs : list ev),
    Forall (fun s => idle s -> free s = cap c) (states (step_st c) (init c) evs).
Proof. exact no_leak. Qed.
Print Assumptions C07_no_leak.

(* a caller arriving while fewer than cap are in flight and nobody is queued is admitted
   at once: its first poll starts the inner call *)
Theorem C07_immediate :
  forall (c : cfg) (s : st) (i : nat),
    Inv c s -> (inflight s < cap c)%nat -> queue s = [] -> granted s = [] ->
    cs s i = Created ->
    started (snd (poll c s i)) = true /\ entered (fst (poll c s i)) i = true.
Proof. exact immediate. Qed.
Print Assumptions C07_immediate.

(* the only bulkhead rejection is Timeout (BulkheadFull, code 4, is unreachable); it
   never happens before arrival + max_wait, and the rejected request has not reached
   and is not inside the inner service *)
Theorem C07_reject_only_by_timeout :
  forall (c : cfg) (s : st) (i : nat),
    Inv c s ->
    let s' := fst (poll c s i) in let o := snd (poll c s i) in
    r o <> 4 /\
    (r o = 3 ->
       exists w a, max_wait c = Some w /\ arrival s' i = Some a /\ a + w <= now s /\
                   started o = false /\ entered s' i = false /\ cs s' i = Done /\
                   ~ In i (running s')).
Proof. exact reject_only_by_timeout. Qed.
Print Assumptions C07_reject_only_by_timeout.

(* a waiter's deadline is its arrival (first poll) plus max_wait ... *)
Theorem C07_deadline_is_arrival_plus_wait :
  forall (c : cfg) (evs : list ev),
    Forall (fun s => forall i d, cs s i = Waiting (Some d) ->
                       exists a w, arrival s i = Some a /\ max_wait c = Some w /\ d = a + w)
           (states (step_st c) (init c) evs).
Proof. exact deadline_is_arrival_plus_wait. Qed.
Print Assumptions C07_deadline_is_arrival_plus_wait.

(* ... its timer wakes it when the clock reaches the deadline, and every poll at or
   after the deadline of a waiter that holds no permit rejects: rejection happens
   exactly max_wait after arrival *)
Theorem C07_timer_wakes :
  forall (s : st) (i : nat) (d dd : Z),
    cs s i = Waiting (Some d) -> now s < d -> d <= now s + dd ->
    woken (advance s dd) i = true.
Proof. exact timer_wakes. Qed.
Print Assumptions C07_timer_wakes.

Theorem C07_deadline_rejects :
  forall (c : cfg) (s : st) (i : nat) (d : Z),
    cs s i = Waiting (Some d) -> ~ In i (granted s) -> d <= now s ->
    r (snd (poll c s i)) = 3.
Proof. exact deadline_rejects. Qed.
Print Assumptions C07_deadline_rejects.

(* a request cancelled before admission never reaches the inner service, and nothing
   that happens after a caller is finished or dropped can make it enter *)
Theorem C07_cancelled_waiting_never_entered :
  forall (c : cfg) (s : st) (i : nat),
    Inv c s -> (cs s i = Created \/ is_waiting (cs s i)) ->
    entered (drop s i) i = false /\ cs (drop s i) i = Dropped.
Proof. exact cancelled_waiting_never_entered. Qed.
Print Assumptions C07_cancelled_waiting_never_entered.

Theorem C07_finished_is_final :
  forall (c : cfg) (s : st) (e : ev) (i : nat),
    (cs s i = Done \/ cs s i = Dropped) ->
    entered (step_st c s e) i = entered s i /\ cs (step_st c s e) i = cs s i.
Proof. exact entered_stable. Qed.
Print Assumptions C07_finished_is_final.
