(* C14 — Backoff delays are total, monotone and capped (over IEEE-754 binary64 as formalised by
   Flocq; the four standard-library axioms of Coq's classical reals are the only assumptions).
   Only statements, `exact` of a lemma from Proof/Backoff*.v, and Print Assumptions.

   Vocabulary (Model/Backoff.v, Proof/Backoff.v): durations are nanoseconds in Z, DUR_MAX =
   Duration::MAX; attempt numbers are N WITHOUT any bound (usize, u32 and everything beyond:
   the code clamps the exponent to i32::MAX); `draw` is the value random_range returned
   (an oracle: every statement is for all draws); None = panic.
   wf_cfg c      : initial and cap are Durations (0..DUR_MAX), multiplier finite and >= 1,
                   randomization factor in [0,1]  (executable predicates, see the Examples).
   base_of c a   : exponential_interval(initial, multiplier, a, max_interval), the un-jittered value.
   cap_of max    : max.unwrap_or(Duration::MAX).
   draw_in_range : jitter_lo <= draw <= jitter_hi, i.e. the contract of random_range(lo..=hi),
                   jitter_lo/hi = d -/+ d*factor computed in f64 exactly as `randomize` does.
   dur_sat x     : Duration::try_from_secs_f64(x.max(0.0)).unwrap_or(Duration::MAX).
   B2R64 x       : the real value of a finite binary64; IZR / INR : integers / naturals in R.
   retry_stepf / reconnect_stepf, loop_delays : one step of the retry / reconnect loop after a
                   failed call with the loops' own counters (checked usize; checked-then-saturating
                   u32 widened to usize), and `fuel` steps of it: the delays slept and whether the
                   loop panicked. These are the functions run_script executes for kinds 8/9.
   All theorems are full. *)
From Flocq Require Import Core.
From Coq Require Import Reals.
From TR Require Import Lib.Base Model.Backoff Proof.Backoff Proof.BackoffReal Proof.BackoffLoop.

(* no panic: every backoff type (and RetryPolicy::next_backoff), EVERY attempt number, every draw *)
Theorem C14_total :
  forall (b : backoff) (attempt : N) (draw : f64),
    wf_backoff b = true ->
    exists d, next_interval b attempt draw = Some d /\ next_backoff b attempt draw = Some d.
Proof. exact total_backoff. Qed.
Print Assumptions C14_total.

(* no panic for every ReconnectPolicy; "no delay" exactly for ReconnectPolicy::None *)
Theorem C14_total_reconnect :
  forall (p : reconnect_policy) (attempt : N) (draw : f64),
    wf_policy p = true ->
    exists r, delay_for_attempt p attempt draw = Some r /\ (r = None <-> p = PNone).
Proof. exact total_policy. Qed.
Print Assumptions C14_total_reconnect.

(* never above max_interval (and always a representable Duration) *)
Theorem C14_capped :
  forall (c : cfg) (attempt : N) (draw : f64),
    wf_cfg c = true ->
    exists d, next_interval (Exponential c) attempt draw = Some d /\ 0 <= d <= DUR_MAX /\
              (forall k, max_interval c = Some k -> d <= k).
Proof. exact capped. Qed.
Print Assumptions C14_capped.

(* jittered variant: it is the capped value that gets jittered, so what holds is
   base <= cap and result <= dur_sat (base + base*factor) *)
Theorem C14_capped_jittered :
  forall (c : cfg) (attempt : N) (draw : f64),
    wf_cfg c = true -> draw_in_range c attempt draw = true ->
    exists r, next_interval (ExponentialRandom c) attempt draw = Some r /\
              (forall k, max_interval c = Some k -> 0 <= base_of c attempt <= k) /\
              0 <= r <= dur_sat (jitter_hi (base_of c attempt) (factor c)) /\
              dur_sat (jitter_hi (base_of c attempt) (factor c)) <= DUR_MAX.
Proof. exact capped_jittered. Qed.
Print Assumptions C14_capped_jittered.

(* non-decreasing in the attempt number, for every multiplier >= 1 (square-and-multiply with
   rounding after every product, overflow to +inf, conversion and cap included) *)
Theorem C14_monotone :
  forall (c : cfg) (a b : N) (draw : f64),
    wf_cfg c = true -> (a <= b)%N ->
    exists da db, next_interval (Exponential c) a draw = Some da /\
                  next_interval (Exponential c) b draw = Some db /\ da <= db.
Proof. exact monotone. Qed.
Print Assumptions C14_monotone.

(* the key lemma behind it, in IEEE order: 1 <= powi m a <= powi m b (possibly +inf) *)
Theorem C14_powi_monotone :
  forall (m : f64) (a b : N), wf_mult m = true -> (a <= b)%N ->
    fle fone (powi m a) = true /\ fle (powi m a) (powi m b) = true.
Proof. exact powi_monotone. Qed.
Print Assumptions C14_powi_monotone.

(* "never above max_interval afterwards": once the cap has been reached it is kept *)
Theorem C14_stays_capped :
  forall (c : cfg) (a b : N) (k : Z) (draw : f64),
    wf_cfg c = true -> max_interval c = Some k -> (a <= b)%N ->
    next_interval (Exponential c) a draw = Some k -> next_interval (Exponential c) b draw = Some k.
Proof. exact stays_capped_next_interval. Qed.
Print Assumptions C14_stays_capped.

(* "equal to initial x multiplier^attempt until that reaches max_interval", as a statement about
   the returned nanoseconds in R: with e = min(attempt, i32::MAX) and v = initial * multiplier^e
   (the exact real product, in ns), whenever v enlarged by the error bound is still below the
   cap the returned delay is within v * (e+3) * 2^-52 + 1 ns of v. Everything is included: the
   roundings of Duration::as_secs_f64, of every product of square-and-multiply, of the final
   product, the rounding to whole nanoseconds; finiteness of the f64 product is derived, not
   assumed. (e+3 roundings is what a plain multiply loop would make; powi makes fewer.) *)
Theorem C14_real_value :
  forall (c : cfg) (a : N), wf_cfg c = true ->
    let e := N.to_nat (N.min a I32_MAX) in
    let v := (IZR (initial c) * B2R64 (multiplier c) ^ e)%R in
    (v * (1 + (INR e + 3) * bpow radix2 (-52)) + 1 <= IZR (cap_of (max_interval c)))%R ->
    (Rabs (IZR (base_of c a) - v) <= v * (INR e + 3) * bpow radix2 (-52) + 1)%R.
Proof. exact real_value. Qed.
Print Assumptions C14_real_value.

(* "... and never above max_interval afterwards": once v reduced by the error bound is above
   the cap (also when the f64 product overflowed to +inf or is >= 2^64 s) the returned delay is
   the cap exactly. Between the two theorems (v within the error bound of the cap) the delay
   is either, by C14_monotone and C14_capped. *)
Theorem C14_real_capped :
  forall (c : cfg) (a : N), wf_cfg c = true ->
    let e := N.to_nat (N.min a I32_MAX) in
    let v := (IZR (initial c) * B2R64 (multiplier c) ^ e)%R in
    (IZR (cap_of (max_interval c)) + 1 <= v * (1 - (INR e + 3) * bpow radix2 (-52)))%R ->
    base_of c a = cap_of (max_interval c).
Proof. exact real_capped. Qed.
Print Assumptions C14_real_capped.

(* every draw inside the range gives a delay between the two ends of the range *)
Theorem C14_jitter_within_factor :
  forall (c : cfg) (attempt : N) (draw : f64),
    wf_cfg c = true -> draw_in_range c attempt draw = true ->
    exists r, next_interval (ExponentialRandom c) attempt draw = Some r /\
              dur_sat (jitter_lo (base_of c attempt) (factor c)) <= r /\
              r <= dur_sat (jitter_hi (base_of c attempt) (factor c)) /\
              0 <= r <= DUR_MAX.
Proof. exact jitter_within_factor. Qed.
Print Assumptions C14_jitter_within_factor.

(* "jittered variants stay within the randomization factor of that value", in R: with B the
   un-jittered delay (ns) and phi the factor, the jittered delay lies in
   [B (1 - phi), B (1 + phi)] up to B * 2^-49 + 1 ns (the roundings of as_secs_f64, of
   d * factor, of d -/+ delta, and of the conversion back to whole nanoseconds) *)
Theorem C14_jitter_real :
  forall (c : cfg) (a : N) (draw : f64),
    wf_cfg c = true -> draw_in_range c a draw = true ->
    let B := IZR (base_of c a) in
    let phi := B2R64 (factor c) in
    (0 <= phi <= 1)%R /\
    exists r, next_interval (ExponentialRandom c) a draw = Some r /\
      (B * (1 - phi) - B * bpow radix2 (-49) - 1 <= IZR r)%R /\
      (IZR r <= B * (1 + phi) + B * bpow radix2 (-49) + 1)%R /\
      0 <= r <= DUR_MAX.
Proof. exact jitter_real. Qed.
Print Assumptions C14_jitter_real.

(* every ReconnectPolicy inherits total / capped / monotone *)
Theorem C14_reconnect_policies :
  forall (p : reconnect_policy) (a b : N) (draw : f64),
    wf_policy p = true -> (a <= b)%N ->
    match p with
    | PNone => delay_for_attempt p a draw = Some None
    | PFixed d =>
        delay_for_attempt p a draw = Some (Some d) /\ delay_for_attempt p b draw = Some (Some d)
    | PExponential c =>
        exists da db, delay_for_attempt p a draw = Some (Some da) /\
                      delay_for_attempt p b draw = Some (Some db) /\
                      0 <= da <= db /\ db <= cap_of (max_interval c) <= DUR_MAX
    | PExponentialRandom c =>
        exists r, delay_for_attempt p a draw = Some (Some r) /\
                  0 <= base_of c a <= base_of c b /\
                  base_of c b <= cap_of (max_interval c) <= DUR_MAX /\
                  (draw_in_range c a draw = true ->
                     dur_sat (jitter_lo (base_of c a) (factor c)) <= r
                     <= dur_sat (jitter_hi (base_of c a) (factor c)))
    | PCustom f => delay_for_attempt p a draw = Some (Some (f a))
    end.
Proof. exact reconnect_policies. Qed.
Print Assumptions C14_reconnect_policies.

(* the public constructors (ExponentialBackoff::new().multiplier().max_interval(),
   ExponentialRandomBackoff::new() with its clamp, ReconnectPolicy::exponential /
   exponential_random with multiplier 2.0) yield well-formed configurations *)
Theorem C14_constructors_wf :
  (forall ini m cap, wf_dur ini = true -> wf_mult m = true ->
     match cap with Some k => wf_dur k | None => true end = true ->
     wf_backoff (exponential_backoff ini m cap) = true) /\
  (forall ini m f cap, wf_dur ini = true -> wf_mult m = true -> fis_nan f = false ->
     match cap with Some k => wf_dur k | None => true end = true ->
     wf_backoff (exponential_random_backoff ini m f cap) = true) /\
  (forall ini cap, wf_dur ini = true -> wf_dur cap = true ->
     wf_policy (policy_exponential ini cap) = true) /\
  (forall ini cap f, wf_dur ini = true -> wf_dur cap = true -> fis_nan f = false ->
     wf_policy (policy_exponential_random ini cap f) = true).
Proof. exact constructors_wf. Qed.
Print Assumptions C14_constructors_wf.

(* "Consequently retry ... loops can run indefinitely against a dead backend without crashing":
   the retry loop (attempt : usize from 0, `attempt + 1 >= max_attempts` and `attempt += 1`
   with overflow checks) against a backend that fails every call, for EVERY max_attempts a usize
   can hold, every jitter stream and every number of steps: it never panics (the checked
   additions never overflow because attempt < max_attempts <= usize::MAX), it sleeps exactly
   min(fuel, max_attempts - 1) times, and the j-th sleep is next_backoff(j) *)
Theorem C14_retry_loop_total :
  forall (b : backoff) (max_attempts : N) (draws : nat -> f64) (fuel : nat),
    wf_backoff b = true -> (max_attempts <= USIZE_MAX)%N ->
    exists ds, loop_delays (retry_stepf b max_attempts draws) fuel 0 0%N = (ds, false) /\
      N.of_nat (length ds) = N.min (N.of_nat fuel) (N.pred max_attempts) /\
      (forall j d, nth_error ds j = Some d -> next_backoff b (N.of_nat j) (draws j) = Some d).
Proof. exact retry_loop_total. Qed.
Print Assumptions C14_retry_loop_total.

(* "... and reconnect loops ...": the reconnect loop as of /repo 4ccf9b3 (attempt : u32 from 0;
   counted = attempt.checked_add(1); the stored counter saturates at u32::MAX; the attempt is
   refused iff max_attempts is Some(max) and counted is None or > max; `attempt as usize` handed
   to delay_for_attempt), every policy, every max_attempts (None = unlimited, the default),
   every jitter stream, EVERY number of failures — in particular more than 2^32 of them: it never
   panics, the j-th sleep is delay_for_attempt(min(j+1, u32::MAX)); with unlimited attempts and a
   policy other than None it never stops; with max_attempts(m) it sleeps exactly
   min(fuel, m, u32::MAX) times — so max_attempts(u32::MAX) gives up after exactly 2^32 failed
   calls (with the merely saturating counter of 0c0148b it never did: Example
   max_attempts_u32_max_is_a_bound) *)
Theorem C14_reconnect_loop_total :
  forall (p : reconnect_policy) (max_attempts : option N) (draws : nat -> f64) (fuel : nat),
    wf_policy p = true ->
    exists ds, loop_delays (reconnect_stepf p max_attempts draws) fuel 0 0%N = (ds, false) /\
      (forall j d, nth_error ds j = Some d ->
         delay_for_attempt p (N.min (N.of_nat (S j)) U32_MAX) (draws j) = Some (Some d)) /\
      (p <> PNone -> max_attempts = None -> length ds = fuel) /\
      (p <> PNone -> forall m, max_attempts = Some m ->
         N.of_nat (length ds) = N.min (N.of_nat fuel) (N.min m U32_MAX)).
Proof. exact reconnect_loop_total. Qed.
Print Assumptions C14_reconnect_loop_total.

(* along either loop the exponential delays actually slept are non-decreasing and capped *)
Theorem C14_retry_loop_delays :
  forall (c : cfg) (max_attempts : N) (fuel : nat) (draws : nat -> f64) (j k : nat) (dj dk : Z),
    wf_cfg c = true -> (max_attempts <= USIZE_MAX)%N -> (j <= k)%nat ->
    nth_error (fst (loop_delays (retry_stepf (Exponential c) max_attempts draws) fuel 0 0%N)) j = Some dj ->
    nth_error (fst (loop_delays (retry_stepf (Exponential c) max_attempts draws) fuel 0 0%N)) k = Some dk ->
    0 <= dj <= dk /\ dk <= cap_of (max_interval c) <= DUR_MAX.
Proof. exact retry_loop_exponential. Qed.
Print Assumptions C14_retry_loop_delays.

Theorem C14_reconnect_loop_delays :
  forall (c : cfg) (max_attempts : option N) (fuel : nat) (draws : nat -> f64) (j k : nat) (dj dk : Z),
    wf_cfg c = true -> (j <= k)%nat ->
    nth_error (fst (loop_delays (reconnect_stepf (PExponential c) max_attempts draws) fuel 0 0%N)) j = Some dj ->
    nth_error (fst (loop_delays (reconnect_stepf (PExponential c) max_attempts draws) fuel 0 0%N)) k = Some dk ->
    0 <= dj <= dk /\ dk <= cap_of (max_interval c) <= DUR_MAX.
Proof. exact reconnect_loop_exponential. Qed.
Print Assumptions C14_reconnect_loop_delays.
