(* C14 — Backoff delays are total, monotone and capped (over IEEE-754 binary64 as formalised by
   Flocq; the four standard-library axioms of Coq's classical reals are the only assumptions).
   Only statements, `exact` of a lemma from Proof/Backoff.v, and Print Assumptions.

   Vocabulary (Model/Backoff.v, Proof/Backoff.v): durations are nanoseconds in Z, DUR_MAX =
   Duration::MAX; attempts are N (usize: below 2^64); `draw` is the value random_range returned
   (an oracle: every statement is for all draws); None = panic.
   wf_cfg c      : initial and cap are Durations (0..DUR_MAX), multiplier finite and >= 1,
                   randomization factor in [0,1]  (executable predicates, see the Examples).
   base_of c a   : exponential_interval(initial, multiplier, a, max_interval), the un-jittered value.
   cap_of max    : max.unwrap_or(Duration::MAX).
   draw_in_range : jitter_lo <= draw <= jitter_hi, i.e. the contract of random_range(lo..=hi),
                   jitter_lo/hi = d -/+ d*factor computed in f64 exactly as `randomize` does.
   dur_sat x     : Duration::try_from_secs_f64(x.max(0.0)).unwrap_or(Duration::MAX).
   All theorems are full except C14_real_error_partial (see the comment there). *)
From TR Require Import Lib.Base Model.Backoff Proof.Backoff.

(* no panic: every backoff type (and RetryPolicy::next_backoff), every attempt, every draw *)
Theorem C14_total :
  forall (b : backoff) (attempt : N) (draw : f64),
    wf_backoff b = true -> (attempt < 2 ^ 64)%N ->
    exists d, next_interval b attempt draw = Some d /\ next_backoff b attempt draw = Some d.
Proof. exact total_backoff. Qed.
Print Assumptions C14_total.

(* no panic for every ReconnectPolicy; "no delay" exactly for ReconnectPolicy::None *)
Theorem C14_total_reconnect :
  forall (p : reconnect_policy) (attempt : N) (draw : f64),
    wf_policy p = true -> (attempt < 2 ^ 64)%N ->
    exists r, delay_for_attempt p attempt draw = Some r /\ (r = None <-> p = PNone).
Proof. exact total_policy. Qed.
Print Assumptions C14_total_reconnect.

(* never above max_interval (and always a representable Duration) *)
Theorem C14_capped :
  forall (c : cfg) (attempt : N) (draw : f64),
    wf_cfg c = true -> (attempt < 2 ^ 64)%N ->
    exists d, next_interval (Exponential c) attempt draw = Some d /\ 0 <= d <= DUR_MAX /\
              (forall k, max_interval c = Some k -> d <= k).
Proof. exact capped. Qed.
Print Assumptions C14_capped.

(* jittered variant: it is the capped value that gets jittered, so what holds is
   base <= cap and result <= dur_sat (base + base*factor) *)
Theorem C14_capped_jittered :
  forall (c : cfg) (attempt : N) (draw : f64),
    wf_cfg c = true -> (attempt < 2 ^ 64)%N -> draw_in_range c attempt draw = true ->
    exists r, next_interval (ExponentialRandom c) attempt draw = Some r /\
              (forall k, max_interval c = Some k -> 0 <= base_of c attempt <= k) /\
              0 <= r <= dur_sat (jitter_hi (base_of c attempt) (factor c)) /\
              dur_sat (jitter_hi (base_of c attempt) (factor c)) <= DUR_MAX.
Proof. exact capped_jittered. Qed.
Print Assumptions C14_capped_jittered.

(* non-decreasing in the attempt number, for every multiplier >= 1 (square-and-multiply with
   rounding after every product, overflow to +inf, conversion and cap included) *)
Theorem C14_monotone :
  forall (c : cfg) (a b : N) (draw : f64),
    wf_cfg c = true -> (a <= b)%N -> (b < 2 ^ 64)%N ->
    exists da db, next_interval (Exponential c) a draw = Some da /\
                  next_interval (Exponential c) b draw = Some db /\ da <= db.
Proof. exact monotone. Qed.
Print Assumptions C14_monotone.

(* the key lemma behind it, in IEEE order: 1 <= powi m a <= powi m b (possibly +inf) *)
Theorem C14_powi_monotone :
  forall (m : f64) (a b : N), wf_mult m = true -> (a <= b)%N ->
    fle fone (powi m a) = true /\ fle (powi m a) (powi m b) = true.
Proof. exact powi_monotone. Qed.
Print Assumptions C14_powi_monotone.

(* what the value is: with secs = as_secs_f64(initial) (x) powi(multiplier, min(attempt, i32::MAX))
   in binary64, the result is 0 if !(secs > 0), else try_from_secs_f64(secs) while that is at
   most the cap, else the cap (also when the conversion fails: secs >= 2^64 s or +inf) *)
Theorem C14_exact_below_cap :
  forall (ini : Z) (m : f64) (attempt : N) (max : option Z),
    let secs := fmul (as_secs_f64 ini) (powi m (N.min attempt I32_MAX)) in
    (fgt secs fzero = false -> exponential_interval ini m attempt max = 0) /\
    (fgt secs fzero = true ->
       forall d, try_from_secs_f64 secs = Some d -> d <= cap_of max ->
       exponential_interval ini m attempt max = d) /\
    (fgt secs fzero = true ->
       (try_from_secs_f64 secs = None \/
        exists d, try_from_secs_f64 secs = Some d /\ cap_of max <= d) ->
       exponential_interval ini m attempt max = cap_of max).
Proof. exact exact_below_cap. Qed.
Print Assumptions C14_exact_below_cap.

(* every draw inside the range gives a delay between the two ends of the range *)
Theorem C14_jitter_within_factor :
  forall (c : cfg) (attempt : N) (draw : f64),
    wf_cfg c = true -> (attempt < 2 ^ 64)%N -> draw_in_range c attempt draw = true ->
    exists r, next_interval (ExponentialRandom c) attempt draw = Some r /\
              dur_sat (jitter_lo (base_of c attempt) (factor c)) <= r /\
              r <= dur_sat (jitter_hi (base_of c attempt) (factor c)) /\
              0 <= r <= DUR_MAX.
Proof. exact jitter_within_factor. Qed.
Print Assumptions C14_jitter_within_factor.

(* every ReconnectPolicy inherits total / capped / monotone *)
Theorem C14_reconnect_policies :
  forall (p : reconnect_policy) (a b : N) (draw : f64),
    wf_policy p = true -> (a <= b)%N -> (b < 2 ^ 64)%N ->
    match p with
    | PNone => delay_for_attempt p a draw = Some None
    | PFixed d =>
        delay_for_attempt p a draw = Some (Some d) /\ delay_for_attempt p b draw = Some (Some d)
    | PExponential c =>
        exists da db, delay_for_attempt p a draw = Some (Some da) /\
                      delay_for_attempt p b draw = Some (Some db) /\
                      0 <= da <= db /\ db <= cap_of (max_interval c) <= DUR_MAX
    | PExponentialRandom c =>
        exists r, delay_for_attempt p a draw = Some (Some r) /\
                  0 <= base_of c a <= base_of c b /\
                  base_of c b <= cap_of (max_interval c) <= DUR_MAX /\
                  (draw_in_range c a draw = true ->
                     dur_sat (jitter_lo (base_of c a) (factor c)) <= r
                     <= dur_sat (jitter_hi (base_of c a) (factor c)))
    | PCustom f => delay_for_attempt p a draw = Some (Some (f a))
    end.
Proof. exact reconnect_policies. Qed.
Print Assumptions C14_reconnect_policies.

(* the public constructors (ExponentialBackoff::new().multiplier().max_interval(),
   ExponentialRandomBackoff::new() with its clamp, ReconnectPolicy::exponential /
   exponential_random with multiplier 2.0) yield well-formed configurations *)
Theorem C14_constructors_wf :
  (forall ini m cap, wf_dur ini = true -> wf_mult m = true ->
     match cap with Some k => wf_dur k | None => true end = true ->
     wf_backoff (exponential_backoff ini m cap) = true) /\
  (forall ini m f cap, wf_dur ini = true -> wf_mult m = true -> fis_nan f = false ->
     match cap with Some k => wf_dur k | None => true end = true ->
     wf_backoff (exponential_random_backoff ini m f cap) = true) /\
  (forall ini cap, wf_dur ini = true -> wf_dur cap = true ->
     wf_policy (policy_exponential ini cap) = true) /\
  (forall ini cap f, wf_dur ini = true -> wf_dur cap = true -> fis_nan f = false ->
     wf_policy (policy_exponential_random ini cap f) = true).
Proof. exact constructors_wf. Qed.
Print Assumptions C14_constructors_wf.

(* PARTIAL. Distance between the binary64 product and the real product: with
   s = the binary64 value of as_secs_f64(initial), mu = multiplier, e = min(attempt, i32::MAX),
   u = 2^-53 (Proof/Backoff.v: real_error_bound),
     s * mu^e * (1-u)^(e+1) <= secs <= s * mu^e * (1+u)^(e+1)
   whenever the product did not overflow. What is missing for the property's
   "equal to initial x multiplier^attempt": (1) the error of as_secs_f64(initial) against the real
   initial/10^9 (two more roundings, and the u64 -> f64 cast above 2^53 s) and the final
   rounding to whole nanoseconds (at most 0.5 ns) are not included; (2) the bound is left in
   the multiplicative form (1 -/+ u)^(e+1) instead of (attempt+2)*2^-53-ish. The monitor in
   gen/c14.py checks the end-to-end bound (attempt+2)*2^-52 (+1 ns) on every run. *)
Theorem C14_real_error_partial :
  forall (c : cfg) (attempt : N),
    wf_cfg c = true -> 1 <= initial c -> fis_finite (secs_of c attempt) = true ->
    real_error_bound c attempt.
Proof. exact real_error_partial. Qed.
Print Assumptions C14_real_error_partial.
