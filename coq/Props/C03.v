(* C03 — Open circuit breaker shields the inner service.
   Model: Model/Circuit.v (Circuit transcribed field for field + the service's call future at
   poll granularity, any number of concurrent callers on clones of one breaker).
   Only statements, `exact`, and Print Assumptions. *)
From TR Require Import Lib.Base Model.Circuit Proof.Circuit.

(* While the breaker is open and wait_duration_in_open has not elapsed since it opened, NO event
   (poll of any caller in any state, completion, cancellation, operator action, clock advance)
   starts an inner call — for every state, reachable or not, every configuration. *)
Theorem C03_no_start_while_open :
  forall (cf : cfg) (s : st) (e : ev),
    shielded cf s -> started (snd (step cf s e)) = false.
Proof. exact no_start_while_open. Qed.
Print Assumptions C03_no_start_while_open.

(* ... and a new call is answered at once with OpenCircuit (code 3), or by the fallback
   (code 4) when one is configured, leaving the circuit untouched. *)
Theorem C03_open_rejects :
  forall (cf : cfg) (s : st) (i : nat),
    shielded cf s -> cs s i = Created ->
    let s' := fst (poll cf s i) in let o := snd (poll cf s i) in
    r o = (if has_fallback cf then 4 else 3) /\ started o = false /\
    inflight s' = inflight s /\ circ s' = circ s /\ cs s' i = Done.
Proof. exact open_rejects. Qed.
Print Assumptions C03_open_rejects.

(* "since it opened": a step that changes the state stamps last_change with its instant, so
   [shielded] measures the wait from the moment the breaker opened, however it opened
   (failure rate, slow-call rate, a failed trial, force_open) *)
Theorem C03_open_since_transition :
  forall (cf : cfg) (s : st) (e : ev),
    state (circ (step_st cf s e)) <> state (circ s) ->
    last_change (circ (step_st cf s e)) = now s.
Proof. exact last_change_is_transition_instant. Qed.
Print Assumptions C03_open_since_transition.

Theorem C03_force_open_does_not_restart_wait :
  forall (cf : cfg) (s : st),
    state (circ s) = Open -> circ (step_st cf s ForceOpen) = circ s.
Proof. exact force_open_when_open. Qed.
Print Assumptions C03_force_open_does_not_restart_wait.

(* calls admitted before the breaker opened may still complete with their inner outcome *)
Theorem C03_admitted_call_completes :
  forall (cf : cfg) (s : st) (i : nat) (start : Z) (tr : option Z),
    cs s i = Running start tr ->
    (forall f, gate s i = Some (OOk f) -> r (snd (poll cf s i)) = 1) /\
    (forall f, gate s i = Some (OErr f) -> r (snd (poll cf s i)) = 2).
Proof. exact admitted_call_completes. Qed.
Print Assumptions C03_admitted_call_completes.

(* "observed open" through any view: in every reachable state the lock-free view and the
   metrics snapshot show the same state as the async view — for every configuration (also
   permitted_calls_in_half_open = 0, which the builder accepts) *)
Theorem C03_views_agree :
  forall (cf : cfg) (evs : list ev),
    Forall (fun s => state_atomic (circ s) = state (circ s) /\
                     fst (fst (fst (fst (metrics cf (circ s))))) = state (circ s))
           (states (step_st cf) init evs).
Proof. exact views_agree_all. Qed.
Print Assumptions C03_views_agree.

(* The shield persists: while shielded, every event other than an operator's force_closed /
   reset — in particular the late completion of a call admitted earlier, whatever its outcome,
   a cancellation, a panic, force_open — leaves the breaker open with the SAME opening instant,
   and the number of inner calls in flight does not grow (any state, any configuration). *)
Theorem C03_shield_persists :
  forall (cf : cfg) (s : st) (e : ev),
    shielded cf s -> e <> ForceClosed -> e <> Reset ->
    state (circ (step_st cf s e)) = Open /\
    last_change (circ (step_st cf s e)) = last_change (circ s) /\
    inflight (step_st cf s e) <= inflight s.
Proof. exact shield_persists. Qed.
Print Assumptions C03_shield_persists.

(* The property's sentence, over runs of the step function that run_script executes: from ANY
   state in which the breaker is open (opened at last_change), along ANY sequence of events
   without force_closed / reset that ends before wait_duration_in_open has elapsed since the
   opening instant: no event starts an inner call ([starts_in] = the trace's `started` fields),
   and in every state passed the breaker is open with the same opening instant and no more inner
   calls in flight than at the beginning. *)
Theorem C03_interval :
  forall (cf : cfg) (evs : list ev) (s : st),
    state (circ s) = Open ->
    Forall (fun e => e <> ForceClosed /\ e <> Reset) evs ->
    now (fold_left (step_st cf) evs s) - last_change (circ s) < wait_open cf ->
    Forall (fun b => b = false) (starts_in cf s evs) /\
    Forall (fun s' => state (circ s') = Open /\ last_change (circ s') = last_change (circ s) /\
                      inflight s' <= inflight s)
           (states (step_st cf) s evs).
Proof. exact interval. Qed.
Print Assumptions C03_interval.
