(* C03 — Open circuit breaker shields the inner service.
   Model: Model/Circuit.v (Circuit transcribed field for field + the service's call future at
   poll granularity, any number of concurrent callers on clones of one breaker).
   Only statements, `exact`, and Print Assumptions. *)
From TR Require Import Lib.Base Model.Circuit Proof.Circuit.

(* While the breaker is open and wait_duration_in_open has not elapsed since it opened, NO event
   (poll of any caller in any state, completion, cancellation, operator action, clock advance)
   starts an inner call — for every state, reachable or not, every configuration. *)
Theorem C03_no_start_while_open :
  forall (cf : cfg) (s : st) (e : ev),
    shielded cf s -> started (snd (step cf s e)) = false.
Proof. exact no_start_while_open. Qed.
Print Assumptions C03_no_start_while_open.

(* ... and a new call is answered at once with OpenCircuit (code 3), or by the fallback
   (code 4) when one is configured, leaving the circuit untouched. *)
Theorem C03_open_rejects :
  forall (cf : cfg) (s : st) (i : nat),
    shielded cf s -> cs s i = Created ->
    let s' := fst (poll cf s i) in let o := snd (poll cf s i) in
    r o = (if has_fallback cf then 4 else 3) /\ started o = false /\
    inflight s' = inflight s /\ circ s' = circ s /\ cs s' i = Done.
Proof. exact open_rejects. Qed.
Print Assumptions C03_open_rejects.

(* "since it opened": a step that changes the state stamps last_change with its instant, so
   [shielded] measures the wait from the moment the breaker opened, however it opened
   (failure rate, slow-call rate, a failed trial, force_open) *)
Theorem C03_open_since_transition :
  forall (cf : cfg) (s : st) (e : ev),
    state (circ (step_st cf s e)) <> state (circ s) ->
    last_change (circ (step_st cf s e)) = now s.
Proof. exact last_change_is_transition_instant. Qed.
Print Assumptions C03_open_since_transition.

Theorem C03_force_open_does_not_restart_wait :
  forall (cf : cfg) (s : st),
    state (circ s) = Open -> circ (step_st cf s ForceOpen) = circ s.
Proof. exact force_open_when_open. Qed.
Print Assumptions C03_force_open_does_not_restart_wait.

(* calls admitted before the breaker opened may still complete with their inner outcome *)
Theorem C03_admitted_call_completes :
  forall (cf : cfg) (s : st) (i : nat) (start : Z) (tr : option Z),
    cs s i = Running start tr ->
    (forall f, gate s i = Some (OOk f) -> r (snd (poll cf s i)) = 1) /\
    (forall f, gate s i = Some (OErr f) -> r (snd (poll cf s i)) = 2).
Proof. exact admitted_call_completes. Qed.
Print Assumptions C03_admitted_call_completes.

(* "observed open" through any view: in every reachable state the lock-free view and the
   metrics snapshot show the same state as the async view *)
Theorem C03_views_agree :
  forall (cf : cfg) (evs : list ev),
    1 <= permitted cf ->
    Forall (fun s => state_atomic (circ s) = state (circ s) /\
                     fst (fst (fst (fst (metrics cf (circ s))))) = state (circ s))
           (states (step_st cf) init evs).
Proof. exact views_agree. Qed.
Print Assumptions C03_views_agree.
