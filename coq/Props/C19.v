(* C19 — Chaos injection is reproducible and bounded; injected errors skip the inner call.
   Only statements, `exact` of a lemma from Proof/Chaos.v, and Print Assumptions.
   The model (Model/Chaos.v) is a function of (config, draw stream); rates and rolls are
   IEEE binary64 bit patterns decoded exactly to integer multiples of 2^-1074, so every
   comparison is integer arithmetic and no floating-point axiom is used. [run c te i t qs st]
   = outcomes of the requests qs (first index i, issued from time t on, run ending at te)
   on the draw stream st, and the unconsumed rest of the stream. *)
From TR Require Import Lib.Base Model.Chaos Proof.Chaos.

(* The decisions (which draws are logged, error injected, injected latency) and the draws
   consumed are a function of the configuration, the draw stream and the NUMBER of requests
   only: not of issue times, payloads, inner outcomes or run length. Hence two instances
   fed equal streams (equal seeds) make equal decisions request by request, forever. *)
Theorem C19_deterministic :
  forall c te te' i i' t t' qs qs' st,
    length qs = length qs' ->
    map o_dec (fst (run c te i t qs st)) = map o_dec (fst (run c te' i' t' qs' st)) /\
    snd (run c te i t qs st) = snd (run c te' i' t' qs' st) /\
    map o_dec (fst (run c te i t qs st)) = fst (decisions c (length qs) st).
Proof. exact deterministic. Qed.
Print Assumptions C19_deterministic.

(* lock-step continues: a run over qs1 ++ qs2 is the run over qs1 followed by the run over
   qs2 on the rest of the stream *)
Theorem C19_lockstep_compositional :
  forall c te i t qs1 qs2 st,
    run c te i t (qs1 ++ qs2) st =
    let (os1, st1) := run c te i t qs1 st in
    let (os2, st2) := run c te (i + Z.of_nat (length qs1)) (t + total_gap qs1) qs2 st1 in
    (os1 ++ os2, st2).
Proof. exact run_app. Qed.
Print Assumptions C19_lockstep_compositional.

(* only the consumed prefix of the stream matters *)
Theorem C19_consumes_prefix :
  forall c st,
    (length (d_kinds (fst (decide c st))) <= length st)%nat ->
    st = d_bits (fst (decide c st)) ++ snd (decide c st).
Proof. exact decide_prefix. Qed.
Print Assumptions C19_consumes_prefix.

Theorem C19_error_skips_inner :
  forall c te i t qs st o,
    In o (fst (run c te i t qs st)) ->
    d_err (o_dec o) = true ->
    o_inner o = false /\ o_t_inner o = -1 /\ o_res_kind o = 1 /\ o_t_done o = o_t_issue o /\
    d_delay (o_dec o) = None /\ o_ev_err o = 1 /\ o_ev_lat o = 0 /\ o_ev_pass o = 0.
Proof. exact error_skips_inner. Qed.
Print Assumptions C19_error_skips_inner.

(* both rates 0 (or -0, or clamped from below 0, or no error injector): no draw, no
   injection, the inner service is called at once, exactly once, result unchanged *)
Theorem C19_transparent_at_zero :
  forall c te i t qs st,
    erate c = Some 0 -> lrate c = Some 0 ->
    Forall2 (fun q o =>
      d_kinds (o_dec o) = [] /\ d_bits (o_dec o) = [] /\ d_err (o_dec o) = false /\
      d_delay (o_dec o) = None /\
      o_ev_err o = 0 /\ o_ev_lat o = 0 /\ o_ev_pass o = 1 /\
      (o_t_issue o <= te ->
       o_inner o = true /\ o_t_inner o = o_t_issue o /\ o_t_done o = o_t_issue o /\
       o_res_kind o = (if q_ik q =? 0 then 0 else 1) /\ o_res_val o = q_iv q))
      qs (fst (run c te i t qs st)) /\
    snd (run c te i t qs st) = st.
Proof. exact transparent_at_zero. Qed.
Print Assumptions C19_transparent_at_zero.

(* error rate 1 with rolls in [0,1): every request fails, the inner service is never called *)
Theorem C19_always_fails_at_one :
  forall c te i t qs st,
    custom c = true -> erate c = Some f64_one ->
    Forall (fun b => exists v, f64_val b = Some v /\ 0 <= v < f64_one) st ->
    Forall (fun o => d_err (o_dec o) = true /\ o_inner o = false /\ o_res_kind o = 1 /\
                     d_kinds (o_dec o) = [0]) (fst (run c te i t qs st)).
Proof. exact always_fails_at_one. Qed.
Print Assumptions C19_always_fails_at_one.

(* injected latency lies within [min, max] (whole ms, either order), given that the RNG's
   range draw lies within the requested range; it is exactly the delay before the inner call *)
Theorem C19_latency_bounds :
  forall c te i t qs st o d,
    In o (fst (run c te i t qs st)) ->
    d_delay (o_dec o) = Some d ->
    (forall z, d_range (o_dec o) = Some z -> min_ms c <= z <= max_ms c) ->
    Z.min (min_ms c) (max_ms c) <= d <= Z.max (min_ms c) (max_ms c) /\
    d_err (o_dec o) = false /\
    (o_inner o = true -> o_t_inner o = o_t_issue o + d) /\
    (o_t_issue o + d <= te -> o_inner o = true).
Proof. exact run_latency_bounds. Qed.
Print Assumptions C19_latency_bounds.

(* bounds are truncated to whole milliseconds; rates are clamped to [0,1] (or NaN) *)
Theorem C19_config_truncation :
  forall inj eb lb min_us max_us,
    min_ms (mk_config inj eb lb min_us max_us) = min_us / 1000 /\
    max_ms (mk_config inj eb lb min_us max_us) = max_us / 1000 /\
    (forall v, erate (mk_config inj eb lb min_us max_us) = Some v -> 0 <= v <= f64_one) /\
    (forall v, lrate (mk_config inj eb lb min_us max_us) = Some v -> 0 <= v <= f64_one).
Proof. exact config_truncation. Qed.
Print Assumptions C19_config_truncation.

(* which draws are made, in which order: [error roll iff error rate > 0] then [latency roll
   only if latency rate > 0 and no error] then [delay entry iff latency injected]; the RNG
   range draw happens iff latency is injected and max_ms > min_ms (otherwise delay = min_ms) *)
Theorem C19_draw_discipline :
  forall c te i t qs st o,
    In o (fst (run c te i t qs st)) ->
    let d := o_dec o in
    d_kinds d = (if fgt (erate c) (Some 0) then [0] else []) ++
                (if existsb (Z.eqb 1) (d_kinds d) then [1] else []) ++
                (match d_delay d with Some _ => [2] | None => [] end) /\
    (In 0 (d_kinds d) <-> fgt (erate c) (Some 0) = true) /\
    (In 1 (d_kinds d) -> fgt (lrate c) (Some 0) = true /\ d_err d = false) /\
    (fgt (lrate c) (Some 0) = true -> fgt (erate c) (Some 0) = false -> erate c <> None ->
     In 1 (d_kinds d)) /\
    (In 2 (d_kinds d) <-> d_delay d <> None) /\
    (d_delay d <> None -> In 1 (d_kinds d)) /\
    (forall z, d_range d = Some z <-> (d_delay d = Some z /\ min_ms c < max_ms c)) /\
    (min_ms c >= max_ms c -> forall x, d_delay d = Some x -> x = min_ms c) /\
    length (d_bits d) = length (d_kinds d).
Proof. exact run_draw_discipline. Qed.
Print Assumptions C19_draw_discipline.
