(* C19 — Chaos injection is reproducible and bounded; injected errors skip the inner call.
   Only statements, `exact` of a lemma from Proof/Chaos.v, and Print Assumptions.
   The model (Model/Chaos.v) is a function of (config, draw stream); rates and rolls are
   IEEE binary64 bit patterns decoded exactly to integer multiples of 2^-1074, so every
   comparison is integer arithmetic and no floating-point axiom is used. [run c te i t qs st]
   = outcomes of the requests qs (first index i, issued from time t on, run ending at te)
   on the draw stream st, and the unconsumed rest of the stream; every request is polled as
   soon as it is created. The decision block of the real layer runs at the FIRST POLL of the
   future, so the general form is [run_polls c te ps st]: ps is the list of first polls
   (request index, call() instant, poll instant, request) in the order in which they happen;
   this is what run_script executes (C19_script_runs_polls), on the schedule [polls] of the
   harness. The *_polls theorems hold for every list of first polls. *)
From TR Require Import Lib.Base Model.Chaos Proof.Chaos.

(* The decisions (which draws are logged, error injected, injected latency) and the draws
   consumed are a function of the configuration, the draw stream and the NUMBER of requests
   only: not of issue times, payloads, inner outcomes or run length. Hence two instances
   fed equal streams (equal seeds) make equal decisions request by request, forever. *)
Theorem C19_deterministic :
  forall c te te' i i' t t' qs qs' st,
    length qs = length qs' ->
    map o_dec (fst (run c te i t qs st)) = map o_dec (fst (run c te' i' t' qs' st)) /\
    snd (run c te i t qs st) = snd (run c te' i' t' qs' st) /\
    map o_dec (fst (run c te i t qs st)) = fst (decisions c (length qs) st).
Proof. exact deterministic. Qed.
Print Assumptions C19_deterministic.

(* lock-step continues: a run over qs1 ++ qs2 is the run over qs1 followed by the run over
   qs2 on the rest of the stream *)
Theorem C19_lockstep_compositional :
  forall c te i t qs1 qs2 st,
    run c te i t (qs1 ++ qs2) st =
    let (os1, st1) := run c te i t qs1 st in
    let (os2, st2) := run c te (i + Z.of_nat (length qs1)) (t + total_gap qs1) qs2 st1 in
    (os1 ++ os2, st2).
Proof. exact run_app. Qed.
Print Assumptions C19_lockstep_compositional.

(* only the consumed prefix of the stream matters *)
Theorem C19_consumes_prefix :
  forall c st,
    (length (d_kinds (fst (decide c st))) <= length st)%nat ->
    st = d_bits (fst (decide c st)) ++ snd (decide c st).
Proof. exact decide_prefix. Qed.
Print Assumptions C19_consumes_prefix.

Theorem C19_error_skips_inner :
  forall c te i t qs st o,
    In o (fst (run c te i t qs st)) ->
    d_err (o_dec o) = true ->
    o_inner o = false /\ o_t_inner o = -1 /\ o_res_kind o = 1 /\ o_t_done o = o_t_issue o /\
    d_delay (o_dec o) = None /\ o_ev_err o = 1 /\ o_ev_lat o = 0 /\ o_ev_pass o = 0.
Proof. exact error_skips_inner. Qed.
Print Assumptions C19_error_skips_inner.

(* both rates 0 (or -0, or clamped from below 0, or no error injector): no draw, no
   injection, the inner service is called at once, exactly once, result unchanged and
   delivered when the inner service answers (q_lat q ms later) *)
Theorem C19_transparent_at_zero :
  forall c te i t qs st,
    erate c = Some 0 -> lrate c = Some 0 ->
    Forall2 (fun q o =>
      d_kinds (o_dec o) = [] /\ d_bits (o_dec o) = [] /\ d_err (o_dec o) = false /\
      d_delay (o_dec o) = None /\
      o_ev_err o = 0 /\ o_ev_lat o = 0 /\ o_ev_pass o = 1 /\
      (o_t_issue o <= te -> o_inner o = true /\ o_t_inner o = o_t_issue o) /\
      (o_t_issue o + q_lat q <= te ->
       o_t_done o = o_t_issue o + q_lat q /\ o_res_kind o = q_kind q /\ o_res_val o = q_iv q))
      qs (fst (run c te i t qs st)) /\
    snd (run c te i t qs st) = st.
Proof. exact transparent_at_zero. Qed.
Print Assumptions C19_transparent_at_zero.

(* error rate 1 with rolls in [0,1): every request fails, the inner service is never called *)
Theorem C19_always_fails_at_one :
  forall c te i t qs st,
    custom c = true -> erate c = Some f64_one ->
    Forall (fun b => exists v, f64_val b = Some v /\ 0 <= v < f64_one) st ->
    Forall (fun o => d_err (o_dec o) = true /\ o_inner o = false /\ o_res_kind o = 1 /\
                     d_kinds (o_dec o) = [0]) (fst (run c te i t qs st)).
Proof. exact always_fails_at_one. Qed.
Print Assumptions C19_always_fails_at_one.

(* injected latency lies within [min, max] (whole ms, either order), given that the RNG's
   range draw lies within the requested range; it is exactly the delay before the inner call *)
Theorem C19_latency_bounds :
  forall c te i t qs st o d,
    In o (fst (run c te i t qs st)) ->
    d_delay (o_dec o) = Some d ->
    (forall z, d_range (o_dec o) = Some z -> min_ms c <= z <= max_ms c) ->
    Z.min (min_ms c) (max_ms c) <= d <= Z.max (min_ms c) (max_ms c) /\
    d_err (o_dec o) = false /\
    (o_inner o = true -> o_t_inner o = o_t_issue o + d) /\
    (o_t_issue o + d <= te -> o_inner o = true).
Proof. exact run_latency_bounds. Qed.
Print Assumptions C19_latency_bounds.

(* bounds are truncated to whole milliseconds and SATURATED at u64::MAX ms
   (`u64::try_from(as_millis()).unwrap_or(u64::MAX)`), rates are clamped to [0,1] (or NaN); a bound v
   of the script is v microseconds (v < 2^64) or v - 2^64 nanoseconds; dur_floor_ms is the exact
   truncation (Duration::as_millis), dur_ms = min (dur_floor_ms) (2^64 - 1) *)
Theorem C19_config_truncation :
  forall flags eb lb minv maxv,
    min_ms (mk_config flags eb lb minv maxv) = dur_ms minv /\
    max_ms (mk_config flags eb lb minv maxv) = dur_ms maxv /\
    (forall v, erate (mk_config flags eb lb minv maxv) = Some v -> 0 <= v <= f64_one) /\
    (forall v, lrate (mk_config flags eb lb minv maxv) = Some v -> 0 <= v <= f64_one).
Proof. exact config_truncation. Qed.
Print Assumptions C19_config_truncation.

(* the builder, as far as the error injector goes: whatever the order of error_rate() / error_fn()
   calls, the LAST error_rate() wins (clamped) and error_fn() never changes the rate, however often
   the error function is replaced (fix 7904406); CustomErrorFn as soon as error_fn() was called *)
Theorem C19_builder_last_rate_wins :
  forall ops,
    brate (build ops) = rate_of (last_rate ops None) /\ bcustom (build ops) = existsb is_fn ops.
Proof. exact builder_last_rate_wins. Qed.
Print Assumptions C19_builder_last_rate_wins.

(* each of the 16 builder routes the harness drives configures exactly the script's error rate *)
Theorem C19_routes_configure_rate :
  forall flags eb lb minv maxv,
    flags mod 2 = 1 ->
    custom (mk_config flags eb lb minv maxv) = true /\
    erate (mk_config flags eb lb minv maxv) = clamp01 (f64_val eb).
Proof. exact routes_configure_rate. Qed.
Print Assumptions C19_routes_configure_rate.

Theorem C19_no_injector_config :
  forall flags eb lb minv maxv,
    flags mod 2 = 0 ->
    custom (mk_config flags eb lb minv maxv) = false /\ erate (mk_config flags eb lb minv maxv) = Some 0.
Proof. exact no_injector_config. Qed.
Print Assumptions C19_no_injector_config.

Theorem C19_bounds_in_microseconds :
  forall v, 0 <= v < 2 ^ 64 -> dur_ms v = v / 1000.
Proof. exact dur_ms_micros. Qed.
Print Assumptions C19_bounds_in_microseconds.

Theorem C19_bounds_no_wrap :
  forall v, dur_floor_ms v < 2 ^ 64 -> dur_ms v = dur_floor_ms v.
Proof. exact dur_ms_nowrap. Qed.
Print Assumptions C19_bounds_no_wrap.

Theorem C19_bounds_saturate :
  forall v, (2 ^ 64 - 1 <= dur_floor_ms v -> dur_ms v = 2 ^ 64 - 1) /\ 0 <= dur_ms v <= 2 ^ 64 - 1.
Proof. exact dur_ms_sat_range. Qed.
Print Assumptions C19_bounds_saturate.

(* which draws are made, in which order: [error roll iff error rate > 0] then [latency roll
   only if latency rate > 0 and no error] then [delay entry iff latency injected]; the RNG
   range draw happens iff latency is injected and max_ms > min_ms (otherwise delay = min_ms) *)
Theorem C19_draw_discipline :
  forall c te i t qs st o,
    In o (fst (run c te i t qs st)) ->
    let d := o_dec o in
    d_kinds d = (if fgt (erate c) (Some 0) then [0] else []) ++
                (if existsb (Z.eqb 1) (d_kinds d) then [1] else []) ++
                (match d_delay d with Some _ => [2] | None => [] end) /\
    (In 0 (d_kinds d) <-> fgt (erate c) (Some 0) = true) /\
    (In 1 (d_kinds d) -> fgt (lrate c) (Some 0) = true /\ d_err d = false) /\
    (fgt (lrate c) (Some 0) = true -> fgt (erate c) (Some 0) = false -> erate c <> None ->
     In 1 (d_kinds d)) /\
    (In 2 (d_kinds d) <-> d_delay d <> None) /\
    (d_delay d <> None -> In 1 (d_kinds d)) /\
    (forall z, d_range d = Some z <-> (d_delay d = Some z /\ min_ms c < max_ms c)) /\
    (min_ms c >= max_ms c -> forall x, d_delay d = Some x -> x = min_ms c) /\
    length (d_bits d) = length (d_kinds d).
Proof. exact run_draw_discipline. Qed.
Print Assumptions C19_draw_discipline.

(* ======== runs as lists of first polls (what run_script executes) ======== *)

Theorem C19_script_runs_polls :
  forall s,
    run_script s =
    let c := mk_config (zn s 0) (zn s 1) (zn s 2) (zn s 3) (zn s 4) in
    let n := Z.to_nat (zn s 7) in
    let qs := requests_of s n in
    let t_end := fold_left (fun a q => a + Z.max 0 (q_gap q)) qs 0 + Z.max 0 (zn s 6) in
    let cs := calls 0 0 qs in
    let os := fst (run_polls c t_end (polls cs [] 0) (skipn (8 + 3 * n) s)) in
    [7] ++ flat_map (enc_call os) cs ++
    [Z.of_nat (length (flat_map (fun po => d_bits (o_dec (snd po))) os))] ++
    flat_map (fun po => d_bits (o_dec (snd po))) os ++
    [Z.of_nat (length cs)] ++ flat_map (fun p => firstn 8 (enc_call os p)) cs.
Proof. exact script_runs_polls. Qed.
Print Assumptions C19_script_runs_polls.

(* [run] is the special case in which every request is polled as soon as it is created *)
Theorem C19_run_refines_polls :
  forall c te i t qs st,
    fst (run c te i t qs st) =
      map snd (fst (run_polls c te (map (fun p => at_poll (p_call p) p) (calls i t qs)) st)) /\
    snd (run c te i t qs st) =
      snd (run_polls c te (map (fun p => at_poll (p_call p) p) (calls i t qs)) st).
Proof. exact run_refines_polls. Qed.
Print Assumptions C19_run_refines_polls.

Theorem C19_polls_immediate :
  forall cs tl,
    Forall (fun p => q_mode (p_req p) = 0) cs ->
    polls cs [] tl = map (fun p => at_poll (p_call p) p) cs.
Proof. exact polls_immediate. Qed.
Print Assumptions C19_polls_immediate.

(* decisions and draws consumed are a function of the configuration, the draw stream and
   the NUMBER of first polls: not of which requests are polled, when, in which order they
   were created, their payloads, the inner outcomes or the length of the run *)
Theorem C19_deterministic_polls :
  forall c te te' ps ps' st,
    length ps = length ps' ->
    map (fun po => o_dec (snd po)) (fst (run_polls c te ps st)) =
    map (fun po => o_dec (snd po)) (fst (run_polls c te' ps' st)) /\
    snd (run_polls c te ps st) = snd (run_polls c te' ps' st) /\
    map (fun po => o_dec (snd po)) (fst (run_polls c te ps st)) = fst (decisions c (length ps) st).
Proof. exact deterministic_polls. Qed.
Print Assumptions C19_deterministic_polls.

(* "the order of requests" is the order of FIRST POLLS: the k-th first poll gets the k-th decision *)
Theorem C19_decisions_follow_first_polls :
  forall c te ps st,
    map (fun po => (p_idx (fst po), o_dec (snd po))) (fst (run_polls c te ps st)) =
    combine (map p_idx ps) (fst (decisions c (length ps) st)).
Proof. exact decisions_follow_first_polls. Qed.
Print Assumptions C19_decisions_follow_first_polls.

(* a future that is never polled consumes nothing: on the harness's schedule the decisions
   are those of as many stream positions as there are requests that are ever polled *)
Theorem C19_unpolled_consume_nothing :
  forall c te cs st,
    map (fun po => o_dec (snd po)) (fst (run_polls c te (polls cs [] 0) st)) =
      fst (decisions c (length (filter (fun p => q_mode (p_req p) <? 2) cs)) st) /\
    snd (run_polls c te (polls cs [] 0) st) =
      snd (decisions c (length (filter (fun p => q_mode (p_req p) <? 2) cs)) st).
Proof. exact unpolled_consume_nothing. Qed.
Print Assumptions C19_unpolled_consume_nothing.

(* the only assumption about the generator, named: the draw stream is SOME function of the seed *)
Theorem C19_seeded_lockstep :
  forall (gen : Z -> list Z) c seed te te' ps ps',
    length ps = length ps' ->
    map (fun po => o_dec (snd po)) (fst (run_polls c te ps (gen seed))) =
    map (fun po => o_dec (snd po)) (fst (run_polls c te' ps' (gen seed))).
Proof. exact seeded_lockstep. Qed.
Print Assumptions C19_seeded_lockstep.

Theorem C19_lockstep_compositional_polls :
  forall c te ps1 ps2 st,
    run_polls c te (ps1 ++ ps2) st =
    let (os1, st1) := run_polls c te ps1 st in
    let (os2, st2) := run_polls c te ps2 st1 in
    (os1 ++ os2, st2).
Proof. exact run_polls_app. Qed.
Print Assumptions C19_lockstep_compositional_polls.

Theorem C19_error_skips_inner_polls :
  forall c te ps st p o,
    In (p, o) (fst (run_polls c te ps st)) ->
    d_err (o_dec o) = true ->
    o_inner o = false /\ o_t_inner o = -1 /\ o_res_kind o = 1 /\ o_res_val o = err_fn (p_idx p) /\
    o_t_done o = o_t_issue o /\ o_t_issue o = p_poll p /\
    d_delay (o_dec o) = None /\ o_ev_err o = 1 /\ o_ev_lat o = 0 /\ o_ev_pass o = 0.
Proof. exact error_skips_inner_polls. Qed.
Print Assumptions C19_error_skips_inner_polls.

Theorem C19_transparent_at_zero_polls :
  forall c te ps st,
    erate c = Some 0 -> lrate c = Some 0 ->
    Forall (fun po =>
      let q := p_req (fst po) in let o := snd po in
      (d_kinds (o_dec o) = [] /\ d_bits (o_dec o) = [] /\ d_err (o_dec o) = false /\
       d_delay (o_dec o) = None /\
       o_ev_err o = 0 /\ o_ev_lat o = 0 /\ o_ev_pass o = 1 /\
       (o_t_issue o <= te -> o_inner o = true /\ o_t_inner o = o_t_issue o) /\
       (o_t_issue o + q_lat q <= te ->
        o_t_done o = o_t_issue o + q_lat q /\ o_res_kind o = q_kind q /\ o_res_val o = q_iv q)) /\
      o_t_issue o = p_poll (fst po))
      (fst (run_polls c te ps st)) /\
    snd (run_polls c te ps st) = st.
Proof. exact transparent_at_zero_polls. Qed.
Print Assumptions C19_transparent_at_zero_polls.

Theorem C19_always_fails_at_one_polls :
  forall c te ps st,
    custom c = true -> erate c = Some f64_one ->
    Forall (fun b => exists v, f64_val b = Some v /\ 0 <= v < f64_one) st ->
    Forall (fun po => d_err (o_dec (snd po)) = true /\ o_inner (snd po) = false /\
                      o_res_kind (snd po) = 1 /\ o_res_val (snd po) = err_fn (p_idx (fst po)) /\
                      d_kinds (o_dec (snd po)) = [0]) (fst (run_polls c te ps st)).
Proof. exact always_fails_at_one_polls. Qed.
Print Assumptions C19_always_fails_at_one_polls.

Theorem C19_latency_bounds_polls :
  forall c te ps st p o d,
    In (p, o) (fst (run_polls c te ps st)) ->
    d_delay (o_dec o) = Some d ->
    (forall z, d_range (o_dec o) = Some z -> min_ms c <= z <= max_ms c) ->
    Z.min (min_ms c) (max_ms c) <= d <= Z.max (min_ms c) (max_ms c) /\
    d_err (o_dec o) = false /\
    o_t_issue o = p_poll p /\
    (o_inner o = true -> o_t_inner o = p_poll p + d) /\
    (p_poll p + d <= te -> o_inner o = true).
Proof. exact latency_bounds_polls. Qed.
Print Assumptions C19_latency_bounds_polls.

(* the property's clause "injected latency lies within [min_latency, max_latency]" with the TRUE
   bounds of the configured Durations, for ALL bounds. fmin, fmax: the bounds truncated to whole ms
   (Duration::as_millis). The layer expresses the delay with Duration::from_millis(u64), so it cannot
   sleep longer than u64::MAX ms and saturates both bounds there. What holds, exactly:
   the delay lies between the saturated bounds (either order); it never exceeds the larger true bound;
   it is at least the smaller true bound, or u64::MAX ms if that bound is larger still; for bounds
   below 2^64 ms it lies within the true bounds; with min_latency >= u64::MAX ms it is exactly
   u64::MAX ms (584 million years: the request stays pending). *)
Theorem C19_latency_within_configured_bounds :
  forall flags eb lb minv maxv te ps st p o d,
    let c := mk_config flags eb lb minv maxv in
    let fmin := dur_floor_ms minv in
    let fmax := dur_floor_ms maxv in
    let smin := Z.min fmin (2 ^ 64 - 1) in
    let smax := Z.min fmax (2 ^ 64 - 1) in
    In (p, o) (fst (run_polls c te ps st)) ->
    d_delay (o_dec o) = Some d ->
    (forall z, d_range (o_dec o) = Some z -> smin <= z <= smax) ->
    Z.min smin smax <= d <= Z.max smin smax /\
    d <= Z.max fmin fmax /\
    Z.min (Z.min fmin fmax) (2 ^ 64 - 1) <= d /\
    (fmin < 2 ^ 64 -> fmax < 2 ^ 64 -> Z.min fmin fmax <= d <= Z.max fmin fmax) /\
    (2 ^ 64 - 1 <= fmin -> d = 2 ^ 64 - 1).
Proof. exact latency_bounds_true. Qed.
Print Assumptions C19_latency_within_configured_bounds.

Theorem C19_draw_discipline_polls :
  forall c te ps st p o,
    In (p, o) (fst (run_polls c te ps st)) -> kinds_ok c (o_dec o).
Proof. exact draw_discipline_polls. Qed.
Print Assumptions C19_draw_discipline_polls.
