(* C11 — Coalesce runs one inner call per key and shares its result with all waiters.
   Model: Model/Coalesce.v (poll-granular model of CoalesceService::call, CoalesceFuture::poll and
   its Drop over the in-flight map and one single-message broadcast channel per leader).
   Quantified over every list of events: Call i k (service.call for caller i with key k: the role
   is decided here, and a leader's inner call starts here), Poll i, Drop i (cancellation at any
   point), Complete i o (caller i's own inner call finishes with o in {ok, err, panic}; never =
   no Complete), for any number of callers and keys, in any order.  `run evs` is the state after
   evs; `inflight s` lists the callers whose inner call exists (made, not yet finished or dropped).
   Only statements, `exact`, and Print Assumptions. *)
From TR Require Import Lib.Base Model.Coalesce Proof.Coalesce.

(* In every reachable state the inner calls in flight are exactly those of the Leading callers,
   each once, and no two Leading callers have the same key: at most one in-flight inner call per key. *)
Theorem C11_one_per_key :
  forall (evs : list ev),
    let s := run evs in
    NoDup (inflight s) /\
    (forall i, In i (inflight s) <-> exists k, cs s i = Leading k) /\
    (forall i j k, cs s i = Leading k -> cs s j = Leading k -> i = j) /\
    (forall k, (length (filter (leads s k) (inflight s)) <= 1)%nat).
Proof. exact one_per_key. Qed.
Print Assumptions C11_one_per_key.

(* A request arriving while a leader's call for its key is in flight becomes a waiter on that
   leader and makes no inner call - not at call() and never later. *)
Theorem C11_waiter_makes_no_call :
  forall (evs : list ev) (l k i : nat),
    let s := run evs in
    cs s l = Leading k -> cs s i = Idle ->
    let s2 := step_st s (Call i k) in
    cs s2 i = Waiting l /\ inflight s2 = inflight s /\
    forall evs2, ~ In i (inflight (fold_left step_st evs2 s2)).
Proof. exact waiter_makes_no_call. Qed.
Print Assumptions C11_waiter_makes_no_call.

(* If that leader finishes with r (ok or error), the leader gets r and every waiter on it gets a
   clone of r - carrying the leader's value - at its next poll, whatever happens in between
   (other callers, new leaders for the same key, ...) short of polling or dropping the waiter. *)
Theorem C11_waiters_share :
  forall (evs : list ev) (l k i : nat) (o : outcome) (evs2 : list ev),
    let s := run evs in
    cs s l = Leading k -> cs s i = Waiting l -> gate s l = Some o -> o <> OPanic ->
    (forall e, In e evs2 -> e <> Poll i /\ e <> Drop i) ->
    snd (step s (Poll l)) = {| r := code o; val := Z.of_nat l |} /\
    snd (step (fold_left step_st evs2 (step_st s (Poll l))) (Poll i)) =
      {| r := code o; val := Z.of_nat l |}.
Proof. exact waiters_share. Qed.
Print Assumptions C11_waiters_share.

(* Leader dropped (at any point, even with its inner call already completed) or panicked: the key
   is free immediately - the next call() for it leads a fresh inner call - and every waiter on that
   leader resolves LeaderCancelled (r = 3) at its next poll. *)
Theorem C11_leader_gone :
  forall (evs : list ev) (l k : nat) (e : ev),
    let s := run evs in
    cs s l = Leading k -> (e = Drop l \/ (e = Poll l /\ gate s l = Some OPanic)) ->
    let s1 := step_st s e in
    lookup k (reqs s1) = None /\ ~ In l (inflight s1) /\
    (forall j, cs s1 j = Idle ->
       cs (step_st s1 (Call j k)) j = Leading k /\
       inflight (step_st s1 (Call j k)) = inflight s1 ++ [j]) /\
    (forall i evs2, cs s i = Waiting l -> (forall e', In e' evs2 -> e' <> Poll i /\ e' <> Drop i) ->
       snd (step (fold_left step_st evs2 s1) (Poll i)) = {| r := 3; val := -1 |}).
Proof. exact leader_gone. Qed.
Print Assumptions C11_leader_gone.

(* Results travel only along the leader's own channel: a waiter has the key of its leader; a value
   it receives is the one its leader's channel holds and names that leader; and the channel created
   by caller l0 is changed by no event other than l0's own call / poll / drop. *)
Theorem C11_no_cross_key :
  forall (evs : list ev) (i l : nat),
    let s := run evs in
    cs s i = Waiting l ->
    ckey s i = ckey s l /\ (exists k, ckey s i = Some k) /\
    (r (snd (step s (Poll i))) = 1 \/ r (snd (step s (Poll i))) = 2 ->
       val (snd (step s (Poll i))) = Z.of_nat l /\
       exists o, chan s l = Sent o /\ r (snd (step s (Poll i))) = code o) /\
    (forall e l0, e <> Poll l0 -> e <> Drop l0 -> (forall k, e <> Call l0 k) ->
       chan (step_st s e) l0 = chan s l0).
Proof. exact no_cross_key. Qed.
Print Assumptions C11_no_cross_key.

(* No request waits forever: a waiter's poll is Pending exactly while its leader is still leading
   (and then the waiter has arranged to be polled again: it wakes itself); otherwise it resolves. *)
Theorem C11_no_wait_forever :
  forall (evs : list ev) (i l : nat),
    let s := run evs in
    cs s i = Waiting l ->
    (r (snd (step s (Poll i))) = 0 <-> exists k, cs s l = Leading k) /\
    (r (snd (step s (Poll i))) = 0 ->
       woken (step_st s (Poll i)) i = true /\ cs (step_st s (Poll i)) i = Waiting l) /\
    (r (snd (step s (Poll i))) <> 0 -> cs (step_st s (Poll i)) i = Done).
Proof. exact no_wait_forever. Qed.
Print Assumptions C11_no_wait_forever.

(* Requests arriving after completion start a fresh call: once the leader has finished, no caller
   leads the key, and the next call() for it leads and calls the inner service itself; more
   generally this holds whenever no caller leads the key. *)
Theorem C11_fresh_after_completion :
  forall (evs : list ev) (l k : nat) (o : outcome),
    let s := run evs in
    cs s l = Leading k -> gate s l = Some o -> o <> OPanic ->
    let s1 := step_st s (Poll l) in
    lookup k (reqs s1) = None /\ ~ In l (inflight s1) /\ (forall l', cs s1 l' <> Leading k) /\
    (forall j, cs s1 j = Idle ->
       cs (step_st s1 (Call j k)) j = Leading k /\
       inflight (step_st s1 (Call j k)) = inflight s1 ++ [j]).
Proof. exact fresh_after_completion. Qed.
Print Assumptions C11_fresh_after_completion.

Theorem C11_free_key_leads :
  forall (evs : list ev) (k j : nat),
    let s := run evs in
    (forall l, cs s l <> Leading k) -> cs s j = Idle ->
    let s2 := step_st s (Call j k) in
    cs s2 j = Leading k /\ inflight s2 = inflight s ++ [j] /\ chan s2 j = Open.
Proof. exact free_key_leads. Qed.
Print Assumptions C11_free_key_leads.
