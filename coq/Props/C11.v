(* C11 — Coalesce runs one inner call per key and shares its result with all waiters.
   Model: Model/Coalesce.v (poll-granular model of CoalesceService::call, CoalesceFuture::poll and
   its Drop over the in-flight map and one single-message broadcast channel per leader).
   Quantified over every list of events: Call i k (service.call for caller i with key k: the role
   is decided here, and a leader's inner call starts here), CallPanic i k (the same call() with an
   inner service whose call() panics if this request reaches it), CallPanicRec i k (the same call()
   during which the metrics recorder / tracing subscriber panics - code that runs right after the
   role is decided, in either role), Poll i, Drop i (cancellation at
   any point), Advance d (d milliseconds pass), Complete i o (caller i's own inner call finishes with o in {ok, err, panic}; never =
   no Complete), Arm i (the next Clone of a value produced by caller i's inner call panics), for any
   number of callers and keys, in any order; and over both ways a pending waiter may arrange to be
   polled again (b = true: it wakes itself at once, which is what the code does and what run_script
   executes; b = false: it is woken when its leader's channel receives the result or closes).
   `run_b b evs` is the state after evs (`run = run_b true`); `inflight s` lists the callers whose
   inner call exists (made, not yet finished or dropped).  run_script folds the same `step`:
   C11_trace_is_run.  (A `Waiting l` caller never faces `chan s l = NoChan`: that case of the
   model's poll is dead code by the invariant, so "Pending iff the leader is Leading" below is not
   true by accident.)
   Only statements, `exact`, and Print Assumptions. *)
From TR Require Import Lib.Base Model.Coalesce Proof.Coalesce.

(* In every reachable state the inner calls in flight are exactly those of the Leading callers,
   each once, and no two Leading callers have the same key: at most one in-flight inner call per key. *)
Theorem C11_one_per_key :
  forall (b : bool) (evs : list ev),
    let s := run_b b evs in
    NoDup (inflight s) /\
    (forall i, In i (inflight s) <-> exists k, cs s i = Leading k) /\
    (forall i j k, cs s i = Leading k -> cs s j = Leading k -> i = j) /\
    (forall k, (length (filter (leads s k) (inflight s)) <= 1)%nat).
Proof. exact one_per_key. Qed.
Print Assumptions C11_one_per_key.

(* The in-flight map names, under key k, exactly the caller that currently leads k. *)
Theorem C11_map_entry_is_leader :
  forall (b : bool) (evs : list ev) (k l : nat),
    lookup k (reqs (run_b b evs)) = Some l <-> cs (run_b b evs) l = Leading k.
Proof. exact map_entry_is_leader. Qed.
Print Assumptions C11_map_entry_is_leader.

(* A request arriving while a leader's call for its key is in flight becomes a waiter on that
   leader and makes no inner call - not at call() and never later. *)
Theorem C11_waiter_makes_no_call :
  forall (b : bool) (evs : list ev) (l k i : nat),
    let s := run_b b evs in
    cs s l = Leading k -> cs s i = Idle ->
    let s2 := step_st s (Call i k) in
    cs s2 i = Waiting l /\ inflight s2 = inflight s /\
    forall evs2, ~ In i (inflight (fold_left step_st evs2 s2)).
Proof. exact waiter_makes_no_call. Qed.
Print Assumptions C11_waiter_makes_no_call.

(* If that leader finishes with r (ok or error), the leader gets r and every waiter on it gets a
   clone of r - carrying the leader's value - at its next poll, whatever happens in between
   (other callers, new leaders for the same key, ...) short of polling or dropping the waiter -
   provided the clones can be made: no Clone panic is armed for the leader's value (C11_leader_gone
   and C11_clone_panic_waiter say what happens otherwise). *)
Theorem C11_waiters_share :
  forall (b : bool) (evs : list ev) (l k i : nat) (o : outcome) (evs2 : list ev),
    let s := run_b b evs in
    cs s l = Leading k -> cs s i = Waiting l -> gate s l = Some o -> o <> OPanic ->
    bomb s l = false ->
    (forall e, In e evs2 -> e <> Poll i /\ e <> Drop i /\ e <> Arm l) ->
    snd (step s (Poll l)) = {| r := code o; val := Z.of_nat l |} /\
    snd (step (fold_left step_st evs2 (step_st s (Poll l))) (Poll i)) =
      {| r := code o; val := Z.of_nat l |}.
Proof. exact waiters_share. Qed.
Print Assumptions C11_waiters_share.

(* The same from any later state: a waiter in front of a channel holding its leader's result gets
   that result at its next poll (a waiter that joined after the inner call had completed but
   before the leader's completing poll is such a waiter). *)
Theorem C11_sent_delivers :
  forall (b : bool) (evs : list ev) (i l : nat) (o : outcome) (evs2 : list ev),
    let s := run_b b evs in
    cs s i = Waiting l -> chan s l = Sent o -> bomb s l = false ->
    (forall e, In e evs2 -> e <> Poll i /\ e <> Drop i /\ e <> Arm l) ->
    snd (step (fold_left step_st evs2 s) (Poll i)) = {| r := code o; val := Z.of_nat l |}.
Proof. exact sent_delivers. Qed.
Print Assumptions C11_sent_delivers.

(* Leader dropped (at any point, even with its inner call already completed), or panicked - its
   inner future panics while being polled, or its inner future returns and cloning the result for
   the waiters panics: the leader's poll reports the panic, the key is free immediately - the next
   call() for it leads a fresh inner call - and every waiter on that leader resolves
   LeaderCancelled (r = 3) at its next poll. *)
Theorem C11_leader_gone :
  forall (b : bool) (evs : list ev) (l k : nat) (e : ev),
    let s := run_b b evs in
    cs s l = Leading k ->
    (e = Drop l \/ (e = Poll l /\ gate s l = Some OPanic) \/
     (e = Poll l /\ gate s l <> None /\ bomb s l = true)) ->
    let s1 := step_st s e in
    lookup k (reqs s1) = None /\ ~ In l (inflight s1) /\
    (e = Poll l -> r (snd (step s e)) = 5) /\
    (forall j, cs s1 j = Idle ->
       cs (step_st s1 (Call j k)) j = Leading k /\
       inflight (step_st s1 (Call j k)) = inflight s1 ++ [j]) /\
    (forall i evs2, cs s i = Waiting l -> (forall e', In e' evs2 -> e' <> Poll i /\ e' <> Drop i) ->
       snd (step (fold_left step_st evs2 s1) (Poll i)) = {| r := 3; val := -1 |}).
Proof. exact leader_gone. Qed.
Print Assumptions C11_leader_gone.

(* inner.call() panics synchronously inside call(): nothing is left behind.  The in-flight set and
   the map are unchanged.  If some caller leads the key, the request never reaches the inner
   service: it is an ordinary waiter.  Otherwise call() unwinds (r = 5), no future exists, nobody
   else is touched, the key is still free and the next call() for it leads a fresh inner call. *)
Theorem C11_sync_panic_frees_key :
  forall (b : bool) (evs : list ev) (i k : nat),
    let s := run_b b evs in
    cs s i = Idle ->
    let s1 := step_st s (CallPanic i k) in
    inflight s1 = inflight s /\ reqs s1 = reqs s /\
    (forall l, cs s l = Leading k ->
       cs s1 i = Waiting l /\ r (snd (step s (CallPanic i k))) = -1 /\ chan s1 = chan s) /\
    ((forall l, cs s l <> Leading k) ->
       r (snd (step s (CallPanic i k))) = 5 /\ cs s1 i = Done /\ chan s1 i = Closed /\
       (forall j, j <> i -> cs s1 j = cs s j /\ chan s1 j = chan s j) /\
       (forall l, cs s1 l <> Leading k) /\
       forall j, cs s1 j = Idle ->
         cs (step_st s1 (Call j k)) j = Leading k /\
         inflight (step_st s1 (Call j k)) = inflight s1 ++ [j]).
Proof. exact sync_panic_frees_key. Qed.
Print Assumptions C11_sync_panic_frees_key.

(* The metrics recorder (feature `metrics`) or the tracing subscriber (feature `tracing`) panics inside
   call(), right after the role was decided: call() unwinds (r = 5) and that request is gone - it
   never makes an inner call - but nothing else is: map and in-flight set are unchanged, no other
   caller and no other channel is touched (a leader and its waiters are not disturbed by a request
   that would have waited on it), and if no caller led the key it is still free: the next call()
   for it leads a fresh inner call.  This and C11_sync_panic_frees_key are the two places of call()
   where code not written in the crate runs between the registration of the key and the
   construction of the future that owns it. *)
Theorem C11_recorder_panic_frees_key :
  forall (b : bool) (evs : list ev) (i k : nat),
    let s := run_b b evs in
    cs s i = Idle ->
    let s1 := step_st s (CallPanicRec i k) in
    r (snd (step s (CallPanicRec i k))) = 5 /\ cs s1 i = Done /\
    inflight s1 = inflight s /\ reqs s1 = reqs s /\
    (forall j, j <> i -> cs s1 j = cs s j /\ chan s1 j = chan s j) /\
    (forall evs2, ~ In i (inflight (fold_left step_st evs2 s1))) /\
    ((forall l, cs s l <> Leading k) ->
       (forall l, cs s1 l <> Leading k) /\
       forall j, cs s1 j = Idle ->
         cs (step_st s1 (Call j k)) j = Leading k /\
         inflight (step_st s1 (Call j k)) = inflight s1 ++ [j]).
Proof. exact recorder_panic_frees_key. Qed.
Print Assumptions C11_recorder_panic_frees_key.

(* The Clone made for one waiter panics (the leader has completed, its result is in the channel):
   that waiter's poll panics and nothing else changes - the other waiters still get the result
   (C11_sent_delivers applies to them: the armed panic is used up). *)
Theorem C11_clone_panic_waiter :
  forall (b : bool) (evs : list ev) (i l : nat) (o : outcome),
    let s := run_b b evs in
    cs s i = Waiting l -> chan s l = Sent o -> bomb s l = true ->
    let s1 := step_st s (Poll i) in
    snd (step s (Poll i)) = {| r := 5; val := -1 |} /\ cs s1 i = Done /\ bomb s1 l = false /\
    chan s1 = chan s /\ reqs s1 = reqs s /\ inflight s1 = inflight s /\
    (forall j, j <> i -> cs s1 j = cs s j).
Proof. exact clone_panic_waiter. Qed.
Print Assumptions C11_clone_panic_waiter.

(* Results travel only along the leader's own channel: a waiter has the key of its leader; a value
   it receives is the one its leader's channel holds and names that leader; and the channel created
   by caller l0 is changed by no event other than l0's own call (of any of the three kinds) / poll /
   drop. *)
Theorem C11_no_cross_key :
  forall (b : bool) (evs : list ev) (i l : nat),
    let s := run_b b evs in
    cs s i = Waiting l ->
    ckey s i = ckey s l /\ (exists k, ckey s i = Some k) /\
    (r (snd (step s (Poll i))) = 1 \/ r (snd (step s (Poll i))) = 2 ->
       val (snd (step s (Poll i))) = Z.of_nat l /\
       exists o, chan s l = Sent o /\ r (snd (step s (Poll i))) = code o) /\
    (forall e l0, e <> Poll l0 -> e <> Drop l0 -> (forall k, e <> Call l0 k) ->
       (forall k, e <> CallPanic l0 k) -> (forall k, e <> CallPanicRec l0 k) ->
       chan (step_st s e) l0 = chan s l0).
Proof. exact no_cross_key. Qed.
Print Assumptions C11_no_cross_key.

(* No request waits forever, part 1 (promptness): a waiter's poll is Pending exactly while its
   leader is still leading; then it stays a waiter whose waker is known (and, when waiters spin,
   it has woken itself); otherwise that very poll resolves it. *)
Theorem C11_no_wait_forever :
  forall (b : bool) (evs : list ev) (i l : nat),
    let s := run_b b evs in
    cs s i = Waiting l ->
    (r (snd (step s (Poll i))) = 0 <-> exists k, cs s l = Leading k) /\
    (r (snd (step s (Poll i))) = 0 ->
       cs (step_st s (Poll i)) i = Waiting l /\ polled (step_st s (Poll i)) i = true /\
       (b = true -> woken (step_st s (Poll i)) i = true)) /\
    (r (snd (step s (Poll i))) <> 0 -> cs (step_st s (Poll i)) i = Done).
Proof. exact no_wait_forever. Qed.
Print Assumptions C11_no_wait_forever.

(* No request waits forever, part 2 (no lost wake-up), in every reachable state and for both waiter
   disciplines: a request that has returned Pending is woken - so its executor polls it again -
   unless what it waits for has not happened yet: for a waiter, its leader is still leading
   (possible only when waiters do not spin); for a leader, its inner call has not completed. *)
Theorem C11_no_lost_wakeup :
  forall (b : bool) (evs : list ev),
    let s := run_b b evs in
    (forall i, cs s i = Idle -> polled s i = false) /\
    (forall i l, cs s i = Waiting l -> polled s i = true ->
       woken s i = true \/ (b = false /\ exists k, cs s l = Leading k)) /\
    (forall i k, cs s i = Leading k -> polled s i = true -> gate s i <> None -> woken s i = true).
Proof. exact no_lost_wakeup. Qed.
Print Assumptions C11_no_lost_wakeup.

(* In particular: the event after which a waiter's leader no longer leads (it completed, was
   dropped or panicked) leaves every pending waiter on it woken. *)
Theorem C11_waiter_woken_when_settled :
  forall (b : bool) (evs : list ev) (i l : nat) (e : ev),
    let s := run_b b evs in
    cs s i = Waiting l -> polled s i = true ->
    (exists k, cs s l = Leading k) -> (forall k, cs (step_st s e) l <> Leading k) ->
    woken (step_st s e) i = true /\ cs (step_st s e) i = Waiting l.
Proof. exact waiter_woken_when_settled. Qed.
Print Assumptions C11_waiter_woken_when_settled.

(* Once no caller leads, one round of polls resolves every waiter (the bound on polls after the
   last external event): result, LeaderCancelled, or a panic of the Clone made for it. *)
Theorem C11_quiescent_one_round :
  forall (b : bool) (evs : list ev) (i l : nat),
    let s := run_b b evs in
    (forall j k, cs s j <> Leading k) -> cs s i = Waiting l ->
    (r (snd (step s (Poll i))) = 1 \/ r (snd (step s (Poll i))) = 2 \/
     r (snd (step s (Poll i))) = 3 \/ r (snd (step s (Poll i))) = 5) /\
    cs (step_st s (Poll i)) i = Done.
Proof. exact quiescent_one_round. Qed.
Print Assumptions C11_quiescent_one_round.

(* Err(RecvError) (a lagging receiver) is never produced, from any state. *)
Theorem C11_no_recv_error :
  forall (s : st) (e : ev), r (snd (step s e)) <> 4.
Proof. exact no_recv_error. Qed.
Print Assumptions C11_no_recv_error.

(* Requests arriving after completion start a fresh call: once the leader's inner call has
   finished and the leader has been polled - whether that poll returns the result or panics - no
   caller leads the key, and the next call() for it leads and calls the inner service itself;
   more generally (C11_free_key_leads) this holds whenever no caller leads the key. *)
Theorem C11_fresh_after_completion :
  forall (b : bool) (evs : list ev) (l k : nat) (o : outcome),
    let s := run_b b evs in
    cs s l = Leading k -> gate s l = Some o ->
    let s1 := step_st s (Poll l) in
    lookup k (reqs s1) = None /\ ~ In l (inflight s1) /\ (forall l', cs s1 l' <> Leading k) /\
    (forall j, cs s1 j = Idle ->
       cs (step_st s1 (Call j k)) j = Leading k /\
       inflight (step_st s1 (Call j k)) = inflight s1 ++ [j]).
Proof. exact fresh_after_completion. Qed.
Print Assumptions C11_fresh_after_completion.

Theorem C11_free_key_leads :
  forall (b : bool) (evs : list ev) (k j : nat),
    let s := run_b b evs in
    (forall l, cs s l <> Leading k) -> cs s j = Idle ->
    let s2 := step_st s (Call j k) in
    cs s2 j = Leading k /\ inflight s2 = inflight s ++ [j] /\ chan s2 j = Open.
Proof. exact free_key_leads. Qed.
Print Assumptions C11_free_key_leads.

(* Cancelling a waiter, at any point, concerns nobody else: map, channels, in-flight set and every
   other caller are unchanged, and the cancelled request never makes an inner call. *)
Theorem C11_waiter_cancel_is_local :
  forall (b : bool) (evs : list ev) (i l : nat),
    let s := run_b b evs in
    cs s i = Waiting l ->
    let s1 := step_st s (Drop i) in
    cs s1 i = Dropped /\ (forall j, j <> i -> cs s1 j = cs s j) /\
    reqs s1 = reqs s /\ chan s1 = chan s /\ inflight s1 = inflight s /\ bomb s1 = bomb s /\
    forall evs2, ~ In i (inflight (fold_left step_st evs2 s1)).
Proof. exact waiter_cancel_is_local. Qed.
Print Assumptions C11_waiter_cancel_is_local.

(* Time: the model of the crate has no timer, so the passage of time is invisible - an Advance
   changes no state and yields no result, and deleting every Advance from an event list leaves
   the reached state (hence every later observation) the same.  "All arrival / completion
   instants" of the property are therefore covered by all event ORDERS; that the code really has no
   timer is what the Advance events of the correspondence run check (a waiter or leader that gave
   up after some time would differ from this model at its next poll). *)
Theorem C11_time_is_irrelevant :
  (forall (s : st) (d : Z), step s (Advance d) = (s, no_obs)) /\
  (forall (b : bool) (evs : list ev),
     run_b b (filter (fun e => negb (is_advance e)) evs) = run_b b evs).
Proof. exact time_is_irrelevant. Qed.
Print Assumptions C11_time_is_irrelevant.

(* What the correspondence check compares is the run of `step`: the k-th row of the trace
   run_script prints for a script is the observation of the k-th event taken from `run` of the
   events before it, with the wake / in-flight / armed masks of the state after it. *)
Theorem C11_trace_is_run :
  forall (sc : list Z) (k : nat) (e : ev),
    let n := callers_of (zn sc 0) in
    let evs := evs_of n (chunk3 (skipn 1 sc)) in
    nth_error evs k = Some e ->
    let s := run (firstn k evs) in
    firstn 5 (skipn (5 * k)%nat (run_script sc)) =
      [r (snd (step s e)); val (snd (step s e)); wake_mask (step_st s e) n;
       flight_mask (step_st s e); bomb_mask (step_st s e) n].
Proof. exact trace_is_run. Qed.
Print Assumptions C11_trace_is_run.
