(* C02 — Rate limiter admits at most limit_for_period calls per window.
   Model: Model/RateLimiter.v (the three window states transcribed, the repaired acquire loop,
   the service's call future at poll granularity; any number of callers on clones of one
   limiter, polls in any order, cancellations, arbitrary clock advances).
   [wins] and [adms] are ghost histories kept by the model: the windows/buckets the limiter has
   opened (start instant, admission instants) and all admission instants, newest first.
   Only statements, `exact`, and Print Assumptions. *)
From TR Require Import Lib.Base Model.RateLimiter Proof.RateLimiter.

(* Fixed window: in every reachable state, consecutive windows start at least refresh_period
   apart, and every window holds at most limit_for_period admissions, all of which happened
   within [start, start + period) — hence before the next window starts. *)
Theorem C02_fixed_windows :
  forall (c : cfg) (evs : list ev),
    wfc c -> wt c = Fixed ->
    Forall (fun s => windows_ok c (lm s)) (states (step_st c) (init c) evs).
Proof. exact fixed_windows. Qed.
Print Assumptions C02_fixed_windows.

(* Sliding counter: the same for its buckets. *)
Theorem C02_sliding_counter_windows :
  forall (c : cfg) (evs : list ev),
    wfc c -> wt c = SlidingCounter ->
    Forall (fun s => windows_ok c (lm s)) (states (step_st c) (init c) evs).
Proof. exact counter_windows. Qed.
Print Assumptions C02_sliding_counter_windows.

(* Sliding log: any limit_for_period + 1 consecutive admissions span at least refresh_period. *)
Theorem C02_sliding_log_spacing :
  forall (c : cfg) (evs : list ev),
    wfc c -> wt c = SlidingLog ->
    Forall (fun s => log_spacing c (adms (lm s))) (states (step_st c) (init c) evs).
Proof. exact log_spacing_reach. Qed.
Print Assumptions C02_sliding_log_spacing.

(* Ok(ZERO) from try_acquire means exactly "a permit was consumed" (the equivalence the
   upstream acquire() got wrong), for all three window types ... *)
Theorem C02_ok_zero_iff_consumed :
  forall (c : cfg) (t : Z) (l : lim),
    wfc c ->
    (snd (try_acquire c t l) = AOk None -> adms (fst (try_acquire c t l)) = t :: adms l) /\
    (snd (try_acquire c t l) <> AOk None -> adms (fst (try_acquire c t l)) = adms l).
Proof. exact ok_zero_iff_consumed. Qed.
Print Assumptions C02_ok_zero_iff_consumed.

(* ... and the ghost history is faithful: whenever a poll starts an inner call (a caller admitted
   immediately or after waiting), that admission is recorded at the current instant. *)
Theorem C02_start_is_admission :
  forall (c : cfg) (s : st) (i : nat),
    wfc c -> started (snd (poll c s i)) = true ->
    adms (lm (fst (poll c s i))) = now s :: adms (lm s).
Proof. exact start_is_admission. Qed.
Print Assumptions C02_start_is_admission.
