(* C02 — Rate limiter admits at most limit_for_period calls per window.
   Model: Model/RateLimiter.v (the three window states transcribed, the repaired acquire loop,
   the service's call future at poll granularity; any number of callers on clones of one
   limiter, polls in any order, cancellations, arbitrary clock advances).
   [wins] and [adms] are ghost histories kept by the model: the windows/buckets the limiter has
   opened (start instant, admission instants) and all admission instants, newest first.
   Only statements, `exact`, and Print Assumptions. *)
From TR Require Import Lib.Base Model.RateLimiter Proof.RateLimiter.

(* Fixed window: in every reachable state, consecutive windows start at least refresh_period
   apart, and every window holds at most limit_for_period admissions, all of which happened
   within [start, start + period) — hence before the next window starts. *)
Theorem C02_fixed_windows :
  forall (c : cfg) (evs : list ev),
    wfc c -> wt c = Fixed ->
    Forall (fun s => windows_ok c (lm s)) (states (step_st c) (init c) evs).
Proof. exact fixed_windows. Qed.
Print Assumptions C02_fixed_windows.

(* Sliding counter: the same for its buckets. *)
Theorem C02_sliding_counter_windows :
  forall (c : cfg) (evs : list ev),
    wfc c -> wt c = SlidingCounter ->
    Forall (fun s => windows_ok c (lm s)) (states (step_st c) (init c) evs).
Proof. exact counter_windows. Qed.
Print Assumptions C02_sliding_counter_windows.

(* Sliding log: any limit_for_period + 1 consecutive admissions span at least refresh_period. *)
Theorem C02_sliding_log_spacing :
  forall (c : cfg) (evs : list ev),
    wfc c -> wt c = SlidingLog ->
    Forall (fun s => log_spacing c (adms (lm s))) (states (step_st c) (init c) evs).
Proof. exact log_spacing_reach. Qed.
Print Assumptions C02_sliding_log_spacing.

(* Ok(ZERO) from try_acquire means exactly "a permit was consumed" (the equivalence the
   upstream acquire() got wrong), for all three window types, for every refresh_period incl.
   Duration::MAX and every creation instant [origin c] of the limiter on the Instant axis: the
   model's Instant is bounded ([instant_max]) and the sliding log's checked_add failing is a
   reachable branch (C02_log_unrepresentable_expiry below; until fix 3a55d77 that branch answered
   ZERO and every call was admitted) ... *)
Theorem C02_ok_zero_iff_consumed :
  forall (c : cfg) (t : Z) (l : lim),
    wfc c ->
    (snd (try_acquire c t l) = AOk None -> adms (fst (try_acquire c t l)) = t :: adms l) /\
    (snd (try_acquire c t l) <> AOk None -> adms (fst (try_acquire c t l)) = adms l).
Proof. exact ok_zero_iff_consumed. Qed.
Print Assumptions C02_ok_zero_iff_consumed.

(* ... and the ghost history is faithful: whenever a poll starts an inner call (a caller admitted
   immediately or after waiting), that admission is recorded at the current instant. *)
Theorem C02_start_is_admission :
  forall (c : cfg) (s : st) (i : nat),
    wfc c -> started (snd (poll c s i)) = true ->
    adms (lm (fst (poll c s i))) = now s :: adms (lm s).
Proof. exact start_is_admission. Qed.
Print Assumptions C02_start_is_admission.

(* The window theorems above are about ALL admissions: in every reachable state of the fixed window and of
   the sliding counter the ghost windows are non-empty, the oldest one starts at the limiter's creation
   (instant 0), and the admission history is exactly the admissions recorded in the windows. *)
Theorem C02_every_admission_in_a_window :
  forall (c : cfg) (evs : list ev),
    wt c <> SlidingLog ->
    Forall (fun s => (exists rest a, wins (lm s) = rest ++ [(0, a)]) /\
                     adms (lm s) = concat (map snd (wins (lm s))))
           (states (step_st c) (init c) evs).
Proof. exact every_admission_in_a_window. Qed.
Print Assumptions C02_every_admission_in_a_window.

(* The property as worded, over the admission history itself (fixed window and sliding counter): in every
   reachable state the window-opening instants (newest first; the oldest is 0) cut time from 0 on into
   consecutive windows [cut, next cut) - the newest one unbounded -, consecutive cuts at least
   refresh_period apart, each window containing at most limit_for_period of all admission instants
   [adms] (count_in s hi a = number of x in a with s <= x < hi), and no admission lies before 0.
   cuts_ok c hi cuts a := for cuts = s :: rest:  s + period c <= hi  /\  count_in s hi a <= limit c
   /\  cuts_ok c (Some s) rest a. *)
Theorem C02_cuttable :
  forall (c : cfg) (evs : list ev),
    wfc c -> wt c <> SlidingLog ->
    Forall (fun s => let cuts := map fst (wins (lm s)) in
                     last cuts 1 = 0 /\ Forall (fun x => 0 <= x) (adms (lm s)) /\
                     cuts_ok c None cuts (adms (lm s)))
           (states (step_st c) (init c) evs).
Proof. exact cuttable_reach. Qed.
Print Assumptions C02_cuttable.

(* Conversely to C02_start_is_admission: a poll that makes the admission history grow starts exactly one
   inner call (so "admission" and "reaches the wrapped service" are the same events). *)
Theorem C02_admission_is_start :
  forall (c : cfg) (s : st) (i : nat),
    wfc c -> adms (lm (fst (poll c s i))) <> adms (lm s) ->
    started (snd (poll c s i)) = true /\ entered (fst (poll c s i)) i = entered s i + 1.
Proof. exact consumed_permit_starts. Qed.
Print Assumptions C02_admission_is_start.

(* Sliding log whose window end cannot be represented as an Instant (refresh_period = Duration::MAX, or
   beyond about 2^63 s from the limiter's creation): a full log never admits - the call is rejected, or,
   only when timeout_duration is Duration::MAX as well, told to wait Duration::MAX; the admission
   history is unchanged (fix 3a55d77). [x :: rest] is the log after pruning, x its oldest entry. *)
Theorem C02_log_unrepresentable_expiry :
  forall (c : cfg) (t : Z) (l : lim) (x : Z) (rest : list Z),
    prune c t (rlog l) = x :: rest -> limit c <= Z.of_nat (length (x :: rest)) ->
    instant_max < origin c + x + period c ->
    snd (log_try c t l) = (if timeout c <? dur_max then AErr else AOk (Some (dur_max, 1))) /\
    adms (fst (log_try c t l)) = adms l.
Proof. exact log_unrepresentable_expiry. Qed.
Print Assumptions C02_log_unrepresentable_expiry.
