(* C13 — Adaptive limiter keeps its limit in bounds and its in-flight count exact.
   Model: Model/Adaptive.v (AimdController / Aimd / Vegas as programs of the atomic-step
   machine of Model/Budget.v; AdaptiveService as an event-driven machine).
   Only statements, `exact`, Print Assumptions. *)
From TR Require Import Lib.Base Model.Budget Model.Adaptive Proof.Adaptive.

(* min <= limit <= max in every reachable state, for every feedback sequence (thread programs
   over record_success / record_failure / record_successes(n) / record_success(latency) /
   limit()), every interleaving of the atomic steps (schedule entries, spurious
   compare_exchange_weak failures included), every decrease function [dec] (the f64
   computation), every smoothing and queue-estimate function of Vegas; also every value a
   limit() call returned is in bounds. *)
Theorem C13_limit_in_bounds :
  (forall (c : acfg) (dec : Z -> Z) (thr initial : Z) (progs : list (list ct_call))
          (sched : list (nat * bool)),
      a_min c <= a_max c -> a_max c <= U64MAX -> 0 <= a_inc c ->
      Forall (fun s => a_min c <= st_mem s LLim <= a_max c
                       /\ Forall (fun r => r_call r = CtLimit -> a_min c <= r_ret r <= a_max c)
                                 (st_log s))
             (states (step (ct_prog c dec thr)) (init_state (ct_mem c initial) progs) sched))
  /\
  (forall (c : vcfg) (smooth : Z -> Z -> Z) (qest : Z -> Z -> Z -> Z) (initial : Z)
          (progs : list (list vg_call)) (sched : list (nat * bool)),
      0 <= v_min c -> v_min c <= v_max c ->
      Forall (fun s => v_min c <= st_mem s LLim <= v_max c
                       /\ Forall (fun r => r_call r = VgLimit -> v_min c <= r_ret r <= v_max c)
                                 (st_log s))
             (states (step (vg_prog c smooth qest)) (init_state (vg_mem c initial) progs) sched)).
Proof. exact limit_in_bounds. Qed.
Print Assumptions C13_limit_in_bounds.

(* the limit seen by the service (Aimd fed on completion) stays in bounds as well *)
Theorem C13_service_limit_in_bounds :
  forall (c : acfg) (dec : Z -> Z) (thr initial : Z) (evs : list sev),
    a_min c <= a_max c -> a_max c <= U64MAX -> 0 <= a_inc c ->
    Forall (fun s => a_min c <= sv_limit s <= a_max c)
           (states (sv_st c dec thr) (sv_init c initial) evs).
Proof. exact service_limit_in_bounds. Qed.
Print Assumptions C13_service_limit_in_bounds.

(* in_flight = number of call futures created and not yet finished / failed / panicked /
   dropped ([sv_live]: one entry per such call), after every history of readiness checks,
   calls (also without a readiness check, also with a panicking inner.call()), polls,
   completions (ok | err | panic), drops, clock advances and inner-readiness changes *)
Theorem C13_inflight_exact :
  forall (c : acfg) (dec : Z -> Z) (thr initial : Z) (evs : list sev),
    a_min c <= a_max c -> a_max c <= U64MAX -> 0 <= a_inc c ->
    Forall (fun s => sv_inflight s = Z.of_nat (length (sv_live s))
                     /\ NoDup (map fst (sv_live s)))
           (states (sv_st c dec thr) (sv_init c initial) evs).
Proof. exact inflight_exact. Qed.
Print Assumptions C13_inflight_exact.

(* the same count read off the history of results: +1 per call future created (code 20),
   -1 per poll that returned Ok (31) / Err (32) / panicked (35), -1 per drop of a live
   future (50), nothing else ([code_delta]) *)
Theorem C13_inflight_history :
  forall (c : acfg) (dec : Z -> Z) (thr initial : Z) (evs : list sev),
    sv_inflight (fst (sv_run c dec thr (sv_init c initial) evs))
    = sumz (map code_delta (snd (sv_run c dec thr (sv_init c initial) evs))).
Proof. exact inflight_history_init. Qed.
Print Assumptions C13_inflight_history.

Theorem C13_zero_when_idle :
  forall (c : acfg) (dec : Z -> Z) (thr initial : Z) (evs : list sev),
    a_min c <= a_max c -> a_max c <= U64MAX -> 0 <= a_inc c ->
    Forall (fun s => sv_live s = [] -> sv_inflight s = 0)
           (states (sv_st c dec thr) (sv_init c initial) evs).
Proof. exact zero_when_idle. Qed.
Print Assumptions C13_zero_when_idle.

(* poll_ready is Ready whenever fewer than limit calls are in flight and the inner service
   is ready (in every reachable state, counted in live call futures; and for any state in
   terms of the counter) *)
Theorem C13_ready_when_below :
  forall (c : acfg) (dec : Z -> Z) (thr initial : Z) (evs : list sev),
    a_min c <= a_max c -> a_max c <= U64MAX -> 0 <= a_inc c ->
    Forall (fun s => Z.of_nat (length (sv_live s)) < sv_limit s -> sv_inner s = 0 ->
                     sv_step c dec thr s EReady = (s, 11))
           (states (sv_st c dec thr) (sv_init c initial) evs).
Proof. exact ready_when_below_live. Qed.
Print Assumptions C13_ready_when_below.

Theorem C13_ready_when_counter_below :
  forall (c : acfg) (dec : Z -> Z) (thr : Z) (s : svc),
    sv_inflight s < sv_limit s -> sv_inner s = 0 ->
    sv_step c dec thr s EReady = (s, 11).
Proof. exact ready_when_below. Qed.
Print Assumptions C13_ready_when_counter_below.

(* a readiness check that sees in_flight >= limit returns Pending (code 13: it wakes itself)
   and changes nothing: that caller is not admitted *)
Theorem C13_pending_when_at_limit :
  forall (c : acfg) (dec : Z -> Z) (thr : Z) (s : svc),
    sv_limit s <= sv_inflight s ->
    sv_step c dec thr s EReady = (s, 13).
Proof. exact pending_when_at_limit. Qed.
Print Assumptions C13_pending_when_at_limit.
