(* C13 — Adaptive limiter keeps its limit in bounds and its in-flight count exact.
   Model: Model/Adaptive.v (AimdController / Aimd / Vegas as programs of the atomic-step
   machine of Model/Budget.v; AdaptiveService as an event-driven machine).
   Only statements, `exact`, Print Assumptions. *)
From TR Require Import Lib.Base Model.Budget Model.Adaptive Proof.Adaptive.

(* min <= limit <= max in every reachable state, for every feedback sequence (thread programs
   over record_success / record_failure / record_successes(n) / record_success(latency) /
   limit() / reset() -- [init0] is the configured initial limit reset() goes back to), every interleaving of the atomic steps (schedule entries, spurious
   compare_exchange_weak failures included), every decrease function [dec] (the f64
   computation), every smoothing and queue-estimate function of Vegas; also every value a
   limit() call returned is in bounds. [a_max c <= U64MAX] / [v_max c <= U64MAX] say that the
   limits are usize values: the model adds with saturation at usize::MAX exactly where the code
   does (AimdController: saturating_add / saturating_mul; Vegas::adjust_limit:
   saturating_add(1) since /repo 96e4b2b), so max = usize::MAX is inside the statement. *)
Theorem C13_limit_in_bounds :
  (forall (c : acfg) (dec : Z -> Z) (thr init0 initial : Z) (progs : list (list ct_call))
          (sched : list (nat * bool)),
      a_min c <= a_max c -> a_max c <= U64MAX -> 0 <= a_inc c ->
      Forall (fun s => a_min c <= st_mem s LLim <= a_max c
                       /\ Forall (fun r => r_call r = CtLimit -> a_min c <= r_ret r <= a_max c)
                                 (st_log s))
             (states (step (ct_prog c dec thr init0)) (init_state (ct_mem c initial) progs) sched))
  /\
  (forall (c : vcfg) (smooth : Z -> Z -> Z) (qest : Z -> Z -> Z -> Z) (initial : Z)
          (progs : list (list vg_call)) (sched : list (nat * bool)),
      0 <= v_min c -> v_min c <= v_max c -> v_max c <= U64MAX ->
      Forall (fun s => v_min c <= st_mem s LLim <= v_max c
                       /\ Forall (fun r => r_call r = VgLimit -> v_min c <= r_ret r <= v_max c)
                                 (st_log s))
             (states (step (vg_prog c smooth qest)) (init_state (vg_mem c initial) progs) sched)).
Proof. exact limit_in_bounds. Qed.
Print Assumptions C13_limit_in_bounds.

(* the limit the service compares in_flight with stays in bounds as well, for both algorithms
   ([aimd_alg]: Aimd fed on completion, a slow success counting as congestion; [vegas_alg]:
   Vegas fed with the measured latency), after every history of service events *)
Theorem C13_service_limit_in_bounds :
  (forall (c : acfg) (dec : Z -> Z) (thr initial : Z) (evs : list sev),
      a_min c <= a_max c -> a_max c <= U64MAX -> 0 <= a_inc c ->
      Forall (fun s => a_min c <= sv_limit s <= a_max c)
             (states (sv_st (aimd_alg c dec thr)) (sv_init (aimd_init c initial)) evs))
  /\
  (forall (c : vcfg) (smooth : Z -> Z -> Z) (qest : Z -> Z -> Z -> Z) (initial : Z)
          (evs : list sev),
      0 <= v_min c -> v_min c <= v_max c -> v_max c <= U64MAX ->
      Forall (fun s => v_min c <= sv_limit s <= v_max c)
             (states (sv_st (vegas_alg c smooth qest)) (sv_init (vegas_init c initial)) evs)).
Proof. exact service_limit_in_bounds. Qed.
Print Assumptions C13_service_limit_in_bounds.

(* The in-flight statements hold for EVERY algorithm [A : alg] (any pair of feedback
   functions: AIMD, Vegas, the Algorithm enum, anything else) and every initial state of it.

   in_flight = number of call futures created and not yet finished / failed / panicked /
   dropped ([sv_live]: one entry per such call), after every history of readiness checks,
   calls (also without a readiness check, also with a panicking inner.call()), polls,
   completions (ok | err | panic), drops, clock advances, inner-readiness changes, feedback
   reaching the shared algorithm from elsewhere, and readiness checks / departures of parked
   callers (clones with their own wakers) *)
Theorem C13_inflight_exact :
  forall (A : alg) (a0 : ast) (evs : list sev),
    Forall (fun s => sv_inflight s = Z.of_nat (length (sv_live s))
                     /\ NoDup (map fst (sv_live s)))
           (states (sv_st A) (sv_init a0) evs).
Proof. exact inflight_exact. Qed.
Print Assumptions C13_inflight_exact.

(* the same at the level of what Model.Adaptive.run_script prints for a service script: every
   (code, in_flight, limit) triple of the trace is read off a reachable state in which
   in_flight is the number of live call futures *)
Theorem C13_trace_inflight_exact :
  forall (A : alg) (a0 : ast) (evs : list sev),
    Forall (fun w => exists s, In s (states (sv_st A) (sv_init a0) evs)
                               /\ snd (fst w) = Z.of_nat (length (sv_live s))
                               /\ snd w = sv_limit s)
           (chunk3 (snd (sv_trace A (sv_init a0) evs))).
Proof. exact trace_inflight_exact. Qed.
Print Assumptions C13_trace_inflight_exact.

(* the same count read off the history of results: +1 per call future created (code 20),
   -1 per poll that returned Ok (31) / Err (32) / panicked (35), -1 per drop of a live
   future (50), nothing else ([code_delta]) *)
Theorem C13_inflight_history :
  forall (A : alg) (a0 : ast) (evs : list sev),
    sv_inflight (fst (sv_run A (sv_init a0) evs))
    = sumz (map code_delta (snd (sv_run A (sv_init a0) evs))).
Proof. exact inflight_history_init. Qed.
Print Assumptions C13_inflight_history.

Theorem C13_zero_when_idle :
  forall (A : alg) (a0 : ast) (evs : list sev),
    Forall (fun s => sv_live s = [] -> sv_inflight s = 0)
           (states (sv_st A) (sv_init a0) evs).
Proof. exact zero_when_idle. Qed.
Print Assumptions C13_zero_when_idle.

(* the end of every service script (all remaining futures dropped, inner service ready, a
   probe caller checks readiness): whatever the history, in_flight is 0 and the probe is
   admitted -- Ready (11) -- unless the limit itself is 0 *)
Theorem C13_script_probe :
  forall (A : alg) (a0 : ast) (evs : list sev),
    exists tr lim,
      sv_script A a0 evs = tr ++ [if lim <=? 0 then 13 else 11; 0; lim]
      /\ tr = snd (sv_trace A (sv_init a0) evs).
Proof. exact script_probe. Qed.
Print Assumptions C13_script_probe.

(* poll_ready is Ready whenever fewer than limit calls are in flight and the inner service
   is ready (in every reachable state, counted in live call futures; and for any state in
   terms of the counter) *)
Theorem C13_ready_when_below :
  forall (A : alg) (a0 : ast) (evs : list sev),
    Forall (fun s => Z.of_nat (length (sv_live s)) < sv_limit s -> sv_inner s = 0 ->
                     sv_step A s EReady = (s, 11))
           (states (sv_st A) (sv_init a0) evs).
Proof. exact ready_when_below_live. Qed.
Print Assumptions C13_ready_when_below.

Theorem C13_ready_when_counter_below :
  forall (A : alg) (s : svc),
    sv_inflight s < sv_limit s -> sv_inner s = 0 ->
    sv_step A s EReady = (s, 11).
Proof. exact ready_when_below. Qed.
Print Assumptions C13_ready_when_counter_below.

(* a readiness check that sees in_flight >= limit returns Pending (code 13: it wakes itself)
   and changes nothing: that caller is not admitted; in every reachable state this is a check
   made with limit (or more) calls in flight *)
Theorem C13_pending_when_at_limit :
  forall (A : alg) (s : svc),
    sv_limit s <= sv_inflight s ->
    sv_step A s EReady = (s, 13).
Proof. exact pending_when_at_limit. Qed.
Print Assumptions C13_pending_when_at_limit.

Theorem C13_pending_when_at_limit_live :
  forall (A : alg) (a0 : ast) (evs : list sev),
    Forall (fun s => sv_limit s <= Z.of_nat (length (sv_live s)) ->
                     sv_step A s EReady = (s, 13))
           (states (sv_st A) (sv_init a0) evs).
Proof. exact pending_when_at_limit_live. Qed.
Print Assumptions C13_pending_when_at_limit_live.

(* "never refuses readiness while fewer than limit calls are in flight" also means that a caller
   parked by a refusal learns when capacity is free. Callers with a waker of their own ([EPark a]:
   a clone of the service polled with caller a's waker): a check made at the limit wakes that
   waker on the spot (the service re-polls instead of queueing), a check below the limit with a
   ready inner service is admitted; and the wake is not lost: it survives every later event
   except a new check by, or the departure of, that caller. For every algorithm and state. *)
Theorem C13_parked_refusal_is_a_wake :
  forall (A : alg) (s : svc) (a : nat),
    let s' := fst (sv_step A s (EPark a)) in
    snd (sv_step A s (EPark a)) = ready_code s
    /\ (sv_limit s <= sv_inflight s -> snd (sv_step A s' (EWoken a)) = 91)
    /\ (sv_inflight s < sv_limit s -> sv_inner s = 0 -> snd (sv_step A s (EPark a)) = 11).
Proof. exact parked_refusal_is_a_wake. Qed.
Print Assumptions C13_parked_refusal_is_a_wake.

Theorem C13_woken_is_stable :
  forall (A : alg) (s : svc) (e : sev) (a : nat),
    e <> EPark a -> e <> EUnpark a ->
    snd (sv_step A s (EWoken a)) = 91 ->
    snd (sv_step A (sv_st A s e) (EWoken a)) = 91.
Proof. exact woken_is_stable. Qed.
Print Assumptions C13_woken_is_stable.

(* the counter under threads (Model.Adaptive part (c): clones of one service on worker
   threads, every access to in_flight / current_limit / the controller's limit one atomic step,
   all interleavings, spurious compare-exchange failures included):
   in_flight = futures created - futures finished, a future counting as created from the
   fetch_add of its call() and as finished from its guard's fetch_sub ([tv_in_progress] is the
   number of calls past their fetch_add minus the number of finishing futures past their
   fetch_sub); at quiescence: completed call()s minus completed finishes. The limit stays in
   bounds under the same interleavings. (Proof.Adaptive.nonatomic_release_refuted: with a
   load;store release the equation fails.) *)
Theorem C13_inflight_exact_threads :
  forall (c : acfg) (dec : Z -> Z) (initial : Z) (progs : list (list tv_call))
         (sched : list (nat * bool)),
    a_min c <= a_max c -> a_max c <= U64MAX -> 0 <= a_inc c ->
    Forall (fun s => st_mem s LInf = tv_created s - tv_finished s + tv_in_progress s
                     /\ (quiescent s -> st_mem s LInf = tv_created s - tv_finished s)
                     /\ a_min c <= st_mem s LLim <= a_max c)
           (states (step (tv_prog c dec)) (init_state (tv_mem c initial) progs) sched).
Proof. exact tv_inflight_exact. Qed.
Print Assumptions C13_inflight_exact_threads.
