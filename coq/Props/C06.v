(* C06 — Time limiter resolves every call by its deadline.
   Model: Model/TimeLimiter.v (poll-granular model of TimeLimiter::call over tokio's
   time::timeout (cancel mode) and spawn + oneshot + biased select! (receiver first) + sleep
   (non-cancel mode)).
   Quantified over every configuration c (mode `cancel c`, timeout `tmo c i` of caller i: any
   function, so fixed and per-request timeouts), every list of events (Call i = build the future,
   Poll i = poll it once, Drop i, Advance d ms, Complete i o = the inner call of caller i
   finishes with o in {ok, err, panic}; never completing = no Complete event) and any number of
   concurrent callers.  `run c evs` is the state after evs; `arrival s i` is the instant of caller
   i's first poll; the deadline is arrival + tmo c i.  Inner panics are outside the property: where a
   statement needs it, the hypothesis `o <> OPanic` / `gate s i <> Some OPanic` says so.
   Only statements, `exact`, and Print Assumptions. *)
From TR Require Import Lib.Base Model.TimeLimiter Proof.TimeLimiter.

(* The deadline is fixed by the FIRST POLL of the call future (not by call()): Call is the
   identity, the first poll records the instant, the record never changes afterwards, and a
   pending call's timer deadline is exactly that instant plus the caller's timeout. *)
Theorem C06_deadline_from_first_poll :
  forall (c : cfg) (evs : list ev) (i : nat),
    let s := run c evs in
    (cs s i = Created -> arrival s i = None /\ inner s i = INone) /\
    (forall a, arrival s i = Some a -> a <= now s /\ cs s i <> Created) /\
    (forall dl, cs s i = Active dl -> exists a, arrival s i = Some a /\ dl = a + tmo c i) /\
    (cs s i = Created -> arrival (step_st c s (Poll i)) i = Some (now s)) /\
    (forall e a, arrival s i = Some a -> arrival (step_st c s e) i = Some a) /\
    (forall j, step_st c s (Call j) = s).
Proof. exact deadline_from_first_poll. Qed.
Print Assumptions C06_deadline_from_first_poll.

(* No poll, in any reachable state, answers Timeout before the caller's deadline. *)
Theorem C06_no_timeout_before_deadline :
  forall (c : cfg) (evs : list ev) (i : nat),
    let s := run c evs in
    r (snd (step c s (Poll i))) = 3 -> gate s i <> Some OPanic ->
    exists a, arrival (step_st c s (Poll i)) i = Some a /\ a + tmo c i <= now s.
Proof. exact no_timeout_before_deadline. Qed.
Print Assumptions C06_no_timeout_before_deadline.

(* Inner call finished before the deadline: the completion wakes the pending caller at once, and
   the first poll at/after the completion - whatever happens in between to this or other callers,
   short of polling or dropping this one - returns the inner outcome (ok or error, carrying this
   caller's own value), in both modes and however late that poll happens (the inner future /
   the result channel is polled before the timer). *)
Theorem C06_result_if_before :
  forall (c : cfg) (evs1 : list ev) (i : nat) (o : outcome) (evs2 : list ev) (dl : Z),
    let s1 := run c evs1 in
    cs s1 i = Active dl -> gate s1 i = None -> o <> OPanic ->
    (forall e, In e evs2 -> e <> Drop i /\ e <> Poll i) ->
    let s2 := run c (evs1 ++ Complete i o :: evs2) in
    woken (step_st c s1 (Complete i o)) i = true /\
    snd (step c s2 (Poll i)) = result i o /\
    cs (step_st c s2 (Poll i)) i = Done /\ inner (step_st c s2 (Poll i)) i = IFinished o.
Proof. exact result_if_before. Qed.
Print Assumptions C06_result_if_before.

(* The same for a state reached in any way: a pending call whose inner call has completed resolves
   with the inner outcome at its next poll, before, at or after the deadline (cancel mode: also
   at the first poll; non-cancel mode: the first poll cannot see the result, the spawned task has
   not run yet). *)
Theorem C06_result_at_poll :
  forall (c : cfg) (evs : list ev) (i : nat) (o : outcome),
    let s := run c evs in
    gate s i = Some o -> o <> OPanic ->
    (cancel c = true /\ (cs s i = Created \/ exists dl, cs s i = Active dl)) \/
    (cancel c = false /\ exists dl, cs s i = Active dl) ->
    snd (step c s (Poll i)) = result i o /\
    cs (step_st c s (Poll i)) i = Done /\ inner (step_st c s (Poll i)) i = IFinished o.
Proof. exact result_now. Qed.
Print Assumptions C06_result_at_poll.

(* Inner call unfinished at the deadline: the timer wakes the caller when the clock reaches the
   deadline, and every poll at/after the deadline with the inner call still unfinished returns
   Timeout - whatever happened in between, short of polling/dropping this caller or completing
   its inner call. *)
Theorem C06_timeout_if_after :
  forall (c : cfg) (evs1 : list ev) (i : nat) (evs2 : list ev) (dl : Z),
    let s1 := run c evs1 in
    cs s1 i = Active dl -> gate s1 i = None ->
    (forall e, In e evs2 -> e <> Drop i /\ e <> Poll i /\ forall o, e <> Complete i o) ->
    let s2 := run c (evs1 ++ evs2) in
    dl <= now s2 ->
    snd (step c s2 (Poll i)) = timed_out /\ cs (step_st c s2 (Poll i)) i = Done.
Proof. exact timeout_if_after. Qed.
Print Assumptions C06_timeout_if_after.

Theorem C06_timer_wakes_at_deadline :
  forall (c : cfg) (evs : list ev) (i : nat) (dl d : Z),
    let s := run c evs in
    cs s i = Active dl -> now s < dl -> dl <= now s + d ->
    woken (step_st c s (Advance d)) i = true /\ cs (step_st c s (Advance d)) i = Active dl.
Proof. exact timer_wakes. Qed.
Print Assumptions C06_timer_wakes_at_deadline.

(* Timeout at any poll at/after the deadline with the inner call unfinished (also a zero timeout
   at the first poll); Pending before the deadline with the inner call unfinished. *)
Theorem C06_timeout_at_poll :
  forall (c : cfg) (evs : list ev) (i : nat),
    let s := run c evs in
    gate s i = None ->
    (exists dl, cs s i = Active dl /\ dl <= now s) \/ (cs s i = Created /\ tmo c i <= 0) ->
    snd (step c s (Poll i)) = timed_out /\ cs (step_st c s (Poll i)) i = Done.
Proof. exact timeout_now. Qed.
Print Assumptions C06_timeout_at_poll.

Theorem C06_pending_before_deadline :
  forall (c : cfg) (evs : list ev) (i : nat),
    let s := run c evs in
    gate s i = None ->
    (exists dl, cs s i = Active dl /\ now s < dl) \/ (cs s i = Created /\ 0 < tmo c i) ->
    snd (step c s (Poll i)) = pending /\
    exists dl, cs (step_st c s (Poll i)) i = Active dl /\ now s < dl.
Proof. exact pending_now. Qed.
Print Assumptions C06_pending_before_deadline.

(* A poll that finds both the inner result and the elapsed timer (in particular the exact tie
   t_inner = deadline, and a late poll of a call whose result was ready in time): the inner
   outcome wins, in both modes. *)
Theorem C06_tie_result_wins :
  forall (c : cfg) (evs : list ev) (i : nat) (o : outcome) (dl : Z),
    let s := run c evs in
    cs s i = Active dl -> gate s i = Some o -> o <> OPanic -> dl <= now s ->
    snd (step c s (Poll i)) = result i o /\
    cs (step_st c s (Poll i)) i = Done.
Proof. exact tie_either. Qed.
Print Assumptions C06_tie_result_wins.

(* Cancel mode: the inner future exists exactly while the call is pending; the poll that returns
   Timeout drops it (at/after the deadline), and so does cancelling the call. *)
Theorem C06_cancel_drops_at_deadline :
  forall (c : cfg) (evs : list ev) (i : nat),
    let s := run c evs in
    cancel c = true ->
    (inner s i = IRunning <-> exists dl, cs s i = Active dl) /\
    (r (snd (step c s (Poll i))) = 3 ->
       inner (step_st c s (Poll i)) i = IDropped /\ cs (step_st c s (Poll i)) i = Done /\
       exists a, arrival (step_st c s (Poll i)) i = Some a /\ a + tmo c i <= now s) /\
    ((exists dl, cs s i = Active dl) -> inner (step_st c s (Drop i)) i = IDropped).
Proof. exact cancel_drops. Qed.
Print Assumptions C06_cancel_drops_at_deadline.

(* Non-cancel mode: the first poll starts the inner call; from then on no event other than its own
   completion changes it - not a Timeout, not dropping the call future: the limiter never drops it
   (a dropped inner call can only be one that panicked); a later completion still runs it to the
   end; and a finished inner call stays finished. *)
Theorem C06_nocancel_runs_on :
  forall (c : cfg) (evs : list ev) (i : nat),
    let s := run c evs in
    cancel c = false ->
    (cs s i = Created -> inner (step_st c s (Poll i)) i <> INone) /\
    (inner s i = IDropped -> gate s i = Some OPanic) /\
    (forall e, inner s i = IRunning ->
       inner (step_st c s e) i = IRunning \/ exists o, e = Complete i o) /\
    (forall o, inner s i = IRunning ->
       inner (step_st c s (Complete i o)) i = match o with OPanic => IDropped | _ => IFinished o end) /\
    (forall e o, inner s i = IFinished o -> inner (step_st c s e) i = IFinished o).
Proof. exact nocancel_runs_on. Qed.
Print Assumptions C06_nocancel_runs_on.

(* Concurrent calls are independent: the clock, everything about caller i, and the answer of its
   next poll are the same as in the run from which all events of other callers are erased. *)
Theorem C06_calls_independent :
  forall (c : cfg) (evs : list ev) (i : nat),
    let s := run c evs in let s' := run c (filter (concerns i) evs) in
    now s = now s' /\ callers s i = callers s' i /\
    snd (step c s (Poll i)) = snd (step c s' (Poll i)).
Proof. exact calls_independent. Qed.
Print Assumptions C06_calls_independent.
