(* C06 — Time limiter resolves every call by its deadline.
   Model: Model/TimeLimiter.v (poll-granular model of TimeLimiter::call over tokio's
   time::timeout (cancel mode) and spawn + oneshot + biased select! (receiver first) + sleep
   (non-cancel mode)).
   Quantified over every configuration c (mode `cancel c`, timeout `tmo c i` of caller i: any
   function, so fixed and per-request timeouts; `gran c` = length of a timer tick in time units: 1
   when the unit is the millisecond, 1000 when it is the microsecond), every list of events (Call i =
   build the future, Poll i = poll it once, Drop i, Advance d, Complete i o = the inner call of
   caller i finishes with o in {ok, err, panic}; never completing = no Complete event) and any number
   of concurrent callers.  `run c evs` is the state after evs; `arrival s i` is the instant of caller
   i's first poll; `deadline c i a` is the instant the timer of a call first polled at a fires: the
   first timer tick at or after a + tmo c i (= a + tmo c i in the millisecond unit).  Inner panics
   are outside the property: where a statement needs it, the hypothesis `o <> OPanic` /
   `gate s i <> Some OPanic` says so.
   Schedules: `polled_when_woken c i evs` - every event that leaves caller i's wake flag up is
   followed, if by anything, by Poll i; `prompt` - that, and no wake-up is outstanding at the end;
   `punctual c i evs` - no Advance jumps over the deadline of caller i (Proof/TimeLimiter.v).
   The trace printed by run_script is, entry by entry, the observation of `step` on `run`
   (C06_trace_is_run), so the statements below are statements about what the driver compares.
   Only statements, `exact`, and Print Assumptions. *)
From TR Require Import Lib.Base Model.TimeLimiter Proof.TimeLimiter.

(* The deadline is fixed by the FIRST POLL of the call future (not by call()): Call is the
   identity, the first poll records the instant, the record never changes afterwards, and a
   pending call's timer deadline is exactly `deadline` of that instant. *)
Theorem C06_deadline_from_first_poll :
  forall (c : cfg) (evs : list ev) (i : nat),
    let s := run c evs in
    (cs s i = Created -> arrival s i = None /\ inner s i = INone) /\
    (forall a, arrival s i = Some a -> a <= now s /\ cs s i <> Created) /\
    (forall dl, cs s i = Active dl -> exists a, arrival s i = Some a /\ dl = deadline c i a) /\
    (cs s i = Created -> arrival (step_st c s (Poll i)) i = Some (now s)) /\
    (forall e a, arrival s i = Some a -> arrival (step_st c s e) i = Some a) /\
    (forall j, step_st c s (Call j) = s).
Proof. exact deadline_from_first_poll. Qed.
Print Assumptions C06_deadline_from_first_poll.

(* The timer deadline is the caller's timeout counted from the first poll, rounded up to the timer
   resolution: never before first poll + timeout, less than one tick after it, equal to it in the
   millisecond unit; monotone in the instant of the first poll. *)
Theorem C06_deadline_is_timer_tick :
  forall (c : cfg) (i : nat) (a : Z),
    a + tmo c i <= deadline c i a /\ deadline c i a < a + tmo c i + Z.max 1 (gran c) /\
    (gran c <= 1 -> deadline c i a = a + tmo c i) /\
    (forall b, a <= b -> deadline c i a <= deadline c i b).
Proof. exact deadline_bounds. Qed.
Print Assumptions C06_deadline_is_timer_tick.

(* No poll, in any reachable state, answers Timeout before the caller's deadline. *)
Theorem C06_no_timeout_before_deadline :
  forall (c : cfg) (evs : list ev) (i : nat),
    let s := run c evs in
    r (snd (step c s (Poll i))) = 3 -> gate s i <> Some OPanic ->
    exists a, arrival (step_st c s (Poll i)) i = Some a /\
      a + tmo c i <= deadline c i a /\ deadline c i a <= now s.
Proof. exact no_timeout_before_timer. Qed.
Print Assumptions C06_no_timeout_before_deadline.

(* Inner call finished before the deadline: the completion wakes the pending caller at once, and
   the first poll at/after the completion - whatever happens in between to this or other callers,
   short of polling or dropping this one - returns the inner outcome (ok or error, carrying this
   caller's own value), in both modes and however late that poll happens (the inner future /
   the result channel is polled before the timer). *)
Theorem C06_result_if_before :
  forall (c : cfg) (evs1 : list ev) (i : nat) (o : outcome) (evs2 : list ev) (dl : Z),
    let s1 := run c evs1 in
    cs s1 i = Active dl -> gate s1 i = None -> o <> OPanic ->
    (forall e, In e evs2 -> e <> Drop i /\ e <> Poll i) ->
    let s2 := run c (evs1 ++ Complete i o :: evs2) in
    woken (step_st c s1 (Complete i o)) i = true /\
    snd (step c s2 (Poll i)) = result i o /\
    cs (step_st c s2 (Poll i)) i = Done /\ inner (step_st c s2 (Poll i)) i = IFinished o.
Proof. exact result_if_before. Qed.
Print Assumptions C06_result_if_before.

(* The same for a state reached in any way: a pending call whose inner call has completed resolves
   with the inner outcome at its next poll, before, at or after the deadline (cancel mode: also
   at the first poll; non-cancel mode: the first poll cannot see the result, the spawned task has
   not run yet - it leaves the caller woken, C06_overdue_or_ready_is_woken). *)
Theorem C06_result_at_poll :
  forall (c : cfg) (evs : list ev) (i : nat) (o : outcome),
    let s := run c evs in
    gate s i = Some o -> o <> OPanic ->
    (cancel c = true /\ (cs s i = Created \/ exists dl, cs s i = Active dl)) \/
    (cancel c = false /\ exists dl, cs s i = Active dl) ->
    snd (step c s (Poll i)) = result i o /\
    cs (step_st c s (Poll i)) i = Done /\ inner (step_st c s (Poll i)) i = IFinished o.
Proof. exact result_now. Qed.
Print Assumptions C06_result_at_poll.

(* Inner call unfinished at the deadline: the timer wakes the caller when the clock reaches the
   deadline, and every poll at/after the deadline with the inner call still unfinished returns
   Timeout - whatever happened in between, short of polling/dropping this caller or completing
   its inner call. *)
Theorem C06_timeout_if_after :
  forall (c : cfg) (evs1 : list ev) (i : nat) (evs2 : list ev) (dl : Z),
    let s1 := run c evs1 in
    cs s1 i = Active dl -> gate s1 i = None ->
    (forall e, In e evs2 -> e <> Drop i /\ e <> Poll i /\ forall o, e <> Complete i o) ->
    let s2 := run c (evs1 ++ evs2) in
    dl <= now s2 ->
    snd (step c s2 (Poll i)) = timed_out /\ cs (step_st c s2 (Poll i)) i = Done.
Proof. exact timeout_if_after. Qed.
Print Assumptions C06_timeout_if_after.

(* The same two statements over ANY schedule (polls of this caller allowed in between).
   Inner call not completing: every poll before the deadline leaves the call pending, the first
   poll at/after the deadline answers Timeout, and nothing else ever resolves the call. *)
Theorem C06_timeout_any_schedule :
  forall (c : cfg) (i : nat) (dl : Z) (evs2 evs1 : list ev),
    cs (run c evs1) i = Active dl -> gate (run c evs1) i = None ->
    (forall e, In e evs2 -> e <> Drop i /\ forall o, e <> Complete i o) ->
    let s2 := run c (evs1 ++ evs2) in
    (cs s2 i = Active dl /\ gate s2 i = None) \/
    (exists p q, evs2 = p ++ Poll i :: q /\ dl <= now (run c (evs1 ++ p)) /\
       snd (step c (run c (evs1 ++ p)) (Poll i)) = timed_out /\ cs s2 i = Done).
Proof. exact timeout_any_schedule. Qed.
Print Assumptions C06_timeout_any_schedule.

(* Inner call completed with ok / error while the call is pending: the call keeps the result until
   its next poll, which returns it, however late; no schedule turns it into a Timeout. *)
Theorem C06_result_any_schedule :
  forall (c : cfg) (i : nat) (dl : Z) (o : outcome) (evs2 evs1 : list ev),
    cs (run c evs1) i = Active dl -> gate (run c evs1) i = Some o -> o <> OPanic ->
    (forall e, In e evs2 -> e <> Drop i) ->
    let s2 := run c (evs1 ++ evs2) in
    (cs s2 i = Active dl /\ gate s2 i = Some o /\ ~ In (Poll i) evs2) \/
    (exists p q, evs2 = p ++ Poll i :: q /\ ~ In (Poll i) p /\
       snd (step c (run c (evs1 ++ p)) (Poll i)) = result i o /\ cs s2 i = Done).
Proof. exact result_any_schedule. Qed.
Print Assumptions C06_result_any_schedule.

Theorem C06_timer_wakes_at_deadline :
  forall (c : cfg) (evs : list ev) (i : nat) (dl d : Z),
    let s := run c evs in
    cs s i = Active dl -> now s < dl -> dl <= now s + d ->
    woken (step_st c s (Advance d)) i = true /\ cs (step_st c s (Advance d)) i = Active dl.
Proof. exact timer_wakes. Qed.
Print Assumptions C06_timer_wakes_at_deadline.

(* Timeout at any poll at/after the deadline with the inner call unfinished (also at the first poll
   when the timer deadline is already reached: a zero timeout on a timer tick); Pending before the
   deadline with the inner call unfinished. *)
Theorem C06_timeout_at_poll :
  forall (c : cfg) (evs : list ev) (i : nat),
    let s := run c evs in
    gate s i = None ->
    (exists dl, cs s i = Active dl /\ dl <= now s) \/
    (cs s i = Created /\ deadline c i (now s) <= now s) ->
    snd (step c s (Poll i)) = timed_out /\ cs (step_st c s (Poll i)) i = Done.
Proof. exact timeout_now. Qed.
Print Assumptions C06_timeout_at_poll.

Theorem C06_pending_before_deadline :
  forall (c : cfg) (evs : list ev) (i : nat),
    let s := run c evs in
    gate s i = None ->
    (exists dl, cs s i = Active dl /\ now s < dl) \/
    (cs s i = Created /\ now s < deadline c i (now s)) ->
    snd (step c s (Poll i)) = pending /\
    exists dl, cs (step_st c s (Poll i)) i = Active dl /\ now s < dl.
Proof. exact pending_now. Qed.
Print Assumptions C06_pending_before_deadline.

(* A poll that finds both the inner result and the elapsed timer (the exact tie t_inner = deadline,
   a late poll of a call whose result was ready in time, and also a late poll of a call whose
   inner call finished after the deadline): the inner outcome wins, in both modes.  This is what
   the code does; for the tie and for a completion after the deadline it is more than the property
   asks (it leaves the tie open and wants Timeout for the latter, which a prompt schedule delivers:
   C06_timeout_exactly_at_deadline) - the monitor accepts either answer there. *)
Theorem C06_tie_result_wins :
  forall (c : cfg) (evs : list ev) (i : nat) (o : outcome) (dl : Z),
    let s := run c evs in
    cs s i = Active dl -> gate s i = Some o -> o <> OPanic -> dl <= now s ->
    snd (step c s (Poll i)) = result i o /\
    cs (step_st c s (Poll i)) i = Done.
Proof. exact tie_either. Qed.
Print Assumptions C06_tie_result_wins.

(* ---- "by the deadline": the composite statements ---- *)

(* In every reachable state a pending call that is overdue, or whose inner call has completed (with
   any outcome), has a wake-up outstanding: the flag set by the timer / by the completion survives
   every event except this caller's own poll or drop. *)
Theorem C06_overdue_or_ready_is_woken :
  forall (c : cfg) (evs : list ev) (i : nat) (dl : Z),
    let s := run c evs in
    cs s i = Active dl -> (dl <= now s \/ gate s i <> None) -> woken s i = true.
Proof. exact overdue_or_ready_is_woken. Qed.
Print Assumptions C06_overdue_or_ready_is_woken.

(* Any schedule: once the deadline of a call that was polled at least once and not cancelled has
   been reached, or its inner call has completed, the call is resolved or its caller has been told
   to poll it. *)
Theorem C06_resolved_or_woken_by_deadline :
  forall (c : cfg) (evs : list ev) (i : nat) (a : Z),
    let s := run c evs in
    arrival s i = Some a -> ~ In (Drop i) evs ->
    (deadline c i a <= now s \/ gate s i <> None) ->
    cs s i = Done \/ (cs s i = Active (deadline c i a) /\ woken s i = true).
Proof. exact resolved_or_woken. Qed.
Print Assumptions C06_resolved_or_woken_by_deadline.

(* The next poll resolves: whatever the schedule was, once the deadline of a polled, un-cancelled call has
   been reached or its inner call has completed (any outcome), the next poll of that call resolves
   it - with the inner outcome if the inner call has completed with ok / error, else, the deadline
   having been reached, with Timeout. *)
Theorem C06_next_poll_resolves :
  forall (c : cfg) (evs : list ev) (i : nat) (a : Z),
    let s := run c evs in
    arrival s i = Some a -> ~ In (Drop i) evs ->
    (deadline c i a <= now s \/ gate s i <> None) ->
    cs (step_st c s (Poll i)) i = Done.
Proof. exact next_poll_resolves. Qed.
Print Assumptions C06_next_poll_resolves.

Theorem C06_next_poll_answer :
  forall (c : cfg) (evs : list ev) (i : nat) (a : Z),
    let s := run c evs in
    arrival s i = Some a -> ~ In (Drop i) evs -> cs s i <> Done ->
    (forall o, gate s i = Some o -> o <> OPanic -> snd (step c s (Poll i)) = result i o) /\
    (gate s i = None -> deadline c i a <= now s -> snd (step c s (Poll i)) = timed_out).
Proof. exact next_poll_answer. Qed.
Print Assumptions C06_next_poll_answer.

(* The composite for a caller that follows the discipline "poll when woken" (this is where
   polled_when_woken is used): at any point of such a run where the call is due or its inner call has
   completed, either the call is resolved already or the very next event is its poll, which resolves
   it at the same instant. *)
Theorem C06_polled_when_woken_resolves :
  forall (c : cfg) (i : nat) (evs : list ev) (e : ev) (rest : list ev) (a : Z),
    let s := run c evs in
    polled_when_woken c i (evs ++ e :: rest) ->
    arrival s i = Some a -> ~ In (Drop i) evs ->
    (deadline c i a <= now s \/ gate s i <> None) ->
    cs s i = Done \/
    (e = Poll i /\ cs (run c (evs ++ [e])) i = Done /\ now (run c (evs ++ [e])) = now s).
Proof. exact polled_when_woken_resolves. Qed.
Print Assumptions C06_polled_when_woken_resolves.

(* End-of-run form (uses only the second half of `prompt`: no wake-up outstanding at the end of the
   run; it is the contrapositive of C06_overdue_or_ready_is_woken for an un-cancelled call): a run
   that ends with nothing left to do for caller i has its call resolved if it is due or ready. *)
Theorem C06_by_deadline :
  forall (c : cfg) (evs : list ev) (i : nat) (a : Z),
    let s := run c evs in
    prompt c i evs -> arrival s i = Some a -> ~ In (Drop i) evs ->
    (deadline c i a <= now s \/ gate s i <> None) -> cs s i = Done.
Proof. exact by_deadline. Qed.
Print Assumptions C06_by_deadline.

(* Conversely a call that is pending with no wake-up outstanding is before its deadline and its
   inner call has not completed. *)
Theorem C06_pending_is_justified :
  forall (c : cfg) (evs : list ev) (i : nat) (dl : Z),
    let s := run c evs in
    cs s i = Active dl -> woken s i = false -> now s < dl /\ gate s i = None.
Proof. exact pending_is_justified. Qed.
Print Assumptions C06_pending_is_justified.

(* Prompt polling and a clock that stops at the deadline: a pending call is never past its
   deadline, so a Timeout answer comes exactly AT the deadline (or at the first poll when the
   deadline is not after it: zero timeout), and only if the inner call had not finished by then. *)
Theorem C06_pending_not_overdue :
  forall (c : cfg) (i : nat) (evs : list ev),
    polled_when_woken c i evs -> punctual c i evs ->
    forall dl, cs (run c evs) i = Active dl -> now (run c evs) <= dl.
Proof. exact pending_not_overdue. Qed.
Print Assumptions C06_pending_not_overdue.

Theorem C06_timeout_exactly_at_deadline :
  forall (c : cfg) (evs : list ev) (i : nat),
    let s := run c evs in
    polled_when_woken c i evs -> punctual c i evs ->
    r (snd (step c s (Poll i))) = 3 -> gate s i <> Some OPanic ->
    exists a, arrival (step_st c s (Poll i)) i = Some a /\
      now s = Z.max a (deadline c i a) /\
      (forall o, inner s i <> IFinished o) /\ (cs s i <> Created -> gate s i = None).
Proof. exact timeout_exactly_at_deadline. Qed.
Print Assumptions C06_timeout_exactly_at_deadline.

(* Prompt polling: the inner result is returned by the poll that immediately follows the completion
   event (no time passes in between), or - inner call completed before the future was first
   polled - by the first poll (cancel mode) / the poll right after the first poll (non-cancel mode). *)
Theorem C06_result_at_once :
  forall (c : cfg) (evs : list ev) (i : nat),
    let s := run c evs in
    polled_when_woken c i (evs ++ [Poll i]) ->
    (r (snd (step c s (Poll i))) = 1 \/ r (snd (step c s (Poll i))) = 2) ->
    cs s i = Created \/
    (exists evs' o, evs = evs' ++ [Complete i o] /\ gate (run c evs') i = None /\
                    now (run c evs') = now s) \/
    (exists evs', evs = evs' ++ [Poll i] /\ cs (run c evs') i = Created /\ now (run c evs') = now s).
Proof. exact result_at_once. Qed.
Print Assumptions C06_result_at_once.

(* Cancel mode: the inner future exists exactly while the call is pending; the poll that returns
   Timeout drops it (at/after the deadline), and so does cancelling the call. *)
Theorem C06_cancel_drops_at_deadline :
  forall (c : cfg) (evs : list ev) (i : nat),
    let s := run c evs in
    cancel c = true ->
    (inner s i = IRunning <-> exists dl, cs s i = Active dl) /\
    (r (snd (step c s (Poll i))) = 3 ->
       inner (step_st c s (Poll i)) i = IDropped /\ cs (step_st c s (Poll i)) i = Done /\
       exists a, arrival (step_st c s (Poll i)) i = Some a /\ a + tmo c i <= now s) /\
    ((exists dl, cs s i = Active dl) -> inner (step_st c s (Drop i)) i = IDropped).
Proof. exact cancel_drops. Qed.
Print Assumptions C06_cancel_drops_at_deadline.

(* Cancel mode, "dropped AT the deadline": an inner call that is alive belongs to a pending call; with
   no wake-up outstanding it is strictly before its deadline (any schedule); under a prompt, punctual
   schedule no inner call is alive after its deadline. *)
Theorem C06_cancel_no_inner_after_deadline :
  forall (c : cfg) (evs : list ev) (i : nat),
    let s := run c evs in
    cancel c = true -> inner s i = IRunning ->
    exists a, arrival s i = Some a /\ cs s i = Active (deadline c i a) /\
      (woken s i = false -> now s < deadline c i a) /\
      (polled_when_woken c i evs -> punctual c i evs -> now s <= deadline c i a).
Proof. exact cancel_no_inner_after_deadline. Qed.
Print Assumptions C06_cancel_no_inner_after_deadline.

(* Non-cancel mode: the first poll starts the inner call; from then on no event other than its own
   completion changes it - not a Timeout, not dropping the call future: the limiter never drops it
   (a dropped inner call can only be one that panicked); a later completion still runs it to the
   end; and a finished inner call stays finished. *)
Theorem C06_nocancel_runs_on :
  forall (c : cfg) (evs : list ev) (i : nat),
    let s := run c evs in
    cancel c = false ->
    (cs s i = Created -> inner (step_st c s (Poll i)) i <> INone) /\
    (inner s i = IDropped -> gate s i = Some OPanic) /\
    (forall e, inner s i = IRunning ->
       inner (step_st c s e) i = IRunning \/ exists o, e = Complete i o) /\
    (forall o, inner s i = IRunning ->
       inner (step_st c s (Complete i o)) i = match o with OPanic => IDropped | _ => IFinished o end) /\
    (forall e o, inner s i = IFinished o -> inner (step_st c s e) i = IFinished o).
Proof. exact nocancel_runs_on. Qed.
Print Assumptions C06_nocancel_runs_on.

(* Concurrent calls are independent: the clock, everything about caller i, and the answer of its
   next poll are the same as in the run from which all events of other callers are erased. *)
Theorem C06_calls_independent :
  forall (c : cfg) (evs : list ev) (i : nat),
    let s := run c evs in let s' := run c (filter (concerns i) evs) in
    now s = now s' /\ callers s i = callers s' i /\
    snd (step c s (Poll i)) = snd (step c s' (Poll i)).
Proof. exact calls_independent. Qed.
Print Assumptions C06_calls_independent.

(* What the driver compares: the k-th group of four numbers in the trace of a script is the
   observation of `step` in the state `run` reaches after the first k events, followed by the wake
   mask and the inner-call states of the state after the event. *)
Theorem C06_trace_is_run :
  forall (sc : list Z) (pre : list ev) (e : ev) (rest : list ev),
    let c := cfg_of sc in let s := run c pre in
    events_of sc = pre ++ e :: rest ->
    firstn 4 (skipn (4 * length pre) (run_script sc)) =
    [r (snd (step c s e)); val (snd (step c s e));
     wake_mask (run c (pre ++ [e])) (callers_of sc); inner_vec (run c (pre ++ [e])) (callers_of sc)].
Proof. exact script_trace_is_run. Qed.
Print Assumptions C06_trace_is_run.
