(* C05 — Retry makes a bounded number of attempts and returns the last outcome.
   Model: Model/Retry.v (time in nanoseconds; the tokio timer fires at the first whole
   millisecond at or after a deadline, [ceil_ms]; every poll of a call future has a
   cooperative budget, Lib/TokioTime.v).  Two layers share the transcription of the loop
   body of Retry::call ([after_outcome]):
   * [step c inps pf cp]: the call futures of any number of requests sharing one token
     bucket, at poll granularity (Poll i / Advance d / Complete i / MakeReady i), for ALL
     event lists = all interleavings and all polling schedules, all micro-step bounds [pf]
     and all cooperative budgets [cp] per poll.  This is the layer the correspondence check
     runs against the real RetryLayer (run_script = step with pf = poll_fuel, cp = COOP = 128).
   * [retry_run c hb max inner ready grant t0]: one request as a function of
       inner a = (time until the result of attempt a is observed, Ok v | Fail e)
       ready a = (extra wait before attempt a >= 1 beyond the end of the backoff sleep — 0
                  when polled promptly and the service is ready —, readiness error if any)
       grant a = the budget's answer to the withdrawal asked after attempt a failed
     for ALL such streams, all predicates (c.(pred) : option (Err -> bool)), all backoff
     functions (c.(backoff) : nat -> Z, ns), all max (incl. 0; per-request values are just
     different [max]), budget configured or not ([hb]).
   [C05_step_refines_run] ties the layers: whatever the step machine did for a request that
   has returned is a run of [retry_run] on streams read off its log, so theorems 1-6 speak
   about what run_script executes.
   Only statements, `exact`, and Print Assumptions. *)
From TR Require Import Lib.Base Lib.TokioTime Model.Retry Proof.Retry.

(* 1 <= number of inner calls <= max 1 max_attempts *)
Theorem C05_attempt_bounds :
  forall (Res Err : Type) (c : cfg Err) (hb : bool) (max : nat)
         (inner : nat -> Z * outcome Res Err) (ready : nat -> Z * option Err)
         (grant : nat -> bool) (t0 : Z),
    (1 <= length (calls (retry_run c hb max inner ready grant t0)) <= Nat.max 1 max)%nat.
Proof. exact @attempt_bounds. Qed.
Print Assumptions C05_attempt_bounds.

(* attempts are numbered 0..n-1 and see the stream's outcomes; every attempt before the
   last failed with an error the predicate accepts, below max_attempts, was granted a
   withdrawal (if a budget is configured) and found the service ready; the last attempt
   is characterised according to the reason the loop stopped:
   first success / first refused error / attempt number max / first denied withdrawal /
   readiness error before the next attempt. *)
Theorem C05_stops_at_first :
  forall (Res Err : Type) (c : cfg Err) (hb : bool) (max : nat)
         (inner : nat -> Z * outcome Res Err) (ready : nat -> Z * option Err)
         (grant : nat -> bool) (t0 : Z),
    let r := retry_run c hb max inner ready grant t0 in
    let n := length (calls r) in
    map (@c_idx Res Err) (calls r) = seq 0 n /\
    (forall cl, In cl (calls r) -> c_out cl = snd (inner (c_idx cl))) /\
    (forall k, (k < n - 1)%nat ->
       exists e, snd (inner k) = Fail e /\ should_retry c e = true /\ (S k < max)%nat /\
                 (hb = true -> grant k = true) /\ snd (ready (S k)) = None) /\
    match reason r with
    | WOk => exists v, snd (inner (n - 1)%nat) = Ok v /\ result r = inl v
    | WRefused => exists e, snd (inner (n - 1)%nat) = Fail e /\ should_retry c e = false /\
                            result r = inr e
    | WMax => exists e, snd (inner (n - 1)%nat) = Fail e /\ should_retry c e = true /\
                        (max <= S (n - 1))%nat /\ result r = inr e
    | WDenied => exists e, snd (inner (n - 1)%nat) = Fail e /\ should_retry c e = true /\
                           (S (n - 1) < max)%nat /\ hb = true /\ grant (n - 1)%nat = false /\
                           result r = inr e
    | WNotReady => exists e e', snd (inner (n - 1)%nat) = Fail e /\ should_retry c e = true /\
                           (S (n - 1) < max)%nat /\ (hb = true -> grant (n - 1)%nat = true) /\
                           snd (ready (S (n - 1))) = Some e' /\ result r = inr e'
    | WFuel => False
    end.
Proof. exact @stops_at_first. Qed.
Print Assumptions C05_stops_at_first.

(* the future returns exactly the outcome of the last inner call (or the readiness
   error that prevented the next one) *)
Theorem C05_returns_last :
  forall (Res Err : Type) (c : cfg Err) (hb : bool) (max : nat)
         (inner : nat -> Z * outcome Res Err) (ready : nat -> Z * option Err)
         (grant : nat -> bool) (t0 : Z),
    let r := retry_run c hb max inner ready grant t0 in
    reason r <> WFuel /\
    exists l cl, calls r = l ++ [cl] /\
      (reason r <> WNotReady -> result r = out_res (c_out cl)) /\
      (reason r = WNotReady ->
         exists e, snd (ready (S (c_idx cl))) = Some e /\ result r = inr e).
Proof. exact @returns_last. Qed.
Print Assumptions C05_returns_last.

(* attempt k+1 starts when the backoff sleep that began when the failure of attempt k was
   observed is over — deadline dl = failure + backoff(k) (clamped at 0: a Duration), rounded
   up to a whole millisecond by the timer — plus the extra wait: never earlier than
   failure + backoff (any backoff, also below a millisecond), less than a millisecond
   after dl under prompt polling of a ready service, and exactly at dl when dl is a whole
   millisecond *)
Theorem C05_backoff_before_retry :
  forall (Res Err : Type) (c : cfg Err) (hb : bool) (max : nat)
         (inner : nat -> Z * outcome Res Err) (ready : nat -> Z * option Err)
         (grant : nat -> bool) (t0 : Z),
    let r := retry_run c hb max inner ready grant t0 in
    (exists cl rest, calls r = cl :: rest /\ c_start cl = t0) /\
    (forall cl, In cl (calls r) -> c_end cl = c_start cl + Z.max 0 (fst (inner (c_idx cl)))) /\
    (forall l1 c1 c2 l2, calls r = l1 ++ c1 :: c2 :: l2 ->
       let dl := c_end c1 + Z.max 0 (backoff c (c_idx c1)) in
       c_idx c2 = S (c_idx c1) /\
       c_start c2 = ceil_ms dl + Z.max 0 (fst (ready (c_idx c2))) /\
       c_start c2 >= c_end c1 + backoff c (c_idx c1) /\
       (fst (ready (c_idx c2)) <= 0 -> c_start c2 < dl + MS) /\
       (fst (ready (c_idx c2)) <= 0 -> (exists k, dl = k * MS) -> c_start c2 = dl)).
Proof. exact @backoff_before_retry. Qed.
Print Assumptions C05_backoff_before_retry.

(* budget operations issued by one request: one granted withdrawal per retry (one more,
   unused, when the service then fails readiness), a final denied one iff the reason is
   WDenied, a deposit iff the call succeeded; nothing without a budget *)
Theorem C05_budget :
  forall (Res Err : Type) (c : cfg Err) (hb : bool) (max : nat)
         (inner : nat -> Z * outcome Res Err) (ready : nat -> Z * option Err)
         (grant : nat -> bool) (t0 : Z),
    let r := retry_run c hb max inner ready grant t0 in
    let n := length (calls r) in
    (hb = false -> ops r = []) /\
    (hb = true -> ops r = repeat (BWithdraw true) (n - 1) ++
                          match reason r with
                          | WOk => [BDeposit] | WDenied => [BWithdraw false]
                          | WNotReady => [BWithdraw true] | _ => []
                          end) /\
    (forall k, (k < n - 1)%nat -> hb = true -> grant k = true) /\
    (In BDeposit (ops r) <-> hb = true /\ exists v, result r = inl v).
Proof. exact @budget_ops. Qed.
Print Assumptions C05_budget.

(* when the answers come from a token bucket used by this request alone, the recorded
   answers are exactly the ones TokenBucketBudget gives operation by operation *)
Theorem C05_budget_sequential :
  forall (Res Err : Type) (c : cfg Err) (max : nat)
         (inner : nat -> Z * outcome Res Err) (ready : nat -> Z * option Err)
         (b : bucket) (t0 : Z),
    0 <= tokens b ->
    consistent b (ops (retry_run c true max inner ready (seq_grant b) t0)).
Proof. exact @budget_sequential. Qed.
Print Assumptions C05_budget_sequential.

(* ---- the step machine: any number of requests, one token bucket, any event list ---- *)

(* refinement.  In any reachable state, for a request i whose future has returned (x, w):
   the run of [retry_run] on the streams read off its log — outcomes [snd (r_inner ..)] and
   readiness errors [rdy_err (r_ready ..)] of the wrapped service, observed durations and
   extra waits, the recorded budget answers — makes exactly the logged calls (same attempt
   numbers, instants, outcomes), returns x for reason w, and issues exactly the budget
   operations recorded for request i, in order.  Hence theorems 1-6 hold of what the step
   machine (and so run_script) does. *)
Theorem C05_step_refines_run :
  forall (Res Err : Type) (c : cfg Err) (inps : nat -> rin Res Err) (pf cp : nat)
         (b0 : option bucket) (evs : list ev) (i : nat) (x : Res + Err) (w : why),
    wf_bucket b0 ->
    let s := fold_left (step_st c inps pf cp) evs (init b0) in
    res (reqs s i) = Some (x, w) ->
    let l := log (reqs s i) in
    let inner := fun k => (w_dur l k, snd (r_inner (inps i) k)) in
    let ready := fun k => (w_slack c l k, rdy_err (r_ready (inps i) k)) in
    let r := retry_run c (is_some b0) (r_max (inps i)) inner ready (w_grant l w) (w_t0 l) in
    calls r = rev l /\ result r = x /\ reason r = w /\ ops r = ops_of i (oplog s).
Proof. exact @step_refines_run. Qed.
Print Assumptions C05_step_refines_run.

(* total retries (inner calls beyond the first, summed over requests 0..n-1) never exceed
   the initial content of the bucket plus one token per deposit; the balance never
   goes negative *)
Theorem C05_shared_budget :
  forall (Res Err : Type) (c : cfg Err) (inps : nat -> rin Res Err) (pf cp : nat) (k0 : bucket)
         (evs : list ev) (n : nat),
    0 <= tokens k0 -> 0 <= max_tokens k0 ->
    Forall (fun s => exists k, bud s = Some k /\ 0 <= tokens k /\
              Z.of_nat (sumn (fun i => retries (reqs s i)) n) * SCALE + tokens k <=
              tokens k0 + Z.of_nat (all_deposits (oplog s)) * SCALE)
           (states (step_st c inps pf cp) (init (Some k0)) evs).
Proof. exact @shared_budget. Qed.
Print Assumptions C05_shared_budget.

(* every request, in every reachable state of every schedule: at most max 1 max_attempts
   inner calls started; no grant, no retry: when a budget is configured the request has
   made at most as many retries as withdrawals were granted to it; the log of finished
   calls is well formed ([wf_log]: consecutive attempt numbers, the wrapped service's
   outcomes, every call but the newest failed retryably below max_attempts, the next call
   started no earlier than the end of the backoff sleep for that failure, on an instance
   whose readiness poll did not fail), the same for the call in flight; the future has
   returned iff it is Done, and what it returned is characterised by [done_spec] (last
   outcome, or the readiness error; with the reason), its budget operations being one
   granted withdrawal per retry followed by the reason's own operation *)
Theorem C05_any_schedule :
  forall (Res Err : Type) (c : cfg Err) (inps : nat -> rin Res Err) (pf cp : nat)
         (b0 : option bucket) (evs : list ev),
    wf_bucket b0 ->
    Forall (fun s => forall i,
              let r := reqs s i in
              let hb := is_some b0 in
              (length (started_calls r) <= Nat.max 1 (r_max (inps i)))%nat /\
              (hb = true -> (retries r <= ngr (ops_of i (oplog s)))%nat) /\
              wf_log c (inps i) (log r) /\
              (forall av prev rest, ph r = PCalling av -> log r = prev :: rest ->
                 retryable c (inps i) prev /\ wake_at c prev <= cur_start r /\
                 not_rerr (r_ready (inps i) (attempt r))) /\
              (ph r = PDone <-> res r <> None) /\
              (forall x w, res r = Some (x, w) ->
                 done_spec c (inps i) hb r x w /\
                 ops_of i (oplog s) = gr hb (length (log r) - 1) ++ tail_ops hb w))
           (states (step_st c inps pf cp) (init b0) evs).
Proof. exact @any_schedule. Qed.
Print Assumptions C05_any_schedule.

(* progress of one Poll event in any reachable state, provided the micro-step bound is
   large enough for the budget (4 * cp + 3 < pf; true of run_script's values,
   Proof/Retry.v Examples.script_fuel_enough): a poll returns Pending only when the future
   really waits (inner call in flight, backoff sleep not over, service not ready), or when
   the cooperative budget of the poll is used up — then at least cp - 1 backoff sleeps (so
   cp - 1 attempts) were completed in this one poll, the future stands at a sleep or at a
   gated inner call, and it has woken itself (the wake flag is set), so it is polled again;
   a deposit happens exactly when the poll returns Ok (and a budget is configured); a denied
   withdrawal makes the poll return the error at once *)
Theorem C05_poll_event :
  forall (Res Err : Type) (c : cfg Err) (inps : nat -> rin Res Err) (pf cp : nat)
         (b0 : option bucket) (evs : list ev) (i : nat),
    wf_bucket b0 -> (4 * cp + 3 < pf)%nat ->
    let s := fold_left (step_st c inps pf cp) evs (init b0) in
    let s' := fst (step c inps pf cp s (Poll i)) in
    let o := snd (step c inps pf cp s (Poll i)) in
    (o_res o = Pending -> o_self o = false -> waiting (inps i) (now s) (reqs s' i)) /\
    (o_self o = true ->
       o_res o = Pending /\ woken s' i = true /\
       (cp <= S (attempt (reqs s' i) - attempt (reqs s i)))%nat /\
       match ph (reqs s' i) with
       | PSleeping _ => True
       | PCalling _ => fst (r_inner (inps i) (attempt (reqs s' i))) = true
       | _ => False
       end) /\
    (o_res o = Nothing -> ph (reqs s i) = PDone /\ reqs s' i = reqs s i) /\
    (forall x, o_res o = Ready x ->
       ph (reqs s i) <> PDone /\ ph (reqs s' i) = PDone /\ exists w, res (reqs s' i) = Some (x, w)) /\
    (In BDeposit (o_ops o) <-> is_some b0 = true /\ exists v, o_res o = Ready (inl v)) /\
    (In (BWithdraw false) (o_ops o) -> exists e, o_res o = Ready (inr e)) /\
    (is_some b0 = false -> o_ops o = []).
Proof. exact @poll_event. Qed.
Print Assumptions C05_poll_event.

(* the budget operations of one poll are the token bucket's own answers, operation by
   operation ([ops_ok]: a withdrawal is recorded as denied only when the bucket holds less
   than one token at that moment, as granted only when it holds one), and the bucket
   afterwards is the bucket after those operations; for every request, retries never exceed
   the withdrawals granted to that request *)
Theorem C05_poll_ops_consistent :
  forall (Res Err : Type) (c : cfg Err) (inps : nat -> rin Res Err) (pf cp : nat)
         (b0 : option bucket) (evs : list ev) (i : nat),
    wf_bucket b0 ->
    let s := fold_left (step_st c inps pf cp) evs (init b0) in
    let s' := fst (step c inps pf cp s (Poll i)) in
    let o := snd (step c inps pf cp s (Poll i)) in
    ops_ok (bud s) (o_ops o) /\ bud s' = apply_ops (bud s) (o_ops o) /\
    (forall j, is_some b0 = true -> (retries (reqs s' j) <= grants_of j (oplog s'))%nat).
Proof. exact @poll_ops_consistent. Qed.
Print Assumptions C05_poll_ops_consistent.

(* exactness of the backoff at poll granularity: a poll (with budget left) before the
   sleep deadline (= failure observed + backoff, rounded up to a millisecond) changes
   nothing; the first poll at or after it, with the service ready, issues attempt k+1 at
   that very instant *)
Theorem C05_poll_before_deadline :
  forall (Res Err : Type) (c : cfg Err) (inp : rin Res Err) (f k : nat) (t : Z)
         (r : rst Res Err) (b : option bucket) (dl : Z),
    ph r = PSleeping dl -> t < dl -> drive c inp (S f) (S k) t r b = (r, b, [], Pending, false).
Proof. exact @poll_before_deadline. Qed.
Print Assumptions C05_poll_before_deadline.

Theorem C05_poll_at_deadline :
  forall (Res Err : Type) (c : cfg Err) (inp : rin Res Err) (f k : nat) (t : Z)
         (r : rst Res Err) (b : option bucket) (dl : Z),
    ph r = PSleeping dl -> dl <= t -> r_ready inp (S (attempt r)) = ROk ->
    drive c inp (S (S f)) (S k) t r b =
    drive c inp f k t (mkRst (PCalling (negb (fst (r_inner inp (S (attempt r)))))) (S (attempt r)) t
                             (log r) (res r)) b.
Proof. exact @poll_at_deadline. Qed.
Print Assumptions C05_poll_at_deadline.
