(* C05 — Retry makes a bounded number of attempts and returns the last outcome.
   Model: Model/Retry.v.  Two layers share the transcription of the loop body of
   Retry::call ([after_outcome]):
   * [retry_run c hb max inner ready grant t0]: one request as a function of
       inner a = (time until the result of attempt a is observed, Ok v | Fail e)
       ready a = (extra wait before attempt a >= 1 beyond the backoff — 0 when polled
                  promptly and the service is ready —, readiness error if any)
       grant a = the budget's answer to the withdrawal asked after attempt a failed
     for ALL such streams, all predicates (c.(pred) : option (Err -> bool)), all backoff
     functions (c.(backoff) : nat -> Z, ms), all max (incl. 0; per-request values are just
     different [max]), budget configured or not ([hb]).
   * [step]: the call futures of any number of requests sharing one token bucket, at
     poll granularity (Poll i / Advance d / Complete i / MakeReady i), for ALL event
     lists = all interleavings and all polling schedules.  This is the layer the
     correspondence check runs against the real RetryLayer.
   Only statements, `exact`, and Print Assumptions. *)
From TR Require Import Lib.Base Model.Retry Proof.Retry.

(* 1 <= number of inner calls <= max 1 max_attempts *)
Theorem C05_attempt_bounds :
  forall (Res Err : Type) (c : cfg Err) (hb : bool) (max : nat)
         (inner : nat -> Z * outcome Res Err) (ready : nat -> Z * option Err)
         (grant : nat -> bool) (t0 : Z),
    (1 <= length (calls (retry_run c hb max inner ready grant t0)) <= Nat.max 1 max)%nat.
Proof. exact @attempt_bounds. Qed.
Print Assumptions C05_attempt_bounds.

(* attempts are numbered 0..n-1 and see the stream's outcomes; every attempt before the
   last failed with an error the predicate accepts, below max_attempts, was granted a
   withdrawal (if a budget is configured) and found the service ready; the last attempt
   is characterised by [last_is] according to the reason the loop stopped:
   first success / first refused error / attempt number max / first denied withdrawal /
   readiness error before the next attempt. *)
Theorem C05_stops_at_first :
  forall (Res Err : Type) (c : cfg Err) (hb : bool) (max : nat)
         (inner : nat -> Z * outcome Res Err) (ready : nat -> Z * option Err)
         (grant : nat -> bool) (t0 : Z),
    let r := retry_run c hb max inner ready grant t0 in
    let n := length (calls r) in
    map (@c_idx Res Err) (calls r) = seq 0 n /\
    (forall cl, In cl (calls r) -> c_out cl = snd (inner (c_idx cl))) /\
    (forall k, (k < n - 1)%nat ->
       exists e, snd (inner k) = Fail e /\ should_retry c e = true /\ (S k < max)%nat /\
                 (hb = true -> grant k = true) /\ snd (ready (S k)) = None) /\
    match reason r with
    | WOk => exists v, snd (inner (n - 1)%nat) = Ok v /\ result r = inl v
    | WRefused => exists e, snd (inner (n - 1)%nat) = Fail e /\ should_retry c e = false /\
                            result r = inr e
    | WMax => exists e, snd (inner (n - 1)%nat) = Fail e /\ should_retry c e = true /\
                        (max <= S (n - 1))%nat /\ result r = inr e
    | WDenied => exists e, snd (inner (n - 1)%nat) = Fail e /\ should_retry c e = true /\
                           (S (n - 1) < max)%nat /\ hb = true /\ grant (n - 1)%nat = false /\
                           result r = inr e
    | WNotReady => exists e e', snd (inner (n - 1)%nat) = Fail e /\ should_retry c e = true /\
                           (S (n - 1) < max)%nat /\ (hb = true -> grant (n - 1)%nat = true) /\
                           snd (ready (S (n - 1))) = Some e' /\ result r = inr e'
    | WFuel => False
    end.
Proof. exact @stops_at_first. Qed.
Print Assumptions C05_stops_at_first.

(* the future returns exactly the outcome of the last inner call (or the readiness
   error that prevented the next one) *)
Theorem C05_returns_last :
  forall (Res Err : Type) (c : cfg Err) (hb : bool) (max : nat)
         (inner : nat -> Z * outcome Res Err) (ready : nat -> Z * option Err)
         (grant : nat -> bool) (t0 : Z),
    let r := retry_run c hb max inner ready grant t0 in
    reason r <> WFuel /\
    exists l cl, calls r = l ++ [cl] /\
      (reason r <> WNotReady -> result r = out_res (c_out cl)) /\
      (reason r = WNotReady ->
         exists e, snd (ready (S (c_idx cl))) = Some e /\ result r = inr e).
Proof. exact @returns_last. Qed.
Print Assumptions C05_returns_last.

(* attempt k+1 starts exactly backoff(k) (clamped at 0: a Duration) plus the extra wait
   after the failure of attempt k was observed: never earlier than failure + backoff,
   and exactly then under prompt polling of a ready service *)
Theorem C05_backoff_before_retry :
  forall (Res Err : Type) (c : cfg Err) (hb : bool) (max : nat)
         (inner : nat -> Z * outcome Res Err) (ready : nat -> Z * option Err)
         (grant : nat -> bool) (t0 : Z),
    let r := retry_run c hb max inner ready grant t0 in
    (exists cl rest, calls r = cl :: rest /\ c_start cl = t0) /\
    (forall cl, In cl (calls r) -> c_end cl = c_start cl + Z.max 0 (fst (inner (c_idx cl)))) /\
    (forall l1 c1 c2 l2, calls r = l1 ++ c1 :: c2 :: l2 ->
       c_idx c2 = S (c_idx c1) /\
       c_start c2 = c_end c1 + Z.max 0 (backoff c (c_idx c1)) + Z.max 0 (fst (ready (c_idx c2))) /\
       c_start c2 >= c_end c1 + backoff c (c_idx c1) /\
       (fst (ready (c_idx c2)) <= 0 -> 0 <= backoff c (c_idx c1) ->
        c_start c2 = c_end c1 + backoff c (c_idx c1))).
Proof. exact @backoff_before_retry. Qed.
Print Assumptions C05_backoff_before_retry.

(* budget operations issued by one request: one granted withdrawal per retry (one more,
   unused, when the service then fails readiness), a final denied one iff the reason is
   WDenied, a deposit iff the call succeeded; nothing without a budget *)
Theorem C05_budget :
  forall (Res Err : Type) (c : cfg Err) (hb : bool) (max : nat)
         (inner : nat -> Z * outcome Res Err) (ready : nat -> Z * option Err)
         (grant : nat -> bool) (t0 : Z),
    let r := retry_run c hb max inner ready grant t0 in
    let n := length (calls r) in
    (hb = false -> ops r = []) /\
    (hb = true -> ops r = repeat (BWithdraw true) (n - 1) ++
                          match reason r with
                          | WOk => [BDeposit] | WDenied => [BWithdraw false]
                          | WNotReady => [BWithdraw true] | _ => []
                          end) /\
    (forall k, (k < n - 1)%nat -> hb = true -> grant k = true) /\
    (In BDeposit (ops r) <-> hb = true /\ exists v, result r = inl v).
Proof. exact @budget_ops. Qed.
Print Assumptions C05_budget.

(* when the answers come from a token bucket used by this request alone, the recorded
   answers are exactly the ones TokenBucketBudget gives operation by operation *)
Theorem C05_budget_sequential :
  forall (Res Err : Type) (c : cfg Err) (max : nat)
         (inner : nat -> Z * outcome Res Err) (ready : nat -> Z * option Err)
         (b : bucket) (t0 : Z),
    0 <= tokens b ->
    consistent b (ops (retry_run c true max inner ready (seq_grant b) t0)).
Proof. exact @budget_sequential. Qed.
Print Assumptions C05_budget_sequential.

(* ---- poll-granular model: any number of requests, one token bucket, any event list ---- *)

(* total retries (inner calls beyond the first, summed over requests 0..n-1) never exceed
   the initial content of the bucket plus one token per deposit; the balance never
   goes negative *)
Theorem C05_shared_budget :
  forall (Res Err : Type) (c : cfg Err) (inps : nat -> rin Res Err) (k0 : bucket)
         (evs : list ev) (n : nat),
    0 <= tokens k0 -> 0 <= max_tokens k0 ->
    Forall (fun s => exists k, bud s = Some k /\ 0 <= tokens k /\
              Z.of_nat (sumn (fun i => retries (reqs s i)) n) * SCALE + tokens k <=
              tokens k0 + Z.of_nat (all_deposits (oplog s)) * SCALE)
           (states (step_st c inps) (init (Some k0)) evs).
Proof. exact @shared_budget. Qed.
Print Assumptions C05_shared_budget.

(* every request, in every reachable state of every schedule: at most max 1 max_attempts
   inner calls started; the log of finished calls is well formed ([wf_log]: consecutive
   attempt numbers, the wrapped service's outcomes, every call but the newest failed
   retryably below max_attempts, and the next call started no earlier than that failure
   was observed + backoff), the same for the call in flight; the future has returned iff
   it is Done, and what it returned is characterised by [done_spec] (last outcome, or
   the readiness error; with the reason) *)
Theorem C05_any_schedule :
  forall (Res Err : Type) (c : cfg Err) (inps : nat -> rin Res Err) (b0 : option bucket)
         (evs : list ev),
    wf_bucket b0 ->
    Forall (fun s => forall i,
              let r := reqs s i in
              (length (started_calls r) <= Nat.max 1 (r_max (inps i)))%nat /\
              wf_log c (inps i) (log r) /\
              (forall av prev rest, ph r = PCalling av -> log r = prev :: rest ->
                 retryable c (inps i) prev /\
                 c_end prev + Z.max 0 (backoff c (c_idx prev)) <= cur_start r) /\
              (ph r = PDone <-> res r <> None) /\
              (forall x w, res r = Some (x, w) -> done_spec c (inps i) (is_some b0) r x w))
           (states (step_st c inps) (init b0) evs).
Proof. exact @any_schedule. Qed.
Print Assumptions C05_any_schedule.

(* one Poll event in any reachable state: Pending only when the future really waits
   (inner call in flight, backoff not elapsed, service not ready) — the poll loop never
   runs out of fuel —; a deposit happens exactly when the poll returns Ok (and a budget
   is configured); a denied withdrawal makes the poll return the error at once *)
Theorem C05_poll_event :
  forall (Res Err : Type) (c : cfg Err) (inps : nat -> rin Res Err) (b0 : option bucket)
         (evs : list ev) (i : nat),
    wf_bucket b0 ->
    let s := fold_left (step_st c inps) evs (init b0) in
    let s' := fst (step c inps s (Poll i)) in
    let o := snd (step c inps s (Poll i)) in
    (o_res o = Pending -> waiting (inps i) (now s) (reqs s' i)) /\
    (o_res o = Nothing -> ph (reqs s i) = PDone /\ reqs s' i = reqs s i) /\
    (forall x, o_res o = Ready x ->
       ph (reqs s i) <> PDone /\ ph (reqs s' i) = PDone /\ exists w, res (reqs s' i) = Some (x, w)) /\
    (In BDeposit (o_ops o) <-> is_some b0 = true /\ exists v, o_res o = Ready (inl v)) /\
    (In (BWithdraw false) (o_ops o) -> exists e, o_res o = Ready (inr e)) /\
    (is_some b0 = false -> o_ops o = []).
Proof. exact @poll_event. Qed.
Print Assumptions C05_poll_event.

(* exactness of the backoff at poll granularity: a poll before the sleep deadline
   (= failure observed + backoff) changes nothing; the first poll at or after it, with
   the service ready, issues attempt k+1 at that very instant *)
Theorem C05_poll_before_deadline :
  forall (Res Err : Type) (c : cfg Err) (inp : rin Res Err) (f : nat) (t : Z)
         (r : rst Res Err) (b : option bucket) (dl : Z),
    ph r = PSleeping dl -> t < dl -> drive c inp (S f) t r b = (r, b, [], Pending).
Proof. exact @poll_before_deadline. Qed.
Print Assumptions C05_poll_before_deadline.

Theorem C05_poll_at_deadline :
  forall (Res Err : Type) (c : cfg Err) (inp : rin Res Err) (f : nat) (t : Z)
         (r : rst Res Err) (b : option bucket) (dl : Z),
    ph r = PSleeping dl -> dl <= t -> r_ready inp (S (attempt r)) = ROk ->
    drive c inp (S (S f)) t r b =
    drive c inp f t (mkRst (PCalling (negb (fst (r_inner inp (S (attempt r)))))) (S (attempt r)) t
                           (log r) (res r)) b.
Proof. exact @poll_at_deadline. Qed.
Print Assumptions C05_poll_at_deadline.
