(* C16 — Reconnect retries only connection failures, a bounded number of times.
   Model: Model/Reconnect.v.  Two layers share the transcription of the Calling arm of
   ReconnectFuture::poll ([after_outcome]) and of the Sleeping arm ([after_sleep]):
   * [reconnect_run c inner ready fuel t0]: one request as a function of
       inner k = (time until the result of the k-th inner call is observed, Ok v | Fail e)
       ready k = (extra wait before call k >= 1 beyond the delay, readiness error if any)
     for ALL such streams, all predicates (c.(pred)), all max_attempts (Some m incl. 0, or
     None = unlimited: then the run need not end, hence [fuel]; result None = still
     reconnecting after fuel retries), all policies (c.(policy) : nat -> option Z is
     delay_for_attempt, None = no delay), retry_on_reconnect on/off.
     [u32_run fuel]: fewer than 2^32 - 1 retries, so the u32 attempt counter of the code
     does not overflow (the model counts in nat).
   * [step]: the futures of any number of requests sharing the published ReconnectState,
     at poll granularity (Call i / Poll i / Advance d / Complete i / MakeReady i), for ALL
     event lists.  This is the layer the correspondence check runs against the real
     ReconnectLayer.  [pf] bounds the micro-steps of one poll.
   Only statements, `exact`, and Print Assumptions. *)
From TR Require Import Lib.Base Model.Reconnect Proof.Reconnect.

(* at most max_attempts + 1 inner calls when max_attempts = Some m (and then the run ends
   within m retries); unbounded only for None *)
Theorem C16_call_bound :
  forall (Res Err : Type) (c : cfg Err) (inner : nat -> Z * outcome Res Err)
         (ready : nat -> Z * option Err) (fuel : nat) (t0 : Z),
    u32_run fuel ->
    let r := reconnect_run c inner ready fuel t0 in
    (1 <= length (calls r) <= S fuel)%nat /\
    (forall m, max_attempts c = Some m ->
       (length (calls r) <= m + 1)%nat /\ ((m <= fuel)%nat -> result r <> None)).
Proof. exact @call_bound_u32. Qed.
Print Assumptions C16_call_bound.

(* every inner call but the last failed with an error the predicate classifies as a
   connection failure, within max_attempts, with a delay from the policy, with
   retry_on_reconnect set, and found the service ready afterwards *)
Theorem C16_retries_only_reconnectable :
  forall (Res Err : Type) (c : cfg Err) (inner : nat -> Z * outcome Res Err)
         (ready : nat -> Z * option Err) (fuel : nat) (t0 : Z),
    u32_run fuel ->
    let r := reconnect_run c inner ready fuel t0 in
    let n := length (calls r) in
    map (@c_idx Res Err) (calls r) = seq 0 n /\
    (forall cl, In cl (calls r) -> c_out cl = snd (inner (c_idx cl))) /\
    (forall k, (k < n - 1)%nat ->
       exists e d, snd (inner k) = Fail e /\ should_reconnect c e = true /\
                   exceeded c (S k) = false /\ policy c (S k) = Some d /\
                   retry_on_reconnect c = true /\ snd (ready (S k)) = None).
Proof. exact @retries_only_reconnectable_u32. Qed.
Print Assumptions C16_retries_only_reconnectable.

(* call k+1 starts exactly delay_for_attempt(k+1) (clamped at 0) plus the extra wait after
   the failure of call k was observed: never earlier than failure + delay, exactly then
   under prompt polling of a ready service *)
Theorem C16_delay_before_retry :
  forall (Res Err : Type) (c : cfg Err) (inner : nat -> Z * outcome Res Err)
         (ready : nat -> Z * option Err) (fuel : nat) (t0 : Z),
    u32_run fuel ->
    let r := reconnect_run c inner ready fuel t0 in
    (exists cl rest, calls r = cl :: rest /\ c_start cl = t0) /\
    (forall cl, In cl (calls r) -> c_end cl = c_start cl + Z.max 0 (fst (inner (c_idx cl)))) /\
    (forall l1 c1 c2 l2, calls r = l1 ++ c1 :: c2 :: l2 ->
       c_idx c2 = S (c_idx c1) /\
       exists d, policy c (c_idx c2) = Some d /\
         c_start c2 = c_end c1 + Z.max 0 d + Z.max 0 (fst (ready (c_idx c2))) /\
         c_start c2 >= c_end c1 + d /\
         (fst (ready (c_idx c2)) <= 0 -> 0 <= d -> c_start c2 = c_end c1 + d)).
Proof. exact @delay_before_retry_u32. Qed.
Print Assumptions C16_delay_before_retry.

(* what the future returns, variant by variant, in terms of the last inner call cl:
   the first success unchanged; ServiceError for an error the predicate refuses (or a
   readiness error of the service before the next call); MaxAttemptsExceeded{attempts,
   last error} exactly when the attempt number S (c_idx cl) exceeds max_attempts;
   ConnectionFailed when the policy gives no delay; ConnectionFailedNoRetry when
   retry_on_reconnect is false (after the delay) *)
Theorem C16_result :
  forall (Res Err : Type) (c : cfg Err) (inner : nat -> Z * outcome Res Err)
         (ready : nat -> Z * option Err) (fuel : nat) (t0 : Z) (x : Res + rerr Err),
    u32_run fuel ->
    let r := reconnect_run c inner ready fuel t0 in
    result r = Some x ->
    exists l cl, calls r = l ++ [cl] /\ c_out cl = snd (inner (c_idx cl)) /\
      match x with
      | inl v => snd (inner (c_idx cl)) = Ok v
      | inr (ServiceError e) =>
        (snd (inner (c_idx cl)) = Fail e /\ should_reconnect c e = false) \/
        (exists e0 d, sleeps_after c (c_idx cl) (snd (inner (c_idx cl))) d e0 /\
                      retry_on_reconnect c = true /\ snd (ready (S (c_idx cl))) = Some e)
      | inr (MaxAttemptsExceeded n e) =>
        snd (inner (c_idx cl)) = Fail e /\ should_reconnect c e = true /\ n = S (c_idx cl) /\
        exists m, max_attempts c = Some m /\ (m < S (c_idx cl))%nat
      | inr (ConnectionFailed e) =>
        snd (inner (c_idx cl)) = Fail e /\ should_reconnect c e = true /\
        exceeded c (S (c_idx cl)) = false /\ policy c (S (c_idx cl)) = None
      | inr (ConnectionFailedNoRetry e) =>
        (exists d, sleeps_after c (c_idx cl) (snd (inner (c_idx cl))) d e) /\
        retry_on_reconnect c = false
      end.
Proof. exact @result_spec_u32. Qed.
Print Assumptions C16_result.

(* the values written to the published state, in order: [Disconnected; Reconnecting] for
   each retried failure, then further non-Connected values, and Connected only as the very
   last write, exactly when the future returns Ok (or ConnectionFailedNoRetry, which marks
   the connection usable for the next request) *)
Theorem C16_state :
  forall (Res Err : Type) (c : cfg Err) (inner : nat -> Z * outcome Res Err)
         (ready : nat -> Z * option Err) (fuel : nat) (t0 : Z),
    u32_run fuel ->
    let r := reconnect_run c inner ready fuel t0 in
    let n := length (calls r) in
    exists pre fin rest,
      writes r = pre ++ fin /\ pre = repeat_dr (n - 1) ++ rest /\
      Forall (fun x => x <> Connected) pre /\
      ((fin = [Connected] /\ returns_connected (result r)) \/
       (fin = [] /\ ~ returns_connected (result r))).
Proof. exact @state_writes_u32. Qed.
Print Assumptions C16_state.

(* ---- poll-granular model: any number of requests, any event list ---- *)

(* every request, in every reachable state of every schedule: at most max_attempts + 1
   inner calls started; the log of finished calls is well formed ([wf_log]: consecutive
   call numbers, the wrapped service's outcomes, every call but the newest was a connection
   failure within max_attempts with a delay, retry_on_reconnect set, and the next call
   started no earlier than that failure was observed + delay), the same for the call in
   flight; the future has returned iff it is Done, and what it returned is characterised
   by [done_spec], variant by variant *)
Theorem C16_any_schedule :
  forall (Res Err : Type) (c : cfg Err) (inps : nat -> rin Res Err) (pf : nat) (evs : list ev),
    Forall (fun s => forall i,
              let r := reqs s i in
              (forall m, max_attempts c = Some m -> (length (started_calls r) <= m + 1)%nat) /\
              wf_log c (inps i) (log r) /\
              (forall av prev rest, ph r = PCalling av -> log r = prev :: rest ->
                 reconn c prev /\ retry_on_reconnect c = true /\
                 c_end prev + delay_of c prev <= cur_start r) /\
              (ph r = PDone <-> res r <> None) /\
              (forall x, res r = Some x -> done_spec c (inps i) (now s) r x))
           (states (step_st c inps pf) init evs).
Proof. exact @any_schedule. Qed.
Print Assumptions C16_any_schedule.

(* the published state is always what the future that wrote last has written ([pub]:
   Connected after Ok / ConnectionFailedNoRetry, Reconnecting while it sleeps, waits for
   readiness or retries, Disconnected after MaxAttemptsExceeded / ConnectionFailed), and
   Disconnected as long as nobody has written *)
Theorem C16_state_any_schedule :
  forall (Res Err : Type) (c : cfg Err) (inps : nat -> rin Res Err) (pf : nat) (evs : list ev),
    Forall (fun s => match writer s with
                     | None => cs s = Disconnected /\ forall i, pub (reqs s i) = None
                     | Some i => pub (reqs s i) = Some (cs s)
                     end)
           (states (step_st c inps pf) init evs).
Proof. exact @state_any. Qed.
Print Assumptions C16_state_any_schedule.

(* one Poll event in any reachable state: the state right after a poll that returns Ok is
   Connected; after MaxAttemptsExceeded / ConnectionFailed it is Disconnected; a poll in
   which the future observed a reconnectable failure (attempt counter grew) leaves the
   state Reconnecting while the future sleeps / waits for readiness / retries *)
Theorem C16_poll_event :
  forall (Res Err : Type) (c : cfg Err) (inps : nat -> rin Res Err) (pf : nat) (evs : list ev)
         (i : nat),
    let s := fold_left (step_st c inps pf) evs init in
    let s' := fst (step c inps pf s (Poll i)) in
    let o := snd (step c inps pf s (Poll i)) in
    (o_res o = Nothing -> ph (reqs s i) = PDone /\ reqs s' i = reqs s i) /\
    (forall x, o_res o = Ready x ->
       ph (reqs s i) <> PDone /\ ph (reqs s' i) = PDone /\ res (reqs s' i) = Some x /\
       match x with
       | inl _ | inr (ConnectionFailedNoRetry _) => cs s' = Connected
       | inr (MaxAttemptsExceeded _ _) | inr (ConnectionFailed _) => cs s' = Disconnected
       | inr (ServiceError _) => cs s' = cs s \/ cs s' = Reconnecting
       end) /\
    ((attempt (reqs s i) < attempt (reqs s' i))%nat ->
       writer s' = Some i /\
       match ph (reqs s' i) with
       | PCalling _ | PSleeping _ | PReadying _ => cs s' = Reconnecting
       | _ => True
       end).
Proof. exact @poll_event. Qed.
Print Assumptions C16_poll_event.

(* exactness of the delay at poll granularity *)
Theorem C16_poll_before_deadline :
  forall (Res Err : Type) (c : cfg Err) (inp : rin Res Err) (f : nat) (t : Z)
         (r : rst Res Err) (dl : Z),
    ph r = PSleeping dl -> t < dl -> drive c inp (S f) t r = (r, [], Pending).
Proof. exact @poll_before_deadline. Qed.
Print Assumptions C16_poll_before_deadline.

Theorem C16_poll_at_deadline :
  forall (Res Err : Type) (c : cfg Err) (inp : rin Res Err) (f : nat) (t : Z)
         (r : rst Res Err) (dl : Z) (e : Err),
    ph r = PSleeping dl -> dl <= t -> last_error r = Some e -> retry_on_reconnect c = true ->
    r_ready inp (attempt r) = ROk ->
    drive c inp (S (S f)) t r =
    drive c inp f t (mkRst (PCalling (negb (fst (r_inner inp (attempt r))))) (attempt r)
                           (last_error r) t (log r) (res r)).
Proof. exact @poll_at_deadline. Qed.
Print Assumptions C16_poll_at_deadline.
