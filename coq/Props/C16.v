(* C16 — Reconnect retries only connection failures, a bounded number of times.
   Model: Model/Reconnect.v (time in nanoseconds; the tokio timer fires at the first whole
   millisecond at or after a deadline, [ceil_ms]; every poll of a future has a cooperative
   budget, Lib/TokioTime.v).  Two layers share the transcription of the Calling arm of
   ReconnectFuture::poll ([after_outcome]) and of the Sleeping arm ([after_sleep]):
   * [step c inps pf cp]: the futures of any number of requests sharing the published
     ReconnectState, at poll granularity (Call i / Poll i / Advance d / Complete i /
     MakeReady i), for ALL event lists, all micro-step bounds [pf] and all cooperative budgets
     [cp] per poll.  This is the layer the correspondence check runs against the real
     ReconnectLayer (run_script = step with pf = poll_fuel, cp = COOP = 128).
   * [reconnect_run c inner ready fuel t0]: one request as a function of
       inner k = (time until the result of the k-th inner call is observed, Ok v | Fail e)
       ready k = (extra wait before call k >= 1 beyond the end of the delay, readiness error)
     for ALL such streams, all predicates (c.(pred)), all max_attempts (Some m incl. 0, or
     None = unlimited: then the run need not end, hence [fuel]; result None = still
     reconnecting after fuel retries), all policies (c.(policy) : nat -> option Z is
     delay_for_attempt in ns, None = no delay), retry_on_reconnect on/off.
     The attempt counter: the model counts connection failures in nat; the code stores
     min(count, u32::MAX) ([sat32]: passed to the policy and reported in MaxAttemptsExceeded)
     and treats a count that no longer fits a u32 as exceeding every max_attempts ([exceeded],
     repo fix 4ccf9b3).  No theorem carries a "fewer than 2^32 failures" caveat any more.
   [C16_step_refines_run] ties the layers: whatever the step machine did for a request that
   has returned is a run of [reconnect_run] on streams read off its log (calls, result and
   the values written to the published state), so theorems 1-5 speak about what run_script
   executes.
   Only statements, `exact`, and Print Assumptions. *)
From TR Require Import Lib.Base Lib.TokioTime Model.Reconnect Proof.Reconnect.

(* at most max_attempts + 1 inner calls when max_attempts = Some m, for EVERY m (u32::MAX
   included, and with no bound on the number of failures) and the run ends within m retries;
   unbounded only for None *)
Theorem C16_call_bound :
  forall (Res Err : Type) (c : cfg Err) (inner : nat -> Z * outcome Res Err)
         (ready : nat -> Z * option Err) (fuel : nat) (t0 : Z),
    let r := reconnect_run c inner ready fuel t0 in
    (1 <= length (calls r) <= S fuel)%nat /\
    (forall m, max_attempts c = Some m ->
       (length (calls r) <= m + 1)%nat /\ ((m <= fuel)%nat -> result r <> None)).
Proof. exact @call_bound. Qed.
Print Assumptions C16_call_bound.

(* every inner call but the last failed with an error the predicate classifies as a
   connection failure, within max_attempts, with a delay from the policy, with
   retry_on_reconnect set, and found the service ready afterwards *)
Theorem C16_retries_only_reconnectable :
  forall (Res Err : Type) (c : cfg Err) (inner : nat -> Z * outcome Res Err)
         (ready : nat -> Z * option Err) (fuel : nat) (t0 : Z),
    let r := reconnect_run c inner ready fuel t0 in
    let n := length (calls r) in
    map (@c_idx Res Err) (calls r) = seq 0 n /\
    (forall cl, In cl (calls r) -> c_out cl = snd (inner (c_idx cl))) /\
    (forall k, (k < n - 1)%nat ->
       exists e d, snd (inner k) = Fail e /\ should_reconnect c e = true /\
                   exceeded c (S k) = false /\ delay_at c (S k) = Some d /\
                   retry_on_reconnect c = true /\ snd (ready (S k)) = None).
Proof. exact @retries_only_reconnectable. Qed.
Print Assumptions C16_retries_only_reconnectable.

(* call k+1 starts when the sleep that began when the failure of call k was observed is
   over — deadline dl = failure + delay_for_attempt(k+1) (clamped at 0), rounded up to a
   whole millisecond by the timer — plus the extra wait: never earlier than failure + delay
   (any delay, also below a millisecond), less than a millisecond after dl under prompt
   polling of a ready service, and exactly at dl when dl is a whole millisecond *)
Theorem C16_delay_before_retry :
  forall (Res Err : Type) (c : cfg Err) (inner : nat -> Z * outcome Res Err)
         (ready : nat -> Z * option Err) (fuel : nat) (t0 : Z),
    let r := reconnect_run c inner ready fuel t0 in
    (exists cl rest, calls r = cl :: rest /\ c_start cl = t0) /\
    (forall cl, In cl (calls r) -> c_end cl = c_start cl + Z.max 0 (fst (inner (c_idx cl)))) /\
    (forall l1 c1 c2 l2, calls r = l1 ++ c1 :: c2 :: l2 ->
       c_idx c2 = S (c_idx c1) /\
       exists d, delay_at c (c_idx c2) = Some d /\
         let dl := c_end c1 + Z.max 0 d in
         c_start c2 = ceil_ms dl + Z.max 0 (fst (ready (c_idx c2))) /\
         c_start c2 >= c_end c1 + d /\
         (fst (ready (c_idx c2)) <= 0 -> c_start c2 < dl + MS) /\
         (fst (ready (c_idx c2)) <= 0 -> (exists k, dl = k * MS) -> c_start c2 = dl)).
Proof. exact @delay_before_retry. Qed.
Print Assumptions C16_delay_before_retry.

(* what the future returns, variant by variant, in terms of the last inner call cl:
   the first success unchanged; ServiceError for an error the predicate refuses (or a
   readiness error of the service before the next call); MaxAttemptsExceeded{attempts,
   last error} exactly when the count S (c_idx cl) of connection failures exceeds max_attempts
   ([exceeded], characterised by C16_exceeded_u32 below), attempts = min(count, u32::MAX);
   ConnectionFailed when the policy gives no delay; ConnectionFailedNoRetry when
   retry_on_reconnect is false (after the delay) *)
Theorem C16_result :
  forall (Res Err : Type) (c : cfg Err) (inner : nat -> Z * outcome Res Err)
         (ready : nat -> Z * option Err) (fuel : nat) (t0 : Z) (x : Res + rerr Err),
    let r := reconnect_run c inner ready fuel t0 in
    result r = Some x ->
    exists l cl, calls r = l ++ [cl] /\ c_out cl = snd (inner (c_idx cl)) /\
      match x with
      | inl v => snd (inner (c_idx cl)) = Ok v
      | inr (ServiceError e) =>
        (snd (inner (c_idx cl)) = Fail e /\ should_reconnect c e = false) \/
        (exists e0 d, sleeps_after c (c_idx cl) (snd (inner (c_idx cl))) d e0 /\
                      retry_on_reconnect c = true /\ snd (ready (S (c_idx cl))) = Some e)
      | inr (MaxAttemptsExceeded n e) =>
        snd (inner (c_idx cl)) = Fail e /\ should_reconnect c e = true /\
        n = sat32 (S (c_idx cl)) /\ exceeded c (S (c_idx cl)) = true
      | inr (ConnectionFailed e) =>
        snd (inner (c_idx cl)) = Fail e /\ should_reconnect c e = true /\
        exceeded c (S (c_idx cl)) = false /\ delay_at c (S (c_idx cl)) = None
      | inr (ConnectionFailedNoRetry e) =>
        (exists d, sleeps_after c (c_idx cl) (snd (inner (c_idx cl))) d e) /\
        retry_on_reconnect c = false
      end.
Proof. exact @result_spec. Qed.
Print Assumptions C16_result.

(* the values written to the published state, in order: [Disconnected; Reconnecting] for
   each retried failure, then further non-Connected values, and Connected only as the very
   last write, exactly when the future returns Ok (or ConnectionFailedNoRetry, which marks
   the connection usable for the next request: the code's choice, not the property's) *)
Theorem C16_state :
  forall (Res Err : Type) (c : cfg Err) (inner : nat -> Z * outcome Res Err)
         (ready : nat -> Z * option Err) (fuel : nat) (t0 : Z),
    let r := reconnect_run c inner ready fuel t0 in
    let n := length (calls r) in
    exists pre fin rest,
      writes r = pre ++ fin /\ pre = repeat_dr (n - 1) ++ rest /\
      Forall (fun x => x <> Connected) pre /\
      ((fin = [Connected] /\ returns_connected (result r)) \/
       (fin = [] /\ ~ returns_connected (result r))).
Proof. exact @state_writes. Qed.
Print Assumptions C16_state.

(* the counter.  For a max_attempts that is a u32 — every value the builder accepts — the code's
   test is the mathematical one, count > max, for every count (also beyond 2^32); a count that
   no longer fits a u32 exceeds every maximum, so max_attempts(u32::MAX) is a finite bound
   (2^32 calls), not "unlimited"; and from any state whose counter has reached u32::MAX, one
   more connection failure ends the request at that very poll.  (Such a state takes 2^32 - 1
   failures to reach: no check can execute it — harness/src/bin/c16_soak.rs can, in ~13 min —,
   which is why this is a theorem about the step function from an arbitrary counter value.) *)
Theorem C16_exceeded_u32 :
  forall (Err : Type) (c : cfg Err) (a m : nat),
    max_attempts c = Some m -> Z.of_nat m <= U32MAX -> exceeded c a = (m <? a)%nat.
Proof. exact @exceeded_u32. Qed.
Print Assumptions C16_exceeded_u32.

Theorem C16_overflowing_count_exceeds_every_max :
  forall (Res Err : Type) (c : cfg Err) (inp : rin Res Err) (f coop : nat) (t : Z)
         (r : rst Res Err) (e : Err) (m : nat),
    ph r = PCalling true -> fst (r_inner inp (attempt r)) = false ->
    snd (r_inner inp (attempt r)) = Fail e -> should_reconnect c e = true ->
    max_attempts c = Some m -> U32MAX <= Z.of_nat (attempt r) ->
    exists r', drive c inp (S f) coop t r =
               (r', [Disconnected], Ready (inr (MaxAttemptsExceeded (Z.to_nat U32MAX) e)), false) /\
               ph r' = PDone /\ length (log r') = S (length (log r)).
Proof. exact @drive_overflow. Qed.
Print Assumptions C16_overflowing_count_exceeds_every_max.

(* ---- the step machine: any number of requests, any event list ---- *)

(* refinement.  In any reachable state, for a request i whose future has returned x: the run
   of [reconnect_run] (with any fuel covering its retries) on the streams read off its log —
   outcomes [snd (r_inner ..)] and readiness errors [rdy_err (r_ready ..)] of the wrapped
   service, observed durations and extra waits — makes exactly the logged calls (same
   numbers, instants, outcomes), returns x, and writes to the published state exactly the
   values recorded for request i, in order.  Hence theorems 1-5 hold of what the step
   machine (and so run_script) does for every request. *)
Theorem C16_step_refines_run :
  forall (Res Err : Type) (c : cfg Err) (inps : nat -> rin Res Err) (pf cp : nat)
         (evs : list ev) (i : nat) (x : Res + rerr Err) (fuel : nat),
    let s := fold_left (step_st c inps pf cp) evs init in
    res (reqs s i) = Some x ->
    let l := log (reqs s i) in
    (length l - 1 <= fuel)%nat ->
    let inner := fun k => (w_dur l k, snd (r_inner (inps i) k)) in
    let ready := fun k => (w_slack c l k, rdy_err (r_ready (inps i) k)) in
    let r := reconnect_run c inner ready fuel (w_t0 l) in
    calls r = rev l /\ result r = Some x /\ writes r = writes_of i (wlog s).
Proof. exact @step_refines_run. Qed.
Print Assumptions C16_step_refines_run.

(* every request, in every reachable state of every schedule: at most max_attempts + 1
   inner calls started; the log of finished calls is well formed ([wf_log]: consecutive
   call numbers, the wrapped service's outcomes, every call but the newest was a connection
   failure within max_attempts with a delay, retry_on_reconnect set, the next call started
   no earlier than the end of the sleep for that failure, on an instance whose readiness poll
   did not fail), the same for the call in flight; the future has returned iff it is Done,
   what it returned is characterised by [done_spec], variant by variant, and what it has
   written to the published state is [Disconnected; Reconnecting] per observed connection
   failure it went to sleep on, plus the value that goes with its result *)
Theorem C16_any_schedule :
  forall (Res Err : Type) (c : cfg Err) (inps : nat -> rin Res Err) (pf cp : nat) (evs : list ev),
    Forall (fun s => forall i,
              let r := reqs s i in
              (forall m, max_attempts c = Some m -> (length (started_calls r) <= m + 1)%nat) /\
              wf_log c (inps i) (log r) /\
              (forall av prev rest, ph r = PCalling av -> log r = prev :: rest ->
                 reconn c prev /\ retry_on_reconnect c = true /\
                 wake_at c prev <= cur_start r /\ not_rerr (r_ready (inps i) (attempt r))) /\
              (ph r = PDone <-> res r <> None) /\
              (forall x, res r = Some x -> done_spec c (inps i) (now s) r x) /\
              writes_of i (wlog s) =
                repeat_dr (attempt r) ++ match res r with Some x => tailw x | None => [] end)
           (states (step_st c inps pf cp) init evs).
Proof. exact @any_schedule. Qed.
Print Assumptions C16_any_schedule.

(* the published state is always what the future that wrote last has written ([pub]:
   Connected after Ok / ConnectionFailedNoRetry, Reconnecting while it sleeps, waits for
   readiness or retries, Disconnected after MaxAttemptsExceeded / ConnectionFailed), and
   Disconnected as long as nobody has written *)
Theorem C16_state_any_schedule :
  forall (Res Err : Type) (c : cfg Err) (inps : nat -> rin Res Err) (pf cp : nat) (evs : list ev),
    Forall (fun s => match writer s with
                     | None => cs s = Disconnected /\ forall i, pub (reqs s i) = None
                     | Some i => pub (reqs s i) = Some (cs s)
                     end)
           (states (step_st c inps pf cp) init evs).
Proof. exact @state_any. Qed.
Print Assumptions C16_state_any_schedule.

(* the state clause of the property, for ONE request (event lists that only mention request
   0): in every reachable state, while the request is handling a connection failure (it
   sleeps, waits for readiness, or its retry is in flight) the published state is
   Reconnecting — in particular not Connected —, and once it has returned Ok the state is
   Connected.  With two requests sharing the state the first half is false
   (Proof/Reconnect.v Examples.two_requests_connected_while_handling): last writer wins,
   see C16_state_any_schedule. *)
Theorem C16_single_request_state :
  forall (Res Err : Type) (c : cfg Err) (inps : nat -> rin Res Err) (pf cp : nat) (evs : list ev),
    Forall only0 evs ->
    Forall (fun s => (handling (reqs s 0) -> cs s = Reconnecting) /\
                     (forall v, res (reqs s 0) = Some (inl v) -> cs s = Connected) /\
                     (forall j, j <> 0%nat -> reqs s j = init_rst))
           (states (step_st c inps pf cp) init evs).
Proof. exact @single_request_state. Qed.
Print Assumptions C16_single_request_state.

(* one Poll event in any reachable state, provided the micro-step bound is large enough for
   the budget (4 * cp + 3 < pf; true of run_script's values, Examples.script_fuel_enough).
   Progress: a poll returns Pending only when the future really waits (inner call in flight,
   sleep not over, service not ready), or when the cooperative budget of the poll is used up
   — then at least cp - 1 sleeps (so cp - 1 reconnection attempts) were completed in this one
   poll, the future stands at a sleep or at a gated inner call, and it has woken itself (the
   wake flag is set), so it is polled again.  State: right after a poll that returns Ok the
   state is Connected; after MaxAttemptsExceeded / ConnectionFailed it is Disconnected; a poll
   in which the future observed a connection failure (attempt counter grew) leaves the state
   Reconnecting while the future sleeps / waits for readiness / retries *)
Theorem C16_poll_event :
  forall (Res Err : Type) (c : cfg Err) (inps : nat -> rin Res Err) (pf cp : nat) (evs : list ev)
         (i : nat),
    (4 * cp + 3 < pf)%nat ->
    let s := fold_left (step_st c inps pf cp) evs init in
    let s' := fst (step c inps pf cp s (Poll i)) in
    let o := snd (step c inps pf cp s (Poll i)) in
    (o_res o = Pending -> o_self o = false -> waiting (inps i) (now s) (reqs s' i)) /\
    (o_self o = true ->
       o_res o = Pending /\ woken s' i = true /\
       (cp <= S (attempt (reqs s' i) - attempt (reqs s i)))%nat /\
       match ph (reqs s' i) with
       | PSleeping _ => True
       | PCalling _ => fst (r_inner (inps i) (attempt (reqs s' i))) = true
       | _ => False
       end) /\
    (o_res o = Nothing -> ph (reqs s i) = PDone /\ reqs s' i = reqs s i) /\
    (forall x, o_res o = Ready x ->
       ph (reqs s i) <> PDone /\ ph (reqs s' i) = PDone /\ res (reqs s' i) = Some x /\
       match x with
       | inl _ => cs s' = Connected
       | inr (ConnectionFailedNoRetry _) => cs s' = Connected
       | inr (MaxAttemptsExceeded _ _) | inr (ConnectionFailed _) => cs s' = Disconnected
       | inr (ServiceError _) => cs s' = cs s \/ cs s' = Reconnecting
       end) /\
    ((attempt (reqs s i) < attempt (reqs s' i))%nat ->
       writer s' = Some i /\
       match ph (reqs s' i) with
       | PCalling _ | PSleeping _ | PReadying _ => cs s' = Reconnecting
       | _ => True
       end).
Proof. exact @poll_event. Qed.
Print Assumptions C16_poll_event.

(* exactness of the delay at poll granularity (a poll with budget left) *)
Theorem C16_poll_before_deadline :
  forall (Res Err : Type) (c : cfg Err) (inp : rin Res Err) (f k : nat) (t : Z)
         (r : rst Res Err) (dl : Z),
    ph r = PSleeping dl -> t < dl -> drive c inp (S f) (S k) t r = (r, [], Pending, false).
Proof. exact @poll_before_deadline. Qed.
Print Assumptions C16_poll_before_deadline.

Theorem C16_poll_at_deadline :
  forall (Res Err : Type) (c : cfg Err) (inp : rin Res Err) (f k : nat) (t : Z)
         (r : rst Res Err) (dl : Z) (e : Err),
    ph r = PSleeping dl -> dl <= t -> last_error r = Some e -> retry_on_reconnect c = true ->
    r_ready inp (attempt r) = ROk ->
    drive c inp (S (S f)) (S k) t r =
    drive c inp f k t (mkRst (PCalling (negb (fst (r_inner inp (attempt r))))) (attempt r)
                             (last_error r) t (log r) (res r)).
Proof. exact @poll_at_deadline. Qed.
Print Assumptions C16_poll_at_deadline.
