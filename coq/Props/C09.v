(* C09 — Half-open circuit breaker lets through at most the permitted trial calls.
   Model: Model/Circuit.v. Only statements, `exact`, and Print Assumptions. *)
From TR Require Import Lib.Base Model.Circuit Proof.Circuit.

(* In every reachable state in which the breaker is half-open, the trial calls started in the
   current half-open phase, not counting trials that were cancelled (dropped, or unwound by a
   panic) before their outcome was recorded and thereby handed their slot back, number at
   most permitted_calls_in_half_open — both window types, any number of concurrent callers,
   any poll order. [gstarts]/[ghand] are ghost counters of the model. *)
Theorem C09_half_open_bound :
  forall (cf : cfg) (evs : list ev),
    1 <= permitted cf ->
    Forall (fun s => state (circ s) = HalfOpen ->
                     gstarts s - ghand s <= permitted cf /\ 0 <= ghand s /\
                     admitted (circ s) <= permitted cf)
           (states (step_st cf) init evs).
Proof. exact half_open_bound. Qed.
Print Assumptions C09_half_open_bound.

(* slots are handed back only by cancellation (a Drop event, or a poll in which the inner
   call panics): without cancellations the bound is on all trial calls started *)
Theorem C09_handback_only_on_cancel :
  forall (cf : cfg) (s : st) (e : ev),
    0 <= ghand s ->
    ghand s < ghand (step_st cf s e) ->
    (exists i, e = Drop i) \/ (exists i, e = Poll i /\ r (snd (step cf s e)) = 5).
Proof. exact handback_only_on_cancel. Qed.
Print Assumptions C09_handback_only_on_cancel.

(* every inner call started while half-open (or by the call that makes the breaker half-open)
   is a trial of the phase and is counted *)
Theorem C09_trial_start_counted :
  forall (cf : cfg) (s : st) (i : nat),
    cs s i = Created -> gate s i = None ->
    (state (circ s) = HalfOpen \/ state (circ s) = Open) ->
    started (snd (poll cf s i)) = true ->
    let s' := fst (poll cf s i) in
    state (circ s') = HalfOpen /\
    gstarts s' = (if cstate_eqb (state (circ s)) HalfOpen then gstarts s + 1 else 1).
Proof. exact trial_start_counted. Qed.
Print Assumptions C09_trial_start_counted.

(* callers beyond the permitted number are rejected (OpenCircuit or fallback) and do not
   reach the inner service *)
Theorem C09_beyond_permitted_rejected :
  forall (cf : cfg) (s : st) (i : nat),
    state (circ s) = HalfOpen -> permitted cf <= admitted (circ s) -> cs s i = Created ->
    let s' := fst (poll cf s i) in let o := snd (poll cf s i) in
    r o = (if has_fallback cf then 4 else 3) /\ started o = false /\
    inflight s' = inflight s /\ circ s' = circ s.
Proof. exact beyond_permitted_rejected. Qed.
Print Assumptions C09_beyond_permitted_rejected.

(* ---- statements over what the trace shows (no ghost counters) ---- *)

(* One half-open phase, observed from outside: take any reachable state in which the breaker is
   not half-open and any continuation after every event of which it is half-open.  The inner
   calls started ([nstarts] = sum of the trace's `started` fields) exceed
   permitted_calls_in_half_open by at most the number of events that ended a call WITHOUT an
   outcome ([ncancel]: Drop events and polls with result code 5 = panic).  Such a trial hands
   its slot back (a cancelled trial must not wedge the breaker half-open), so "at most
   permitted trial calls reach the wrapped service" is true of trial calls that deliver an
   outcome or are still awaited, not of all trial calls ever started in the phase: see
   ex_phase_cancel in Proof/Circuit.v (permitted = 1, three starts in one phase). *)
Theorem C09_phase_trace :
  forall (cf : cfg) (evs0 evs : list ev),
    1 <= permitted cf ->
    let s := fold_left (step_st cf) evs0 init in
    state (circ s) <> HalfOpen -> stays_ho cf s evs ->
    nstarts cf s evs <= permitted cf + ncancel cf s evs.
Proof. exact phase_trace. Qed.
Print Assumptions C09_phase_trace.

(* under the property's own quantifier (every trial call runs to an outcome) the bound is on
   ALL inner calls started in the phase *)
Theorem C09_phase_trace_no_cancel :
  forall (cf : cfg) (evs0 evs : list ev),
    1 <= permitted cf ->
    let s := fold_left (step_st cf) evs0 init in
    state (circ s) <> HalfOpen -> stays_ho cf s evs -> ncancel cf s evs = 0 ->
    nstarts cf s evs <= permitted cf.
Proof. exact phase_trace_no_cancel. Qed.
Print Assumptions C09_phase_trace_no_cancel.

(* The independent trace monitor of gen/c09.py, transliterated to Gallina ([c09_step]: per
   half-open phase S = trial calls started, C = trial calls of the phase that ended without an
   outcome, M = callers whose trial is in flight; alarm (B) if S - C > permitted after an event
   of the phase, alarm (R) if a caller polled for the first time when S - C >= permitted is
   not rejected at once), accepts EVERY run of the model from its initial state. *)
Theorem C09_monitor_accepts :
  forall (cf : cfg) (evs : list ev),
    1 <= permitted cf -> c09_run cf c09_init init evs = true.
Proof. exact monitor_accepts. Qed.
Print Assumptions C09_monitor_accepts.

(* At every instant: any set of distinct callers whose inner call is in flight under a trial
   guard of the breaker's current phase has at most [admitted] elements, and at most
   permitted_calls_in_half_open while the breaker is half-open. *)
Theorem C09_trials_in_flight :
  forall (cf : cfg) (evs : list ev),
    1 <= permitted cf ->
    Forall (fun s => forall l, NoDup l -> (forall j, In j l -> holds_trial s j) ->
                       Z.of_nat (length l) <= admitted (circ s) /\
                       (state (circ s) = HalfOpen -> Z.of_nat (length l) <= permitted cf))
           (states (step_st cf) init evs).
Proof. exact trials_in_flight. Qed.
Print Assumptions C09_trials_in_flight.

(* ... so the guard's saturating subtraction on hand-back never saturates (the bound above is
   not helped by Z.max 0) *)
Theorem C09_handback_never_saturates :
  forall (cf : cfg) (evs : list ev),
    Forall (fun s => forall j, holds_trial s j -> 1 <= admitted (circ s))
           (states (step_st cf) init evs).
Proof. exact handback_exact. Qed.
Print Assumptions C09_handback_never_saturates.

(* the ghost start counter counts exactly the observable starts of the phase, whatever the
   polled caller's gate holds (strengthens C09_trial_start_counted: no gate hypothesis) ... *)
Theorem C09_starts_counted_in_phase :
  forall (cf : cfg) (s : st) (e : ev),
    state (circ s) = HalfOpen -> state (circ (step_st cf s e)) = HalfOpen ->
    gstarts (step_st cf s e) = gstarts s + b2z (started (snd (step cf s e))).
Proof. exact gstarts_step. Qed.
Print Assumptions C09_starts_counted_in_phase.

(* ... and the breaker becomes half-open in exactly one way: a poll, while it is open, that
   starts the first trial call of the new phase *)
Theorem C09_half_open_entered_by_first_trial :
  forall (cf : cfg) (s : st) (e : ev),
    state (circ s) <> HalfOpen -> state (circ (step_st cf s e)) = HalfOpen ->
    gstarts (step_st cf s e) = 1 /\ started (snd (step cf s e)) = true /\
    (exists i, e = Poll i) /\ state (circ s) = Open /\
    (r (snd (step cf s e)) <> 5 -> ghand (step_st cf s e) = 0) /\
    ghand (step_st cf s e) <= 1.
Proof. exact gstarts_enter. Qed.
Print Assumptions C09_half_open_entered_by_first_trial.

(* The LITERAL bound (all trial calls started in one phase <= permitted) is false as soon as
   trial calls may end without an outcome — even with no cancellation by any caller: panicking
   trials hand their slots back.  Witness: permitted = 1, three trial calls in one phase. *)
Theorem C09_literal_bound_refuted :
  exists (cf : cfg) (evs0 evs : list ev),
    1 <= permitted cf /\
    let s := fold_left (step_st cf) evs0 init in
    state (circ s) <> HalfOpen /\ stays_ho cf s evs /\ (forall i, ~ In (Drop i) evs) /\
    permitted cf < nstarts cf s evs.
Proof. exact literal_bound_refuted. Qed.
Print Assumptions C09_literal_bound_refuted.
