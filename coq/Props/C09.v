(* C09 — Half-open circuit breaker lets through at most the permitted trial calls.
   Model: Model/Circuit.v. Only statements, `exact`, and Print Assumptions. *)
From TR Require Import Lib.Base Model.Circuit Proof.Circuit.

(* In every reachable state in which the breaker is half-open, the trial calls started in the
   current half-open phase, not counting trials that were cancelled (dropped, or unwound by a
   panic) before their outcome was recorded and thereby handed their slot back, number at
   most permitted_calls_in_half_open — both window types, any number of concurrent callers,
   any poll order. [gstarts]/[ghand] are ghost counters of the model. *)
Theorem C09_half_open_bound :
  forall (cf : cfg) (evs : list ev),
    1 <= permitted cf ->
    Forall (fun s => state (circ s) = HalfOpen ->
                     gstarts s - ghand s <= permitted cf /\ 0 <= ghand s /\
                     admitted (circ s) <= permitted cf)
           (states (step_st cf) init evs).
Proof. exact half_open_bound. Qed.
Print Assumptions C09_half_open_bound.

(* slots are handed back only by cancellation (a Drop event, or a poll in which the inner
   call panics): without cancellations the bound is on all trial calls started *)
Theorem C09_handback_only_on_cancel :
  forall (cf : cfg) (s : st) (e : ev),
    0 <= ghand s ->
    ghand s < ghand (step_st cf s e) ->
    (exists i, e = Drop i) \/ (exists i, e = Poll i /\ r (snd (step cf s e)) = 5).
Proof. exact handback_only_on_cancel. Qed.
Print Assumptions C09_handback_only_on_cancel.

(* every inner call started while half-open (or by the call that makes the breaker half-open)
   is a trial of the phase and is counted *)
Theorem C09_trial_start_counted :
  forall (cf : cfg) (s : st) (i : nat),
    cs s i = Created -> gate s i = None ->
    (state (circ s) = HalfOpen \/ state (circ s) = Open) ->
    started (snd (poll cf s i)) = true ->
    let s' := fst (poll cf s i) in
    state (circ s') = HalfOpen /\
    gstarts s' = (if cstate_eqb (state (circ s)) HalfOpen then gstarts s + 1 else 1).
Proof. exact trial_start_counted. Qed.
Print Assumptions C09_trial_start_counted.

(* callers beyond the permitted number are rejected (OpenCircuit or fallback) and do not
   reach the inner service *)
Theorem C09_beyond_permitted_rejected :
  forall (cf : cfg) (s : st) (i : nat),
    state (circ s) = HalfOpen -> permitted cf <= admitted (circ s) -> cs s i = Created ->
    let s' := fst (poll cf s i) in let o := snd (poll cf s i) in
    r o = (if has_fallback cf then 4 else 3) /\ started o = false /\
    inflight s' = inflight s /\ circ s' = circ s.
Proof. exact beyond_permitted_rejected. Qed.
Print Assumptions C09_beyond_permitted_rejected.
