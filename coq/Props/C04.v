(* C04 — the circuit breaker follows the documented state machine.
   The transcribed Circuit (Model/Circuit.v: try_acquire / record / force_open / force_closed /
   reset, with its ring buffer, counters, timestamped records and lock-free state mirror)
   produces, on every sequential history and for every well-formed configuration, exactly the
   observations of the documented machine of Model/CircuitSpec.v (closed -> open when, with
   enough calls recorded, the failure rate or the slow-call rate over the sliding window reaches
   its threshold; open -> half-open on the first call after wait_duration_in_open; half-open ->
   closed after the permitted successes, -> open on any failure; reset; forced transitions).
   Only statements, `exact`, and Print Assumptions. *)
From TR Require Import Lib.Base Model.Circuit Model.CircuitSpec Proof.CircuitSpec Proof.CircuitSeq.

Theorem C04_refines_spec :
  forall (cf : cfg) (h : list hev),
    wf cf = true ->
    run_seq cf (0, new_circuit) h = run_spec cf (0, SClosed []) h.
Proof. exact refines_spec. Qed.
Print Assumptions C04_refines_spec.

(* state().await, state_sync()/is_open() and metrics().state never disagree *)
Theorem C04_views_agree :
  forall (cf : cfg) (h : list hev),
    wf cf = true ->
    Forall (fun o => o_state o = o_sync o /\ o_sync o = o_metrics_state o)
           (run_seq cf (0, new_circuit) h).
Proof. exact views_agree. Qed.
Print Assumptions C04_views_agree.

(* The sequential driver is the service-level model (the one run against the implementation)
   used by one client at a time.  One call = first poll (try_acquire), the clock advances by
   the latency, the inner service completes with outcome o, second poll (record): the
   circuit ends up exactly as seq_step's HCall says, with the same invoked flag; the clock
   too when the call was admitted (a rejected caller that lets l ms pass anyway has waited:
   seq_step's rejected call takes no time). *)
Theorem C04_service_sequential_call :
  forall (cf : cfg) (s : st) (i : nat) (o : outcome) (l : Z),
    cs s i = Created -> gate s i = None -> o <> OPanic -> o <> OCPanic -> 0 <= l ->
    let s1 := step_st cf s (Poll i) in let s2 := step_st cf s1 (Advance l) in
    let s3 := step_st cf s2 (Complete i o) in let s4 := step_st cf s3 (Poll i) in
    let '(p', inv) := seq_step cf (now s, circ s) (HCall (fail_of o) l) in
    circ s4 = snd p' /\
    now s4 = (if started (snd (step cf s (Poll i))) then fst p' else fst p' + l) /\
    Some (started (snd (step cf s (Poll i)))) = inv.
Proof. exact sequential_call. Qed.
Print Assumptions C04_service_sequential_call.

(* admitted call: the four service steps are exactly seq_step (circuit, clock, invoked) *)
Theorem C04_service_sequential_call_admitted :
  forall (cf : cfg) (s : st) (i : nat) (o : outcome) (l : Z),
    cs s i = Created -> gate s i = None -> o <> OPanic -> o <> OCPanic ->
    snd (try_acquire (now s) cf (circ s)) = true ->
    let s1 := step_st cf s (Poll i) in let s2 := step_st cf s1 (Advance l) in
    let s3 := step_st cf s2 (Complete i o) in let s4 := step_st cf s3 (Poll i) in
    seq_step cf (now s, circ s) (HCall (fail_of o) l) = ((now s4, circ s4), Some true) /\
    started (snd (step cf s (Poll i))) = true /\
    (forall j, cs s4 j = upd (cs s) i Done j) /\ gate s4 = upd (gate s) i (Some o).
Proof. exact sequential_call_admitted. Qed.
Print Assumptions C04_service_sequential_call_admitted.

(* rejected call: the first poll is the whole call; the inner service is not invoked *)
Theorem C04_service_sequential_call_rejected :
  forall (cf : cfg) (s : st) (i : nat) (f : bool) (l : Z),
    cs s i = Created -> snd (try_acquire (now s) cf (circ s)) = false ->
    let s1 := step_st cf s (Poll i) in
    seq_step cf (now s, circ s) (HCall f l) = ((now s1, circ s1), Some false) /\
    started (snd (step cf s (Poll i))) = false /\
    (forall j, cs s1 j = upd (cs s) i Done j) /\ gate s1 = gate s.
Proof. exact sequential_call_rejected. Qed.
Print Assumptions C04_service_sequential_call_rejected.

(* whole histories: a sequential client (fresh caller id per call; a rejected call returns at
   once) drives the service model from init with script_of_history; what it observes after
   each history event (state, state_sync, metrics, invoked flag — service_obs) is what the
   documented machine prescribes.  oc chooses the inner result realising a classifier verdict. *)
Theorem C04_service_history_refines_spec :
  forall (cf : cfg) (oc : bool -> outcome),
    (forall f, fail_of (oc f) = f /\ oc f <> OPanic /\ oc f <> OCPanic) ->
    forall h : list hev,
      wf cf = true ->
      service_obs cf oc init 0 h = run_spec cf (0, SClosed []) h.
Proof. exact service_history_refines_spec. Qed.
Print Assumptions C04_service_history_refines_spec.

(* service_obs observes a genuine run of the service model's step over script_of_history *)
Theorem C04_service_history_is_a_run :
  forall (cf : cfg) (oc : bool -> outcome) (s : st) (i : nat) (h : list hev),
    fold_left (step_st cf) (script_of_history cf oc s i h) s = final_state cf oc s i h.
Proof. exact script_runs. Qed.
Print Assumptions C04_service_history_is_a_run.

(* The count-based counters describe the ring buffer exactly in EVERY reachable state of the
   service model (concurrent callers, outcomes recorded while open or half-open, cancellations,
   panics), so none of them is ever negative: the code's `usize` decrements cannot underflow. *)
Theorem C04_counts_consistent :
  forall (cf : cfg) (evs : list ev),
    Forall (fun s => counts_ok (circ s) /\ 0 <= fc (circ s) /\ 0 <= sc (circ s) /\
                     0 <= tc (circ s) /\ 0 <= slowc (circ s))
           (states (step_st cf) init evs).
Proof. exact counts_consistent. Qed.
Print Assumptions C04_counts_consistent.

(* "the rate reaches its threshold", independently of the arithmetic shared by model and spec:
   rate_ge is the comparison of the rationals num/den <= cnt/total whenever total > 0 ... *)
Theorem C04_rate_is_rational_comparison :
  forall cnt total num den : Z,
    0 < total -> 0 < den ->
    (rate_ge cnt total num den = true <->
     QArith_base.Qle (QArith_base.Qmake num (Z.to_pos den)) (QArith_base.Qmake cnt (Z.to_pos total))).
Proof. exact rate_ge_rational. Qed.
Print Assumptions C04_rate_is_rational_comparison.

(* ... and the documented machine only ever judges a non-empty window (it contains the call just
   recorded): a closed breaker opens on a call exactly when enough calls are recorded and the
   failure rate, or the enabled slow-call rate, over the window is >= its threshold as rationals. *)
Theorem C04_trip_condition_meaning :
  forall (cf : cfg) (t : Z) (hist : list (Z * bool * bool)) (f sl : bool),
    wf cf = true ->
    let hist' := hist ++ [(t, f, sl)] in
    let w := window cf t hist' in
    let n := Z.of_nat (length w) in
    0 < n /\
    (trips cf t hist' = true <->
     enough cf t hist' = true /\
     (QArith_base.Qle (QArith_base.Qmake (fnum cf) (Z.to_pos (fden cf)))
                      (QArith_base.Qmake (count_fail w) (Z.to_pos n)) \/
      (slow_on cf = true /\
       QArith_base.Qle (QArith_base.Qmake (snum cf) (Z.to_pos (sden cf)))
                       (QArith_base.Qmake (count_slow w) (Z.to_pos n))))).
Proof. exact trips_meaning. Qed.
Print Assumptions C04_trip_condition_meaning.
