(* C04 — the circuit breaker follows the documented state machine.
   The transcribed Circuit (Model/Circuit.v: try_acquire / record / force_open / force_closed /
   reset, with its ring buffer, counters, timestamped records and lock-free state mirror)
   produces, on every sequential history and for every well-formed configuration, exactly the
   observations of the documented machine of Model/CircuitSpec.v (closed -> open when, with
   enough calls recorded, the failure rate or the slow-call rate over the sliding window reaches
   its threshold; open -> half-open on the first call after wait_duration_in_open; half-open ->
   closed after the permitted successes, -> open on any failure; reset; forced transitions).
   Only statements, `exact`, and Print Assumptions. *)
From TR Require Import Lib.Base Model.Circuit Model.CircuitSpec Proof.CircuitSpec.

Theorem C04_refines_spec :
  forall (cf : cfg) (h : list hev),
    wf cf = true ->
    run_seq cf (0, new_circuit) h = run_spec cf (0, SClosed []) h.
Proof. exact refines_spec. Qed.
Print Assumptions C04_refines_spec.

(* state().await, state_sync()/is_open() and metrics().state never disagree *)
Theorem C04_views_agree :
  forall (cf : cfg) (h : list hev),
    wf cf = true ->
    Forall (fun o => o_state o = o_sync o /\ o_sync o = o_metrics_state o)
           (run_seq cf (0, new_circuit) h).
Proof. exact views_agree. Qed.
Print Assumptions C04_views_agree.
