(* C01 — Bulkhead never lets more than max_concurrent_calls into the inner service.
   Model: Model/Bulkhead.v (poll-granular model of Bulkhead::call over tokio's fair
   semaphore and time::timeout). Quantified over every configuration and every list of
   events: polls of any caller in any order, cancellations at any point, clock advances,
   inner completions with ok / error / panic (a call never completed = no Complete event).
   Only statements, `exact`, and Print Assumptions. *)
From TR Require Import Lib.Base Model.Bulkhead Proof.Bulkhead.

(* In every reachable state the requests inside the inner service (started, not yet
   finished / failed / panicked / dropped) are exactly the Running callers, each counted
   once, and there are at most cap of them — for all clones (one semaphore). *)
Theorem C01_inflight_le_cap :
  forall (c : cfg) (evs : list ev),
    Forall (fun s => (inflight s <= cap c)%nat /\ NoDup (running s) /\
                     (forall i, In i (running s) <-> cs s i = Running))
           (states (step_st c) (init c) evs).
Proof. exact inflight_le_cap. Qed.
Print Assumptions C01_inflight_le_cap.

(* a request that has not been admitted (never polled, or still waiting) is not inside *)
Theorem C01_only_admitted_enter :
  forall (c : cfg) (evs : list ev),
    Forall (Inv c) (states (step_st c) (init c) evs).
Proof. exact reach_Inv. Qed.
Print Assumptions C01_only_admitted_enter.
