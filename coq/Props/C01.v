(* C01 — Bulkhead never lets more than max_concurrent_calls into the inner service.
   Model: Model/Bulkhead.v (poll-granular model of Bulkhead::call over tokio's fair
   semaphore and time::timeout). Quantified over every configuration and every list of
   events: polls of any caller in any order, cancellations at any point, clock advances,
   inner completions with ok / error / panic (a call never completed = no Complete event).
   Only statements, `exact`, and Print Assumptions. *)
From TR Require Import Lib.Base Model.Bulkhead Proof.Bulkhead.

(* In every reachable state the requests inside the inner service (started, not yet
   finished / failed / panicked / dropped) are exactly the Running callers, each counted
   once, and there are at most cap of them.  (The model has one semaphore and no notion of a
   clone or service handle: that all handles of one bulkhead share it is exercised by the
   driver's handle flags, not modelled.) *)
Theorem C01_inflight_le_cap :
  forall (c : cfg) (evs : list ev),
    Forall (fun s => (inflight s <= cap c)%nat /\ NoDup (running s) /\
                     (forall i, In i (running s) <-> cs s i = Running))
           (states (step_st c) (init c) evs).
Proof. exact inflight_le_cap. Qed.
Print Assumptions C01_inflight_le_cap.

(* a request that has not been admitted (never polled, or still waiting) is not inside:
   the whole invariant (Proof/Bulkhead.v: G = permit conservation and list discipline,
   Cj = per-caller state vs. lists and ghosts); its readable consequence is the next theorem *)
Theorem C01_only_admitted_enter :
  forall (c : cfg) (evs : list ev),
    Forall (Inv c) (states (step_st c) (init c) evs).
Proof. exact reach_Inv. Qed.
Print Assumptions C01_only_admitted_enter.

(* ... in readable form: in every reachable state a caller's request has reached the inner
   service (ghost [entered], set only where the model starts the inner call) only if the
   caller was admitted (it is Running, or finished, or was dropped -- never Created or
   waiting), every Running caller's request has, and the running list is exactly the Running
   callers *)
Theorem C01_entered_iff_admitted :
  forall (c : cfg) (evs : list ev),
    Forall (fun s => forall j,
              (cs s j = Running -> entered s j = true /\ In j (running s)) /\
              (entered s j = true -> cs s j = Running \/ cs s j = Done \/ cs s j = Dropped) /\
              (In j (running s) -> cs s j = Running))
           (states (step_st c) (init c) evs).
Proof. exact entered_iff_admitted. Qed.
Print Assumptions C01_entered_iff_admitted.

(* "at every instant", also INSIDE a poll: the in-flight count the inner service sees when
   a call is started (the intermediate state in which the caller already runs; the same poll
   may take it out again when its gate is already complete) is at most cap, and it counts
   the new call *)
Theorem C01_seen_le_cap :
  forall (c : cfg) (s : st) (i : nat),
    Inv c s -> 0 <= seen (snd (poll c s i)) <= Z.of_nat (cap c).
Proof. exact seen_le_cap. Qed.
Print Assumptions C01_seen_le_cap.

Theorem C01_seen_counts_the_new_call :
  forall (c : cfg) (s : st) (i : nat),
    Inv c s -> started (snd (poll c s i)) = true ->
    seen (snd (poll c s i)) = Z.of_nat (S (length (running s))).
Proof. exact seen_counts_the_new_call. Qed.
Print Assumptions C01_seen_counts_the_new_call.

(* the count is the property's count: "requests that have entered and have not yet finished,
   failed, panicked or been dropped", computed from the OBSERVATIONS of the run alone
   ([inside]: +i at a poll of i that started an inner call, -i at a poll of i that returned
   Ok / Err(Inner) / panicked, -i at a drop of i), is the model's running list after every
   history, hence at most cap and duplicate-free *)
Theorem C01_running_is_history :
  forall (c : cfg) (evs : list ev),
    running (fold_left (step_st c) evs (init c)) = inside (history c evs).
Proof. exact running_is_history. Qed.
Print Assumptions C01_running_is_history.

Theorem C01_history_count_le_cap :
  forall (c : cfg) (evs : list ev),
    (length (inside (history c evs)) <= cap c)%nat /\ NoDup (inside (history c evs)).
Proof. exact history_count_le_cap. Qed.
Print Assumptions C01_history_count_le_cap.

(* the statement about run_script, the function whose output bin/check compares with the
   implementation's trace: for EVERY script, in every row the in-flight count after the event
   (column 4) and the count seen by the inner service at a start (column 2) are within 0..cap *)
Theorem C01_trace_inflight_and_seen_le_cap :
  forall (sc : list Z),
    let capz := Z.of_nat (cap (cfg_of sc)) in
    Forall (fun x => 0 <= x <= capz) (col6 4 (run_script sc)) /\
    Forall (fun x => 0 <= x <= capz) (col6 2 (run_script sc)).
Proof. exact trace_inflight_and_seen_le_cap. Qed.
Print Assumptions C01_trace_inflight_and_seen_le_cap.
