(* C10 — Cache hits return the latest unexpired value of the right key; size is bounded.
   Model: Model/Cache.v (Cache::call over CacheStore and the LRU / LFU / FIFO containers,
   private and shared stores). Quantified over every configuration (policy, max_size >= 1
   where a bound on the size is claimed, TTL absent or any, private/shared), every list of
   events (calls on any service with any key, polls in any order, cancellations, clock
   advances, inner completions ok / error / panic / never) and every oracle value (the LFU
   victim among ties). `spec` is the reference cache: a map store -> key -> (value, instant,
   frequency, index of last use, index of insertion) computed from the observations alone;
   `latest_of` is the last value stored for a store and key.
   Only statements, `exact`, and Print Assumptions. *)
From TR Require Import Lib.Base Model.Cache Proof.Cache.

(* Refinement: after every history the model's stores, read as maps, are exactly the
   reference cache of the observations made so far. *)
Theorem C10_refines_reference_cache :
  forall (c : cfg) (evs : list ev) (sid : nat) (k : Z),
    lookup k (stores (final c (init c) evs) sid) = snd (spec (trace c (init c) evs)) sid k.
Proof. exact refines_map. Qed.
Print Assumptions C10_refines_reference_cache.

(* A hit for key k in store sid returns exactly the value most recently stored for (sid, k) —
   never another key's, never a superseded one — and that value is not older than the TTL. *)
Theorem C10_hit_latest :
  forall (c : cfg) (evs : list ev) (e : ev) (sid : nat) (k v : Z),
    o_hit (snd (step c (final c (init c) evs) e)) = Some (sid, k, v) ->
    exists a, snd (spec (trace c (init c) evs)) sid k = Some a /\ e_val a = v /\
      latest_of (trace c (init c) evs) sid k = Some (v, e_time a) /\
      e_time a <= now (final c (init c) evs) /\
      forall d, ttl c = Some d -> now (final c (init c) evs) - e_time a <= d.
Proof. exact hit_latest. Qed.
Print Assumptions C10_hit_latest.

(* latest_of is what it says: the last Stored observation for that store and key *)
Theorem C10_latest_is_last_stored :
  forall (tr : list obs) (sid : nat) (k v t : Z),
    latest_of tr sid k = Some (v, t) <->
    exists tr1 o tr2, tr = tr1 ++ o :: tr2 /\ o_stored o = Some (sid, k, v, t) /\
                      forall o', In o' tr2 -> ~ stores_to sid k o'.
Proof. exact latest_is_last_stored. Qed.
Print Assumptions C10_latest_is_last_stored.

(* the future of a hit resolves to the value the lookup found, without touching any store *)
Theorem C10_hit_future_returns_value :
  forall (c : cfg) (s : st) (i : nat) (orc v : Z),
    cs s i = HitReady v ->
    o_r (snd (step c s (Poll i orc))) = 1 /\ o_val (snd (step c s (Poll i orc))) = v /\
    o_started (snd (step c s (Poll i orc))) = None /\
    forall sid, stores (step_st c s (Poll i orc)) sid = stores s sid.
Proof. exact poll_hit. Qed.
Print Assumptions C10_hit_future_returns_value.

(* a lookup hits exactly when the store of that service holds an entry for the key that is
   not older than the TTL (elapsed > ttl expires; elapsed = ttl still hits); an expired
   entry is removed; otherwise the inner service is called — also when misses for the same
   key are already in flight *)
Theorem C10_hit_iff_present_and_fresh :
  forall (c : cfg) (s : st) (i svc : nat) (k : Z),
    cs s i = Fresh ->
    match lookup k (stores s (sid_of c svc)) with
    | Some a =>
      if expired (ttl c) (now s) a
      then o_hit (snd (step c s (Call i svc k))) = None /\
           o_started (snd (step c s (Call i svc k))) = Some i /\
           o_exp (snd (step c s (Call i svc k))) = Some (sid_of c svc, k) /\
           cs (step_st c s (Call i svc k)) i = Running (sid_of c svc) k
      else o_hit (snd (step c s (Call i svc k))) = Some (sid_of c svc, k, e_val a) /\
           o_started (snd (step c s (Call i svc k))) = None /\
           cs (step_st c s (Call i svc k)) i = HitReady (e_val a)
    | None => o_hit (snd (step c s (Call i svc k))) = None /\
              o_started (snd (step c s (Call i svc k))) = Some i /\
              cs (step_st c s (Call i svc k)) i = Running (sid_of c svc) k
    end.
Proof. exact hit_iff. Qed.
Print Assumptions C10_hit_iff_present_and_fresh.

(* a hit does not call the inner service ... *)
Theorem C10_hit_no_inner_call :
  forall (c : cfg) (s : st) (e : ev),
    o_hit (snd (step c s e)) <> None -> o_started (snd (step c s e)) = None.
Proof. exact hit_no_inner_call. Qed.
Print Assumptions C10_hit_no_inner_call.

(* ... neither then nor later; a miss calls it exactly once: over the whole history the
   number of inner calls made for caller i is 1 if its lookup missed and 0 if it hit *)
Theorem C10_miss_calls_once :
  forall (c : cfg) (evs1 : list ev) (i svc : nat) (k : Z) (evs2 : list ev),
    (forall svc' k', ~ In (Call i svc' k') evs1) ->
    count_started i (trace c (init c) (evs1 ++ Call i svc k :: evs2)) =
    match o_hit (snd (step c (final c (init c) evs1) (Call i svc k))) with
    | Some _ => 0%nat
    | None => 1%nat
    end.
Proof. exact miss_calls_once. Qed.
Print Assumptions C10_miss_calls_once.

Theorem C10_inner_calls_le_one :
  forall (c : cfg) (evs : list ev) (i : nat),
    (count_started i (trace c (init c) evs) <= 1)%nat.
Proof. exact inner_calls_le_one. Qed.
Print Assumptions C10_inner_calls_le_one.

Theorem C10_no_call_no_inner :
  forall (c : cfg) (evs : list ev) (i : nat),
    (forall svc k, ~ In (Call i svc k) evs) -> count_started i (trace c (init c) evs) = 0%nat.
Proof. exact no_call_no_inner. Qed.
Print Assumptions C10_no_call_no_inner.

(* the inner service is called only by the lookup of a fresh call that missed *)
Theorem C10_inner_called_only_on_miss :
  forall (c : cfg) (s : st) (e : ev) (j : nat),
    o_started (snd (step c s e)) = Some j ->
    exists svc k, e = Call j svc k /\ cs s j = Fresh /\ o_hit (snd (step c s e)) = None.
Proof. exact started_only_miss. Qed.
Print Assumptions C10_inner_called_only_on_miss.

(* errors (and panics) are never cached: the poll that delivers them changes no store ... *)
Theorem C10_errors_not_cached :
  forall (c : cfg) (s : st) (i : nat) (orc : Z) (sid : nat) (k : Z),
    cs s i = Running sid k -> (gate s i = Some OErr \/ gate s i = Some OPanic) ->
    (o_r (snd (step c s (Poll i orc))) = 2 \/ o_r (snd (step c s (Poll i orc))) = 5) /\
    o_stored (snd (step c s (Poll i orc))) = None /\
    forall sid', stores (step_st c s (Poll i orc)) sid' = stores s sid'.
Proof. exact errors_not_cached. Qed.
Print Assumptions C10_errors_not_cached.

(* ... a value is stored only by the poll that completes a miss with Ok: under the key of
   that miss, the inner response itself, stamped with the current instant ... *)
Theorem C10_stored_only_ok_responses :
  forall (c : cfg) (s : st) (e : ev) (sid : nat) (k v t : Z),
    o_stored (snd (step c s e)) = Some (sid, k, v, t) ->
    exists i orc, e = Poll i orc /\ cs s i = Running sid k /\ gate s i = Some (OOk v) /\
                  t = now s /\ o_r (snd (step c s e)) = 1 /\ o_val (snd (step c s e)) = v.
Proof. exact stored_only_ok. Qed.
Print Assumptions C10_stored_only_ok_responses.

(* ... and no other event puts a value into a store or alters one *)
Theorem C10_values_only_from_ok :
  forall (c : cfg) (s : st) (e : ev),
    o_stored (snd (step c s e)) = None ->
    forall sid k a', lookup k (stores (step_st c s e) sid) = Some a' ->
    exists a, lookup k (stores s sid) = Some a /\ e_val a = e_val a' /\ e_time a = e_time a'.
Proof. exact values_only_from_ok. Qed.
Print Assumptions C10_values_only_from_ok.

(* the cache never holds more than max_size entries — all three policies, every store *)
Theorem C10_size_le_max :
  forall (c : cfg) (evs : list ev),
    (1 <= max_size c)%nat ->
    Forall (fun s => forall sid, (length (stores s sid) <= max_size c)%nat)
           (states (step_st c) (init c) evs).
Proof. exact size_le_max. Qed.
Print Assumptions C10_size_le_max.

(* one entry per key *)
Theorem C10_keys_nodup :
  forall (c : cfg) (evs : list ev),
    Forall (fun s => forall sid, NoDup (map e_key (stores s sid)))
           (states (step_st c) (init c) evs).
Proof. exact keys_nodup. Qed.
Print Assumptions C10_keys_nodup.

(* When an insert evicts: the store was full (max_size entries), the inserted key was absent,
   the victim was present and is gone afterwards, and among the entries present
   — LRU: every other entry was used (hit, stored or updated) later than the victim; *)
Theorem C10_victim_lru :
  forall (c : cfg) (evs : list ev) (e : ev) (sid : nat) (x : Z),
    pol c = Lru -> (1 <= max_size c)%nat ->
    o_victim (snd (step c (final c (init c) evs) e)) = Some (sid, x) ->
    exists ve, snd (spec (trace c (init c) evs)) sid x = Some ve /\
      (forall k' a', snd (spec (trace c (init c) evs)) sid k' = Some a' -> k' <> x ->
                     e_used ve < e_used a') /\
      length (stores (final c (init c) evs) sid) = max_size c /\
      (exists k v t, o_stored (snd (step c (final c (init c) evs) e)) = Some (sid, k, v, t) /\
                     snd (spec (trace c (init c) evs)) sid k = None) /\
      lookup x (stores (step_st c (final c (init c) evs) e) sid) = None.
Proof. exact victim_lru. Qed.
Print Assumptions C10_victim_lru.

(* — LFU: no entry has a lower frequency than the victim (for every oracle); *)
Theorem C10_victim_lfu :
  forall (c : cfg) (evs : list ev) (e : ev) (sid : nat) (x : Z),
    pol c = Lfu -> (1 <= max_size c)%nat ->
    o_victim (snd (step c (final c (init c) evs) e)) = Some (sid, x) ->
    exists ve, snd (spec (trace c (init c) evs)) sid x = Some ve /\
      (forall k' a', snd (spec (trace c (init c) evs)) sid k' = Some a' -> e_freq ve <= e_freq a') /\
      length (stores (final c (init c) evs) sid) = max_size c /\
      (exists k v t, o_stored (snd (step c (final c (init c) evs) e)) = Some (sid, k, v, t) /\
                     snd (spec (trace c (init c) evs)) sid k = None) /\
      lookup x (stores (step_st c (final c (init c) evs) e) sid) = None.
Proof. exact victim_lfu. Qed.
Print Assumptions C10_victim_lfu.

(* — FIFO: every other entry became present later than the victim (updates keep the place). *)
Theorem C10_victim_fifo :
  forall (c : cfg) (evs : list ev) (e : ev) (sid : nat) (x : Z),
    pol c = Fifo -> (1 <= max_size c)%nat ->
    o_victim (snd (step c (final c (init c) evs) e)) = Some (sid, x) ->
    exists ve, snd (spec (trace c (init c) evs)) sid x = Some ve /\
      (forall k' a', snd (spec (trace c (init c) evs)) sid k' = Some a' -> k' <> x ->
                     e_ins ve < e_ins a') /\
      length (stores (final c (init c) evs) sid) = max_size c /\
      (exists k v t, o_stored (snd (step c (final c (init c) evs) e)) = Some (sid, k, v, t) /\
                     snd (spec (trace c (init c) evs)) sid k = None) /\
      lookup x (stores (step_st c (final c (init c) evs) e) sid) = None.
Proof. exact victim_fifo. Qed.
Print Assumptions C10_victim_fifo.

(* nothing leaves a store except the victim of an insert and an entry found expired by a lookup *)
Theorem C10_no_spurious_loss :
  forall (c : cfg) (s : st) (e : ev) (sid : nat) (k : Z) (a : entry),
    lookup k (stores s sid) = Some a ->
    lookup k (stores (step_st c s e) sid) = None ->
    o_victim (snd (step c s e)) = Some (sid, k) \/ o_exp (snd (step c s e)) = Some (sid, k).
Proof. exact no_spurious_loss. Qed.
Print Assumptions C10_no_spurious_loss.

(* Concurrent misses on one key: a caller whose inner call is in flight was passed to the
   inner service exactly once (so two of them: two inner calls) ... *)
Theorem C10_running_called_once :
  forall (c : cfg) (evs : list ev) (i sid : nat) (k : Z),
    cs (final c (init c) evs) i = Running sid k ->
    count_started i (trace c (init c) evs) = 1%nat.
Proof. exact running_called_once. Qed.
Print Assumptions C10_running_called_once.

(* ... each returns its own inner response, both are stored, and the later completion's
   value is the one the store holds (hence, by C10_hit_latest, the one later hits return) *)
Theorem C10_concurrent_misses_later_wins :
  forall (c : cfg) (s : st) (i j sid : nat) (k vi vj o1 o2 : Z),
    i <> j ->
    cs s i = Running sid k -> cs s j = Running sid k ->
    gate s i = Some (OOk vi) -> gate s j = Some (OOk vj) ->
    o_r (snd (step c s (Poll i o1))) = 1 /\ o_val (snd (step c s (Poll i o1))) = vi /\
    o_stored (snd (step c s (Poll i o1))) = Some (sid, k, vi, now s) /\
    o_r (snd (step c (step_st c s (Poll i o1)) (Poll j o2))) = 1 /\
    o_val (snd (step c (step_st c s (Poll i o1)) (Poll j o2))) = vj /\
    o_stored (snd (step c (step_st c s (Poll i o1)) (Poll j o2))) = Some (sid, k, vj, now s) /\
    exists a, lookup k (stores (step_st c (step_st c s (Poll i o1)) (Poll j o2)) sid) = Some a /\
              e_val a = vj /\ e_time a = now s.
Proof. exact concurrent_misses. Qed.
Print Assumptions C10_concurrent_misses_later_wins.

(* ... in general: whatever misses overlapped and in whatever order they completed, the entry a
   store holds for a key is the response stored last for it, with the instant of that store *)
Theorem C10_overlapping_misses_last_stored_wins :
  forall (c : cfg) (evs : list ev) (sid : nat) (k v t : Z),
    latest_of (trace c (init c) evs) sid k = Some (v, t) ->
    forall a, lookup k (stores (final c (init c) evs) sid) = Some a -> e_val a = v /\ e_time a = t.
Proof. exact last_stored_wins. Qed.
Print Assumptions C10_overlapping_misses_last_stored_wins.

(* What "frequently", "recently" and "first in" mean in C10_victim_lfu / _lru / _fifo, as functions of
   the history alone.  `uses sid k o`: observation o is a lookup that found (sid, k) or a response stored
   under (sid, k); `leaves sid k o`: o evicts (sid, k) or finds it expired.
   The frequency of an entry is 1 + the number of uses since the observation that made the key present
   (the code's LfuStore: 1 at insert, +1 per get, +1 per overwrite; the property does not fix this reading,
   the monitor in gen/c10.py accepts hits-only and reset-on-overwrite as well); *)
Theorem C10_freq_counts_uses :
  forall (c : cfg) (evs : list ev) (sid : nat) (k : Z) (a : entry),
    snd (spec (trace c (init c) evs)) sid k = Some a ->
    e_freq a = 1 + Z.of_nat (length (filter (uses sid k)
                   (skipn (S (Z.to_nat (e_ins a))) (trace c (init c) evs)))).
Proof. exact freq_counts_uses. Qed.
Print Assumptions C10_freq_counts_uses.

(* e_ins is the index of the observation that stored the key while it was absent (or evicted/expired by
   that very observation), and the key has not left the store since; *)
Theorem C10_ins_is_insertion :
  forall (c : cfg) (evs : list ev) (sid : nat) (k : Z) (a : entry),
    snd (spec (trace c (init c) evs)) sid k = Some a ->
    0 <= e_ins a < Z.of_nat (length evs) /\
    (exists o, nth_error (trace c (init c) evs) (Z.to_nat (e_ins a)) = Some o /\ stores_on sid k o = true /\
       (snd (spec (firstn (Z.to_nat (e_ins a)) (trace c (init c) evs))) sid k = None \/ leaves sid k o = true)) /\
    forall o, In o (skipn (S (Z.to_nat (e_ins a))) (trace c (init c) evs)) -> leaves sid k o = false.
Proof. exact ins_is_insertion. Qed.
Print Assumptions C10_ins_is_insertion.

(* e_used is the index of the last observation that used the entry. *)
Theorem C10_used_is_last_use :
  forall (c : cfg) (evs : list ev) (sid : nat) (k : Z) (a : entry),
    snd (spec (trace c (init c) evs)) sid k = Some a ->
    e_ins a <= e_used a /\
    (exists o, nth_error (trace c (init c) evs) (Z.to_nat (e_used a)) = Some o /\ uses sid k o = true) /\
    forall o, In o (skipn (S (Z.to_nat (e_used a))) (trace c (init c) evs)) -> uses sid k o = false.
Proof. exact used_is_last_use. Qed.
Print Assumptions C10_used_is_last_use.

(* The theorems above speak about `trace c (init c) evs` and `final c (init c) evs`; the trace that
   run_script prints (and bin/check compares with the implementation's) is a rendering of exactly these:
   record j shows observation j and the state after event j (result, value, inner call started, callers
   with an inner call in flight, listener bits, one bit per entry of stores 0 and 1 in two words each). *)
Theorem C10_run_script_prints_the_history :
  forall (sc : list Z),
    let c := cfg_of sc in
    let n := Z.to_nat (zn sc 4) in
    let m := Z.to_nat (zn sc 5) in
    let evs := evs_of (unit_of sc) n (chunk3 (firstn (3 * m) (skipn 6 sc))) (skipn (3 * m) (skipn 6 sc)) in
    run_script sc = concat (map (record c n (init c) evs) (seq 0 (length evs))).
Proof. exact run_script_records. Qed.
Print Assumptions C10_run_script_prints_the_history.

(* Caveat to C10_hit_latest: the TTL bounds the age of a value at the LOOKUP (in call()); the future of a
   hit keeps the value it found (C10_hit_future_returns_value holds in every later state), so the age at
   delivery is unbounded: with ttl 0, a value stored at instant 0 is handed over at any instant D. *)
Theorem C10_delivery_age_unbounded :
  forall (D : Z), 0 <= D ->
    let c := ex_cfg Lru 1 (Some 0) false in
    let evs := [Call 0 0 5; Complete 0 (OOk 7); Poll 0 (-1); Call 1 0 5; Advance D] in
    o_stored (snd (step c (final c (init c) (firstn 2 evs)) (Poll 0 (-1)))) = Some (0%nat, 5, 7, 0) /\
    now (final c (init c) evs) = D /\
    o_r (snd (step c (final c (init c) evs) (Poll 1 (-1)))) = 1 /\
    o_val (snd (step c (final c (init c) evs) (Poll 1 (-1)))) = 7.
Proof. exact delivery_age_unbounded. Qed.
Print Assumptions C10_delivery_age_unbounded.
