(* C20 — Layers are transparent, honour Tower readiness; listeners only observe.
   Model: Model/Layers.v. Only statements, `exact`, and Print Assumptions. *)
From TR Require Import Lib.Base Model.Layers Proof.Layers.

(* Readiness. For EVERY stack of layers (any depth, any order of the five call disciplines
   Swap / Direct / Retry k / Hedge k / Reconnect k that the thirteen middleware follow), every
   list of requests issued by a contract-respecting client and every readiness script of the
   wrapped service (Ready / Pending / Err at any poll, including the polls made before retries
   and hedged attempts): the wrapped service never sees a call on an instance that has not
   been polled Ready since that instance's previous call. *)
Theorem C20_stack_honours_readiness :
  forall (fuel : nat) (ds : list disc) (orc : list rres) (reqs : list Z),
    let b := snd (fst (client fuel ds (map (fun _ => init_l) ds) (init_base orc) reqs)) in
    violations b = 0%nat /\ all_calls_ready (blog b).
Proof. exact stack_honours_readiness. Qed.
Print Assumptions C20_stack_honours_readiness.

(* Each layer discipline, on top of ANY service that honours the instance interface
   (poll sets readiness of that instance only, clone yields a fresh instance, a call on a ready
   instance raises no violation), honours the same interface towards its own client. *)
Theorem C20_layer_preserves_contract :
  forall (T : Type) (sub : T -> op -> T * ans) (F : iface T),
    spec sub F -> forall (fuel : nat) (d : disc), spec (lsub sub fuel d) (layer_iface F).
Proof. exact @layer_spec. Qed.
Print Assumptions C20_layer_preserves_contract.

(* readiness answers (including errors) surface unchanged through any stack *)
Theorem C20_readiness_answers_surface :
  forall (fuel : nat) (ds : list disc) (ls : list lstate) (b : base) (x : nat),
    length ls = length ds ->
    snd (execp fuel ds (ls, b) (OPoll x)) =
    ARes (match oracle b with r :: _ => r | [] => RReady end).
Proof. exact poll_passes_through. Qed.
Print Assumptions C20_readiness_answers_surface.

(* Transparency composes: any stack (any depth, any order) of layers each of which, in its
   non-triggering configuration, forwards the request once and returns the inner outcome
   unchanged, does the same. *)
Theorem C20_transparent_stack :
  forall (stack : list layer_sem),
    Forall transparent stack -> forall inner req, stack_sem stack inner req = inner req.
Proof. exact stack_transparent. Qed.
Print Assumptions C20_transparent_stack.

(* Listeners only observe: the outcome does not depend on the listener list, every listener
   is run on every event whatever the others do (return or panic). *)
Theorem C20_listeners_do_not_change_outcome :
  forall (events : list Z) (out : outcome) (ls1 ls2 : list listener),
    fst (run_with_listeners events out ls1) = fst (run_with_listeners events out ls2).
Proof. exact listeners_do_not_change_outcome. Qed.
Print Assumptions C20_listeners_do_not_change_outcome.

Theorem C20_every_listener_gets_every_event :
  forall (ls : list listener) (ev : Z),
    length (emit ls ev) = length ls /\
    forall i l, nth_error ls i = Some l -> nth_error (emit ls ev) i = Some (l ev).
Proof. exact every_listener_gets_every_event. Qed.
Print Assumptions C20_every_listener_gets_every_event.
