(* C20 — Layers are transparent, honour Tower readiness; listeners only observe.
   Models: Model/Layers.v (protocol, composition, listeners), Model/LayerSem.v (script interface of
   the transparency / listener modes). Only statements, `exact`, and Print Assumptions. *)
From TR Require Import Lib.Base Model.Layers Proof.Layers.
From TR Require Model.Bulkhead Model.Circuit Model.RateLimiter Model.Fallback Model.Retry Model.TimeLimiter Model.Cache
     Model.Reconnect Model.Coalesce Model.Chaos Model.LayerSem Proof.RateLimiter Proof.Transparent.

(* ---- Readiness ------------------------------------------------------------------------------ *)
(* Sequential client. For EVERY stack of layers (any depth, any order of the five call disciplines
   Swap / Direct / Retry k / Hedge k / Reconnect k that the thirteen middleware follow), every
   list of requests issued by a contract-respecting client, every patience [cf] of that client,
   every fuel and every readiness script of the wrapped service (shared or per instance; Ready /
   Pending / Err at any poll, including the polls made before retries and hedged attempts): the
   wrapped service never sees a call on an instance that has not been polled Ready since that
   instance's previous call. *)
Theorem C20_stack_honours_readiness :
  forall (cf fuel : nat) (ds : list disc) (b0 : base) (reqs : list Z),
    base_ok b0 -> violations b0 = 0%nat ->
    let b := snd (fst (client cf fuel ds (init_stack ds b0) reqs)) in
    violations b = 0%nat /\ all_calls_ready (blog b).
Proof. exact stack_honours_readiness. Qed.
Print Assumptions C20_stack_honours_readiness.

(* ANY client program: any number of handles (clones of the top of the stack taken at any time),
   requests issued on any handle in any order and overlapping, handles polled again although
   ready. The interpreter [run_cops] (what run_script executes for mode-3 scripts) refuses a call
   on a handle it has not polled ready; under that one condition no program makes the wrapped
   service see a violation. *)
Theorem C20_any_program_honours_readiness :
  forall (cf fuel : nat) (ds : list disc) (b0 : base) (os : list cop),
    base_ok b0 -> violations b0 = 0%nat ->
    let b := snd (fst (fst (run_cops (execp fuel ds) cf (init_stack ds b0, init_c) os))) in
    violations b = 0%nat /\ all_calls_ready (blog b).
Proof. exact any_program_honours_readiness. Qed.
Print Assumptions C20_any_program_honours_readiness.

(* Each layer discipline, on top of ANY service that honours the instance interface
   (poll sets readiness of that instance only, clone yields a fresh instance, a call on a ready
   instance raises no violation), honours the same interface towards its own client ... *)
Theorem C20_layer_preserves_contract :
  forall (T : Type) (sub : T -> op -> T * ans) (F : iface T),
    spec sub F -> forall (fuel : nat) (d : disc), spec (lsub sub fuel d) (layer_iface F).
Proof. exact @layer_spec. Qed.
Print Assumptions C20_layer_preserves_contract.

(* ... hence so does every stack, towards every client (assume / guarantee, by induction). *)
Theorem C20_stack_preserves_contract :
  forall (fuel : nat) (ds : list disc), spec (execp fuel ds) (stack_iface fuel ds).
Proof. exact stack_spec. Qed.
Print Assumptions C20_stack_preserves_contract.

(* The functional half: a request the client saw answered (code 0) WAS forwarded, on an instance
   that had been polled ready (no fuel makes this vacuous: with no fuel the code is 3, not 0). *)
Theorem C20_answered_request_was_called :
  forall (cf fuel : nat) (ds : list disc) (b0 : base) (q : Z),
    base_ok b0 -> violations b0 = 0%nat ->
    let r := client cf fuel ds (init_stack ds b0) [q] in
    snd r = [0] -> exists x res, In (LCall x q true res) (blog (snd (fst r))).
Proof. exact answered_request_was_called. Qed.
Print Assumptions C20_answered_request_was_called.

(* Each request is forwarded unchanged: the wrapped service sees every request value the client
   issued, at least once, EXACTLY once when no layer of the stack retries or hedges, and no other
   value; sequential client and any program (requests numbered 1, 2, ... in order of issue). *)
Theorem C20_requests_reach_the_service :
  forall (cf fuel : nat) (ds : list disc) (t : list lstate * base) (reqs : list Z),
    let r := client cf fuel ds t reqs in
    (forall q, (ncalls q (blog (snd t)) + count_occ Z.eq_dec (issued reqs (snd r)) q
                <= ncalls q (blog (snd (fst r))))%nat) /\
    (Forall plain_disc ds -> forall q,
        ncalls q (blog (snd (fst r))) =
        (ncalls q (blog (snd t)) + count_occ Z.eq_dec (issued reqs (snd r)) q)%nat).
Proof. exact requests_reach_the_service. Qed.
Print Assumptions C20_requests_reach_the_service.

Theorem C20_program_requests_reach_the_service :
  forall (cf fuel : nat) (ds : list disc) (b0 : base) (os : list cop),
    (forall q, ncalls q (blog b0) = 0%nat) ->
    let r := run_cops (execp fuel ds) cf (init_stack ds b0, init_c) os in
    let n := nreq (snd (fst r)) in
    (forall q, 1 <= q <= Z.of_nat n -> (1 <= ncalls q (blog (snd (fst (fst r)))))%nat) /\
    (Forall plain_disc ds -> forall q,
        ncalls q (blog (snd (fst (fst r)))) = if (1 <=? q) && (q <=? Z.of_nat n) then 1%nat else 0%nat).
Proof. exact program_requests_reach_the_service. Qed.
Print Assumptions C20_program_requests_reach_the_service.

(* ---- Readiness errors surface as readiness errors -------------------------------------------- *)
(* at poll_ready: the answer any stack gives is the wrapped service's answer (Ready, Pending or
   Err) for the wrapped instance the handle stands for *)
Theorem C20_readiness_answers_surface :
  forall (fuel : nat) (ds : list disc) (ls : list lstate) (b : base) (x : nat),
    length ls = length ds ->
    snd (execp fuel ds (ls, b) (OPoll x)) = ARes (answer b (resolve ls x)).
Proof. exact poll_passes_through. Qed.
Print Assumptions C20_readiness_answers_surface.

(* "none made up", EVERY stack: the requests the client saw failing with a readiness error (at
   poll_ready: code 1, inside the call: code 2) never outnumber the readiness errors the wrapped
   service returned. *)
Theorem C20_readiness_errors_never_made_up :
  forall (cf fuel : nat) (ds : list disc) (t : list lstate * base) (reqs : list Z),
    let r := client cf fuel ds t reqs in
    (nerrs (blog (snd t)) + count_if surfaced (snd r) <= nerrs (blog (snd (fst r))))%nat.
Proof. exact readiness_errors_never_made_up. Qed.
Print Assumptions C20_readiness_errors_never_made_up.

(* "none swallowed": stacks with [exact_of ds = true], i.e. NO hedge layer (hedge fails only the attempt
   that met the error, by design) and every retry / reconnect layer either configured with a predicate
   that REFUSES readiness errors (the driver's retry_on(kind == TRANSIENT) and reconnect_predicate
   "E kind=1": disciplines Retry _ false / Reconnect _ false) or, with the crate's DEFAULT predicate
   (Retry _ true / Reconnect _ true: every error is retried), sitting above layers through which no
   call can end with a readiness error. For them the readiness errors returned by the wrapped service
   and the requests the client saw failing with one -- at poll_ready or inside the call, before a
   further attempt at any depth -- are equinumerous: every such error ends exactly one request. *)
Theorem C20_readiness_errors_surface_once :
  forall (cf fuel : nat) (ds : list disc) (t : list lstate * base) (reqs : list Z),
    exact_of ds = true ->
    let r := client cf fuel ds t reqs in
    nerrs (blog (snd (fst r))) = (nerrs (blog (snd t)) + count_if surfaced (snd r))%nat.
Proof. exact readiness_errors_surface_once. Qed.
Print Assumptions C20_readiness_errors_surface_once.

Theorem C20_readiness_error_ends_request :
  forall (cf fuel : nat) (ds : list disc) (b0 : base) (q : Z),
    exact_of ds = true -> nerrs (blog b0) = 0%nat ->
    let r := client cf fuel ds (init_stack ds b0) [q] in
    (exists x, In (LPoll x RErr) (blog (snd (fst r)))) -> snd r = [1] \/ snd r = [2].
Proof. exact readiness_error_ends_request. Qed.
Print Assumptions C20_readiness_error_ends_request.

(* a single retrying layer between non-retrying layers is such a stack WHATEVER its predicate: the
   layer's own failed readiness check before a further attempt ends the request with that error
   (regressions R1 / R2 of the second review) *)
Theorem C20_single_retrying_layer_surfaces_its_readiness_error :
  forall (above : list disc) (k : nat) (dflt : bool) (below : list disc),
    Forall plain_disc above -> Forall plain_disc below ->
    exact_of (above ++ Retry k dflt :: below) = true /\ exact_of (above ++ Reconnect k dflt :: below) = true.
Proof. exact single_retrying_layer_surfaces_its_readiness_error. Qed.
Print Assumptions C20_single_retrying_layer_surfaces_its_readiness_error.

(* with the crates' DEFAULT predicates the equality is legitimately false elsewhere: a default-predicate
   retry ABOVE another retrying layer retries that layer's readiness error like any other call error
   (its own protective condition is triggered; the Tower contract is kept). Witness. *)
Theorem C20_default_predicate_swallows :
  let ds := [Retry 1 true; Retry 1 false] in
  let r := client 8 9 ds (init_stack ds (init_base_f [RReady; RErr] 1 0)) [1] in
  snd r = [0] /\ nerrs (blog (snd (fst r))) = 1%nat /\ violations (snd (fst r)) = 0%nat /\ exact_of ds = false.
Proof. exact default_predicate_swallows. Qed.
Print Assumptions C20_default_predicate_swallows.

Theorem C20_program_readiness_errors_surface_once :
  forall (cf fuel : nat) (ds : list disc) (b0 : base) (os : list cop),
    exact_of ds = true -> nerrs (blog b0) = 0%nat ->
    let r := run_cops (execp fuel ds) cf (init_stack ds b0, init_c) os in
    nerrs (blog (snd (fst (fst r)))) =
    (count_if is_one (snd r) + count_if is_two (outs (snd (fst r))))%nat.
Proof. exact program_readiness_errors_surface_once. Qed.
Print Assumptions C20_program_readiness_errors_surface_once.

(* The fuel that bounds the model's poll loops is not what makes the theorems above true for the
   scripts run_script executes: with the fuel run_protocol / run_program use (one more than the
   number of scripted answers) no poll loop gives up and no request hangs (code 9). *)
Theorem C20_run_protocol_never_hangs :
  forall (cf : nat) (ds : list disc) (orc : list rres) (kf : nat) (am : Z) (reqs : list Z),
    ~ In 9 (snd (client cf (S (length orc)) ds (init_stack ds (init_base_f orc kf am)) reqs)).
Proof. exact run_protocol_never_hangs. Qed.
Print Assumptions C20_run_protocol_never_hangs.

Theorem C20_run_program_never_hangs :
  forall (cf : nat) (ds : list disc) (po : list (list rres)) (kf : nat) (am : Z) (os : list cop),
    ~ In 9 (outs (snd (fst (run_cops (execp (S (length (concat po))) ds) cf
                                     (init_stack ds (init_base_pf po kf am), init_c) os)))).
Proof. exact run_program_never_hangs. Qed.
Print Assumptions C20_run_program_never_hangs.

(* ---- Transparency ---------------------------------------------------------------------------- *)
(* Composition. [passes w L]: whatever the wrapped service is, the calls reaching the bottom through
   L are those of ONE call of the wrapped service with the request unchanged, and L's result is that
   call's result, an error being wrapped by L's pass-through wrapper w and nothing else. Any stack
   (any depth, any order) of passing layers forwards the request once and returns the inner result
   wrapped by the fold of the wrappers, outermost first. (Replaces the former
   C20_transparent_stack, whose hypothesis `L inner req = inner req` no error-wrapping layer met.) *)
Theorem C20_stack_passes :
  forall (E : Type) (st : list (layer_sem E * (E -> E))),
    Forall (fun p => passes (snd p) (fst p)) st ->
    forall inner req,
      calls (stack_sem (map fst st) inner req) = calls (inner req) /\
      result (stack_sem (map fst st) inner req) = wrap_out (wraps (map snd st)) (result (inner req)).
Proof. exact @stack_passes. Qed.
Print Assumptions C20_stack_passes.

(* Per-layer instances, from the per-layer models (those of C01/C07, C03/C04/C09, C02/C15, C10, C11,
   C06, C17, C05, C13, C19), each over ANY non-triggering state of its model -- not only the initial
   one. [LayerSem.sem_of_X] runs ONE request of the wrapped service through the layer's model. *)
Theorem C20_bulkhead_passes :
  forall (E : Type) (w : E -> E) (made : Z -> E) (c : Bulkhead.cfg) (s : Bulkhead.st) (i : nat),
    Bulkhead.cs s i = Bulkhead.Created -> Bulkhead.gate s i = None -> (1 <= Bulkhead.free s)%nat ->
    passes w (LayerSem.sem_of_bulkhead w made c s i).
Proof. exact @Transparent.bulkhead_passes. Qed.
Print Assumptions C20_bulkhead_passes.

Theorem C20_circuit_passes :
  forall (E : Type) (w : E -> E) (made : Z -> E) (cf : Circuit.cfg) (f : bool) (s : Circuit.st) (i : nat),
    Circuit.cs s i = Circuit.Created -> Circuit.gate s i = None ->
    snd (Circuit.try_acquire (Circuit.now s) cf (Circuit.circ s)) = true ->
    passes w (LayerSem.sem_of_circuit w made cf f s i).
Proof. exact @Transparent.circuit_passes. Qed.
Print Assumptions C20_circuit_passes.

Theorem C20_ratelimiter_passes :
  forall (E : Type) (w : E -> E) (made : Z -> E) (c : RateLimiter.cfg) (s : RateLimiter.st) (i : nat),
    RateLimiter.cs s i = RateLimiter.Created -> RateLimiter.gate s i = None ->
    snd (RateLimiter.try_acquire c (RateLimiter.now s) (RateLimiter.lm s)) = RateLimiter.AOk None ->
    passes w (LayerSem.sem_of_ratelimiter w made c s i).
Proof. exact @Transparent.ratelimiter_passes. Qed.
Print Assumptions C20_ratelimiter_passes.

Theorem C20_timelimiter_passes :
  forall (E : Type) (w : E -> E) (made : Z -> E) (c : TimeLimiter.cfg) (i : nat) (t1 t2 : Z),
    t1 < TimeLimiter.deadline c i t1 -> t2 < TimeLimiter.deadline c i t1 ->
    passes w (LayerSem.sem_of_timelimiter w made c i t1 t2).
Proof. exact @Transparent.timelimiter_passes. Qed.
Print Assumptions C20_timelimiter_passes.

Theorem C20_coalesce_passes :
  forall (E : Type) (w : E -> E) (made : Z -> E) (s : Coalesce.st) (i k : nat),
    Coalesce.cs s i = Coalesce.Idle -> Coalesce.lookup k (Coalesce.reqs s) = None ->
    Coalesce.gate s i = None -> Coalesce.bomb s i = false ->
    passes w (LayerSem.sem_of_coalesce w made s i k).
Proof. exact @Transparent.coalesce_passes. Qed.
Print Assumptions C20_coalesce_passes.

Theorem C20_cache_miss_passes :
  forall (E : Type) (w : E -> E) (made : Z -> E) (c : Cache.cfg) (s : Cache.st) (i svc : nat) (k : Z),
    Cache.cs s i = Cache.Fresh -> Cache.gate s i = None ->
    (forall v, snd (Cache.store_get c (Cache.now s) (Cache.tick s) (Cache.stores s (Cache.sid_of c svc)) k)
               <> Cache.Hit v) ->
    passes w (LayerSem.sem_of_cache w made c s i svc k).
Proof. exact @Transparent.cache_passes. Qed.
Print Assumptions C20_cache_miss_passes.

Theorem C20_fallback_passes :
  forall (E : Type) (w : E -> E) (made : Z -> E) (st : Fallback.strategy Z Z E) (p : E -> bool)
         (backup : Z -> Z + E),
    (forall e, p e = false) -> passes w (LayerSem.sem_of_fallback w made st (Some p) backup).
Proof. exact @Transparent.fallback_passes. Qed.
Print Assumptions C20_fallback_passes.

Theorem C20_retry_passes :
  forall (E : Type) (c : Retry.cfg E) (hb : bool) (max : nat) (ready : nat -> Z * option E) (grant : nat -> bool),
    (forall e, Retry.should_retry c e = false) ->
    passes (fun e => e) (LayerSem.sem_of_retry c hb max ready grant).
Proof. exact @Transparent.retry_passes. Qed.
Print Assumptions C20_retry_passes.

Theorem C20_reconnect_passes :
  forall (E : Type) (w : E -> E) (made : Z -> E) (c : Reconnect.cfg E) (ready : nat -> Z * option E) (fuel : nat),
    (forall e, Reconnect.should_reconnect c e = false) ->
    passes w (LayerSem.sem_of_reconnect w made c ready fuel).
Proof. exact @Transparent.reconnect_passes. Qed.
Print Assumptions C20_reconnect_passes.

Theorem C20_chaos_zero_rates_passes :
  forall (E : Type) (made : Z -> E) (c : Chaos.config) (t_end i t : Z) (st : list Z),
    Chaos.erate c = Some 0 -> Chaos.lrate c = Some 0 -> t <= t_end ->
    passes (fun e : E => e) (LayerSem.sem_of_chaos (fun e => e) made c t_end i t st).
Proof. exact @Transparent.chaos_passes. Qed.
Print Assumptions C20_chaos_zero_rates_passes.

(* The table run_script executes for modes 0 and 4: EVERY entry passes (ten layers are the per-layer
   models in the driver's non-triggering configuration; hedge, adaptive limiter and executor are
   pass_through by definition) ... *)
Theorem C20_every_table_entry_passes :
  forall id : Z, passes LayerSem.wrapd (LayerSem.sem_of id).
Proof. exact Transparent.sem_of_passes. Qed.
Print Assumptions C20_every_table_entry_passes.

(* ... hence, at trace level, for EVERY list of layer ids (any depth, any order) and every scripted
   request list, the mode-0 model trace is: one call of the wrapped service, the request unchanged,
   the scripted outcome unchanged, an error in exactly n pass-through wrappers. *)
Theorem C20_run_transparent_spec :
  forall (ids : list Z) (reqs : list (Z * Z * Z)),
    LayerSem.run_transparent ids reqs =
    concat (map (fun r => let '(req, ok, v) := r in [1; req; if ok =? 0 then 0 else 1; v]) reqs).
Proof. exact Transparent.run_transparent_spec. Qed.
Print Assumptions C20_run_transparent_spec.

(* ---- Listeners ------------------------------------------------------------------------------- *)
(* A listener returns, panics, or panics with a payload whose destructor panics. [run_steps g ls steps
   cur acc] COMPUTES how a call path (events emitted, outcome fixed when the inner call returns) ends,
   through the listener invocations made under guard g: a panic escaping an invocation ends the run
   with FPanic. GCatchLoop = EventListeners::emit and reconnect's callback helper as repaired by d1b49ff
   (catch_unwind around the listener; the caught payload, and the payload of every panic raised by
   dropping one, is dropped under catch_unwind, 16 levels deep, the rest leaked): [Bombs d] is a payload
   nested d levels deep, for ANY d. Whatever the listeners do the outcome is the one the call path
   fixes by itself ... *)
Theorem C20_listeners_cannot_change_outcome :
  forall (ls : list listener) (steps : list lstep) (cur : final),
    fst (run_steps GCatchLoop ls steps cur []) = final_of steps cur.
Proof. exact listeners_cannot_change_outcome. Qed.
Print Assumptions C20_listeners_cannot_change_outcome.

(* ... every listener is handed every event whatever the others did with it ... *)
Theorem C20_every_listener_gets_every_event :
  forall (ls : list listener) (steps : list lstep) (cur : final),
    snd (run_steps GCatchLoop ls steps cur []) = deliveries_of ls steps /\
    (forall ev, In (SEmit ev) steps -> In (ev, map (fun l => l ev) ls) (deliveries_of ls steps)) /\
    (forall ev i l, nth_error ls i = Some l -> nth_error (map (fun l => l ev) ls) i = Some (l ev)).
Proof. exact every_listener_gets_every_event. Qed.
Print Assumptions C20_every_listener_gets_every_event.

(* ... in absolute numbers per event kind. *)
Theorem C20_per_kind_counts :
  forall (ls : list listener) (steps : list lstep) (cur : final) (i : nat) (l : listener) (ev : Z),
    nth_error ls i = Some l -> (forall e, l e <> Skipped) ->
    count_kind i ev (snd (run_steps GCatchLoop ls steps cur [])) = Z.of_nat (emits ev steps).
Proof. exact per_kind_counts. Qed.
Print Assumptions C20_per_kind_counts.

(* The clause is FALSE under the two weaker guards, which are the two defects found and repaired in
   /repo: bare callback invocations (reconnect before 484f229) ... *)
Theorem C20_bare_callbacks_refuted :
  let ls := [(fun _ => Panics); (fun _ => Returns)] in
  let steps := [SOut 0 70; SEmit 0] in
  fst (run_steps GBare ls steps (FOut 0 0) []) = FPanic /\
  final_of steps (FOut 0 0) = FOut 0 70 /\
  count_kind 1 0 (snd (run_steps GBare ls steps (FOut 0 0) [])) = 0 /\
  count_kind 1 0 (snd (run_steps GCatchLoop ls steps (FOut 0 0) [])) = 1.
Proof. exact bare_callbacks_refuted. Qed.
Print Assumptions C20_bare_callbacks_refuted.

(* ... and a guard that catches the panic but drops its payload outside (EventListeners::emit before
   afefac0, reconnect's callback sites before 56b9388): an ordinary panic is contained, a payload whose
   destructor panics is not, and the listener behind it is starved. *)
Theorem C20_payload_dropped_outside_refuted :
  let steps := [SEmit 0; SOut 0 70] in
  fst (run_steps GCatch [(fun _ => Panics); (fun _ => Returns)] steps (FOut 0 0) []) = FOut 0 70 /\
  fst (run_steps GCatch [(fun _ => Bombs 1); (fun _ => Returns)] steps (FOut 0 0) []) = FPanic /\
  count_kind 1 0 (snd (run_steps GCatch [(fun _ => Bombs 1); (fun _ => Returns)] steps (FOut 0 0) [])) = 0 /\
  fst (run_steps GCatchDrop [(fun _ => Bombs 1); (fun _ => Returns)] steps (FOut 0 0) []) = FOut 0 70 /\
  count_kind 1 0 (snd (run_steps GCatchDrop [(fun _ => Bombs 1); (fun _ => Returns)] steps (FOut 0 0) [])) = 1.
Proof. exact payload_dropped_outside_refuted. Qed.
Print Assumptions C20_payload_dropped_outside_refuted.

(* ... and a guard that contains ONE level of payload drop only (emit after afefac0, observe after
   56b9388, before d1b49ff): a payload nested two levels deep escapes; the bounded drop loop contains
   every depth. *)
Theorem C20_nested_payload_refuted :
  let steps := [SEmit 0; SOut 0 70] in
  fst (run_steps GCatchDrop [(fun _ => Bombs 2); (fun _ => Returns)] steps (FOut 0 0) []) = FPanic /\
  count_kind 1 0 (snd (run_steps GCatchDrop [(fun _ => Bombs 2); (fun _ => Returns)] steps (FOut 0 0) [])) = 0 /\
  (forall d, fst (run_steps GCatchLoop [(fun _ => Bombs d); (fun _ => Returns)] steps (FOut 0 0) []) = FOut 0 70 /\
             count_kind 1 0 (snd (run_steps GCatchLoop [(fun _ => Bombs d); (fun _ => Returns)] steps (FOut 0 0) [])) = 1).
Proof. exact nested_payload_refuted. Qed.
Print Assumptions C20_nested_payload_refuted.

(* Trace level, mode 4 (listeners on every layer of a stack, what run_script executes): the whole
   trace -- outcomes, absolute per-layer / per-listener / per-event-kind counts, the counts of the
   reference run -- of EVERY script and EVERY panic mask (ordinary payloads: bits 0..3, payloads whose
   Drop panics: bits 4..7, nested ones: bits 8..11) is the trace of the same script with no panicking listener, and its outcome
   part is the transparent one. *)
Theorem C20_l4_trace_mask_independent :
  forall (ids : list Z) (nl : nat) (mask : Z) (reqs : list (Z * Z * Z)),
    LayerSem.l4_trace ids nl mask reqs = LayerSem.l4_trace ids nl 0 reqs.
Proof. exact Transparent.l4_trace_mask_independent. Qed.
Print Assumptions C20_l4_trace_mask_independent.

Theorem C20_l4_outcomes_transparent :
  forall (ids : list Z) (ls : list listener) (reqs : list (Z * Z * Z)) (acc : list (list (Z * list lresult))),
    fst (LayerSem.run_l4 ids ls reqs acc) = LayerSem.run_transparent ids reqs.
Proof. exact Transparent.l4_outcomes_transparent. Qed.
Print Assumptions C20_l4_outcomes_transparent.

(* ---- kept from the first round ---------------------------------------------------------------- *)
(* Transparency of the individually modelled layers in their non-triggering configuration
   (the per-layer models are those of C01/C07, C03/C04/C09, C02/C15 and C17; the other layers'
   transparency is established by the correspondence run, mode 0 of the C20 scripts). *)
Theorem C20_bulkhead_alone_transparent :
  forall (c : Bulkhead.cfg) (o : Bulkhead.outcome),
    (1 <= Bulkhead.cap c)%nat ->
    let p1 := Bulkhead.poll c (Bulkhead.init c) 0%nat in
    let s2 := Bulkhead.complete (fst p1) 0%nat o in
    let p3 := Bulkhead.poll c s2 0%nat in
    Bulkhead.started (snd p1) = true /\ Bulkhead.r (snd p1) = 0 /\
    Bulkhead.started (snd p3) = false /\
    Bulkhead.r (snd p3) = match o with Bulkhead.OOk => 1 | Bulkhead.OErr => 2 | Bulkhead.OPanic => 5 end /\
    Bulkhead.running (fst p3) = [] /\ Bulkhead.free (fst p3) = Bulkhead.cap c.
Proof. exact Transparent.bulkhead_alone. Qed.
Print Assumptions C20_bulkhead_alone_transparent.

Theorem C20_closed_circuit_transparent :
  forall (cf : Circuit.cfg) (o : Circuit.outcome),
    let p1 := Circuit.poll cf Circuit.init 0%nat in
    let s2 := Circuit.complete (fst p1) 0%nat o in
    let p3 := Circuit.poll cf s2 0%nat in
    Circuit.started (snd p1) = true /\ Circuit.r (snd p1) = 0 /\
    Circuit.started (snd p3) = false /\
    Circuit.r (snd p3) = match o with Circuit.OOk _ => 1 | Circuit.OErr _ => 2
                                      | Circuit.OPanic | Circuit.OCPanic => 5 end.
Proof. exact Transparent.circuit_closed_alone. Qed.
Print Assumptions C20_closed_circuit_transparent.

Theorem C20_ratelimiter_first_call_admitted :
  forall (c : RateLimiter.cfg),
    Proof.RateLimiter.wfc c ->
    RateLimiter.started (snd (RateLimiter.poll c (RateLimiter.init c) 0%nat)) = true /\
    RateLimiter.entered (fst (RateLimiter.poll c (RateLimiter.init c) 0%nat)) 0%nat = 1.
Proof. exact Transparent.ratelimiter_first_call_admitted. Qed.
Print Assumptions C20_ratelimiter_first_call_admitted.

Theorem C20_ratelimiter_running_returns_outcome :
  forall (c : RateLimiter.cfg) (s : RateLimiter.st) (i : nat) (o : RateLimiter.outcome),
    RateLimiter.cs s i = RateLimiter.Running -> RateLimiter.gate s i = Some o ->
    RateLimiter.started (snd (RateLimiter.poll c s i)) = false /\
    RateLimiter.r (snd (RateLimiter.poll c s i)) =
      match o with RateLimiter.OOk => 1 | RateLimiter.OErr => 2 | RateLimiter.OPanic => 5 end.
Proof. exact Transparent.ratelimiter_running_returns_outcome. Qed.
Print Assumptions C20_ratelimiter_running_returns_outcome.

Theorem C20_fallback_nontriggering_transparent :
  forall (Req Res Err : Type) (st : Fallback.strategy Req Res Err) pred inner backup req,
    (forall e, inner req = inr e -> exists p, pred = Some p /\ p e = false) ->
    Fallback.inner_calls (Fallback.call st pred inner backup req) = [req] /\
    Fallback.backup_calls (Fallback.call st pred inner backup req) = [] /\
    Fallback.out (Fallback.call st pred inner backup req) =
      match inner req with inl r => inl r | inr e => inr (Fallback.Inner e) end.
Proof. exact @Transparent.fallback_nontriggering. Qed.
Print Assumptions C20_fallback_nontriggering_transparent.
