(* C20 — Layers are transparent, honour Tower readiness; listeners only observe.
   Model: Model/Layers.v. Only statements, `exact`, and Print Assumptions. *)
From TR Require Import Lib.Base Model.Layers Proof.Layers.
From TR Require Model.Bulkhead Model.Circuit Model.RateLimiter Model.Fallback Proof.RateLimiter Proof.Transparent.

(* Readiness. For EVERY stack of layers (any depth, any order of the five call disciplines
   Swap / Direct / Retry k / Hedge k / Reconnect k that the thirteen middleware follow), every
   list of requests issued by a contract-respecting client and every readiness script of the
   wrapped service (Ready / Pending / Err at any poll, including the polls made before retries
   and hedged attempts): the wrapped service never sees a call on an instance that has not
   been polled Ready since that instance's previous call. *)
Theorem C20_stack_honours_readiness :
  forall (fuel : nat) (ds : list disc) (orc : list rres) (reqs : list Z),
    let b := snd (fst (client fuel ds (map (fun _ => init_l) ds) (init_base orc) reqs)) in
    violations b = 0%nat /\ all_calls_ready (blog b).
Proof. exact stack_honours_readiness. Qed.
Print Assumptions C20_stack_honours_readiness.

(* Each layer discipline, on top of ANY service that honours the instance interface
   (poll sets readiness of that instance only, clone yields a fresh instance, a call on a ready
   instance raises no violation), honours the same interface towards its own client. *)
Theorem C20_layer_preserves_contract :
  forall (T : Type) (sub : T -> op -> T * ans) (F : iface T),
    spec sub F -> forall (fuel : nat) (d : disc), spec (lsub sub fuel d) (layer_iface F).
Proof. exact @layer_spec. Qed.
Print Assumptions C20_layer_preserves_contract.

(* readiness answers (including errors) surface unchanged through any stack *)
Theorem C20_readiness_answers_surface :
  forall (fuel : nat) (ds : list disc) (ls : list lstate) (b : base) (x : nat),
    length ls = length ds ->
    snd (execp fuel ds (ls, b) (OPoll x)) =
    ARes (match oracle b with r :: _ => r | [] => RReady end).
Proof. exact poll_passes_through. Qed.
Print Assumptions C20_readiness_answers_surface.

(* Transparency composes: any stack (any depth, any order) of layers each of which, in its
   non-triggering configuration, forwards the request once and returns the inner outcome
   unchanged, does the same. *)
Theorem C20_transparent_stack :
  forall (stack : list layer_sem),
    Forall transparent stack -> forall inner req, stack_sem stack inner req = inner req.
Proof. exact stack_transparent. Qed.
Print Assumptions C20_transparent_stack.

(* Listeners only observe: the outcome does not depend on the listener list, every listener
   is run on every event whatever the others do (return or panic). *)
Theorem C20_listeners_do_not_change_outcome :
  forall (events : list Z) (out : outcome) (ls1 ls2 : list listener),
    fst (run_with_listeners events out ls1) = fst (run_with_listeners events out ls2).
Proof. exact listeners_do_not_change_outcome. Qed.
Print Assumptions C20_listeners_do_not_change_outcome.

Theorem C20_every_listener_gets_every_event :
  forall (ls : list listener) (ev : Z),
    length (emit ls ev) = length ls /\
    forall i l, nth_error ls i = Some l -> nth_error (emit ls ev) i = Some (l ev).
Proof. exact every_listener_gets_every_event. Qed.
Print Assumptions C20_every_listener_gets_every_event.

(* Transparency of the individually modelled layers in their non-triggering configuration
   (the per-layer models are those of C01/C07, C03/C04/C09, C02/C15 and C17; the other layers'
   transparency is established by the correspondence run, mode 0 of the C20 scripts). *)
Theorem C20_bulkhead_alone_transparent :
  forall (c : Bulkhead.cfg) (o : Bulkhead.outcome),
    (1 <= Bulkhead.cap c)%nat ->
    let p1 := Bulkhead.poll c (Bulkhead.init c) 0%nat in
    let s2 := Bulkhead.complete (fst p1) 0%nat o in
    let p3 := Bulkhead.poll c s2 0%nat in
    Bulkhead.started (snd p1) = true /\ Bulkhead.r (snd p1) = 0 /\
    Bulkhead.started (snd p3) = false /\
    Bulkhead.r (snd p3) = match o with Bulkhead.OOk => 1 | Bulkhead.OErr => 2 | Bulkhead.OPanic => 5 end /\
    Bulkhead.running (fst p3) = [] /\ Bulkhead.free (fst p3) = Bulkhead.cap c.
Proof. exact Transparent.bulkhead_alone. Qed.
Print Assumptions C20_bulkhead_alone_transparent.

Theorem C20_closed_circuit_transparent :
  forall (cf : Circuit.cfg) (o : Circuit.outcome),
    let p1 := Circuit.poll cf Circuit.init 0%nat in
    let s2 := Circuit.complete (fst p1) 0%nat o in
    let p3 := Circuit.poll cf s2 0%nat in
    Circuit.started (snd p1) = true /\ Circuit.r (snd p1) = 0 /\
    Circuit.started (snd p3) = false /\
    Circuit.r (snd p3) = match o with Circuit.OOk _ => 1 | Circuit.OErr _ => 2 | Circuit.OPanic => 5 end.
Proof. exact Transparent.circuit_closed_alone. Qed.
Print Assumptions C20_closed_circuit_transparent.

Theorem C20_ratelimiter_first_call_admitted :
  forall (c : RateLimiter.cfg),
    Proof.RateLimiter.wfc c ->
    RateLimiter.started (snd (RateLimiter.poll c (RateLimiter.init c) 0%nat)) = true /\
    RateLimiter.entered (fst (RateLimiter.poll c (RateLimiter.init c) 0%nat)) 0%nat = 1.
Proof. exact Transparent.ratelimiter_first_call_admitted. Qed.
Print Assumptions C20_ratelimiter_first_call_admitted.

Theorem C20_ratelimiter_running_returns_outcome :
  forall (c : RateLimiter.cfg) (s : RateLimiter.st) (i : nat) (o : RateLimiter.outcome),
    RateLimiter.cs s i = RateLimiter.Running -> RateLimiter.gate s i = Some o ->
    RateLimiter.started (snd (RateLimiter.poll c s i)) = false /\
    RateLimiter.r (snd (RateLimiter.poll c s i)) =
      match o with RateLimiter.OOk => 1 | RateLimiter.OErr => 2 | RateLimiter.OPanic => 5 end.
Proof. exact Transparent.ratelimiter_running_returns_outcome. Qed.
Print Assumptions C20_ratelimiter_running_returns_outcome.

Theorem C20_fallback_nontriggering_transparent :
  forall (Req Res Err : Type) (st : Fallback.strategy Req Res Err) pred inner backup req,
    (forall e, inner req = inr e -> exists p, pred = Some p /\ p e = false) ->
    Fallback.inner_calls (Fallback.call st pred inner backup req) = [req] /\
    Fallback.backup_calls (Fallback.call st pred inner backup req) = [] /\
    Fallback.out (Fallback.call st pred inner backup req) =
      match inner req with inl r => inl r | inr e => inr (Fallback.Inner e) end.
Proof. exact @Transparent.fallback_nontriggering. Qed.
Print Assumptions C20_fallback_nontriggering_transparent.
