(* C20 — Layers are transparent, honour Tower readiness; listeners only observe.
   Models: Model/Layers.v (protocol, composition, listeners), Model/LayerSem.v (script interface of
   the transparency / listener modes). Only statements, `exact`, and Print Assumptions. *)
From TR Require Import Lib.Base Model.Layers Proof.Layers.
From TR Require Model.Bulkhead Model.Circuit Model.RateLimiter Model.Fallback Proof.RateLimiter Proof.Transparent.

(* ---- Readiness ------------------------------------------------------------------------------ *)
(* Sequential client. For EVERY stack of layers (any depth, any order of the five call disciplines
   Swap / Direct / Retry k / Hedge k / Reconnect k that the thirteen middleware follow), every
   list of requests issued by a contract-respecting client, every patience [cf] of that client,
   every fuel and every readiness script of the wrapped service (shared or per instance; Ready /
   Pending / Err at any poll, including the polls made before retries and hedged attempts): the
   wrapped service never sees a call on an instance that has not been polled Ready since that
   instance's previous call. *)
Theorem C20_stack_honours_readiness :
  forall (cf fuel : nat) (ds : list disc) (b0 : base) (reqs : list Z),
    base_ok b0 -> violations b0 = 0%nat ->
    let b := snd (fst (client cf fuel ds (init_stack ds b0) reqs)) in
    violations b = 0%nat /\ all_calls_ready (blog b).
Proof. exact stack_honours_readiness. Qed.
Print Assumptions C20_stack_honours_readiness.

(* ANY client program: any number of handles (clones of the top of the stack taken at any time),
   requests issued on any handle in any order and overlapping, handles polled again although
   ready. The interpreter [run_cops] (what run_script executes for mode-3 scripts) refuses a call
   on a handle it has not polled ready; under that one condition no program makes the wrapped
   service see a violation. *)
Theorem C20_any_program_honours_readiness :
  forall (cf fuel : nat) (ds : list disc) (b0 : base) (os : list cop),
    base_ok b0 -> violations b0 = 0%nat ->
    let b := snd (fst (fst (run_cops (execp fuel ds) cf (init_stack ds b0, init_c) os))) in
    violations b = 0%nat /\ all_calls_ready (blog b).
Proof. exact any_program_honours_readiness. Qed.
Print Assumptions C20_any_program_honours_readiness.

(* Each layer discipline, on top of ANY service that honours the instance interface
   (poll sets readiness of that instance only, clone yields a fresh instance, a call on a ready
   instance raises no violation), honours the same interface towards its own client ... *)
Theorem C20_layer_preserves_contract :
  forall (T : Type) (sub : T -> op -> T * ans) (F : iface T),
    spec sub F -> forall (fuel : nat) (d : disc), spec (lsub sub fuel d) (layer_iface F).
Proof. exact @layer_spec. Qed.
Print Assumptions C20_layer_preserves_contract.

(* ... hence so does every stack, towards every client (assume / guarantee, by induction). *)
Theorem C20_stack_preserves_contract :
  forall (fuel : nat) (ds : list disc), spec (execp fuel ds) (stack_iface fuel ds).
Proof. exact stack_spec. Qed.
Print Assumptions C20_stack_preserves_contract.

(* The functional half: a request the client saw answered (code 0) WAS forwarded, on an instance
   that had been polled ready (no fuel makes this vacuous: with no fuel the code is 3, not 0). *)
Theorem C20_answered_request_was_called :
  forall (cf fuel : nat) (ds : list disc) (b0 : base) (q : Z),
    base_ok b0 -> violations b0 = 0%nat ->
    let r := client cf fuel ds (init_stack ds b0) [q] in
    snd r = [0] -> exists x, In (LCall x q true) (blog (snd (fst r))).
Proof. exact answered_request_was_called. Qed.
Print Assumptions C20_answered_request_was_called.

(* Each request is forwarded unchanged: the wrapped service sees every request value the client
   issued, at least once, EXACTLY once when no layer of the stack retries or hedges, and no other
   value; sequential client and any program (requests numbered 1, 2, ... in order of issue). *)
Theorem C20_requests_reach_the_service :
  forall (cf fuel : nat) (ds : list disc) (t : list lstate * base) (reqs : list Z),
    let r := client cf fuel ds t reqs in
    (forall q, (ncalls q (blog (snd t)) + count_occ Z.eq_dec (issued reqs (snd r)) q
                <= ncalls q (blog (snd (fst r))))%nat) /\
    (Forall plain_disc ds -> forall q,
        ncalls q (blog (snd (fst r))) =
        (ncalls q (blog (snd t)) + count_occ Z.eq_dec (issued reqs (snd r)) q)%nat).
Proof. exact requests_reach_the_service. Qed.
Print Assumptions C20_requests_reach_the_service.

Theorem C20_program_requests_reach_the_service :
  forall (cf fuel : nat) (ds : list disc) (b0 : base) (os : list cop),
    (forall q, ncalls q (blog b0) = 0%nat) ->
    let r := run_cops (execp fuel ds) cf (init_stack ds b0, init_c) os in
    let n := nreq (snd (fst r)) in
    (forall q, 1 <= q <= Z.of_nat n -> (1 <= ncalls q (blog (snd (fst (fst r)))))%nat) /\
    (Forall plain_disc ds -> forall q,
        ncalls q (blog (snd (fst (fst r)))) = if (1 <=? q) && (q <=? Z.of_nat n) then 1%nat else 0%nat).
Proof. exact program_requests_reach_the_service. Qed.
Print Assumptions C20_program_requests_reach_the_service.

(* ---- Readiness errors surface as readiness errors -------------------------------------------- *)
(* at poll_ready: the answer any stack gives is the wrapped service's answer (Ready, Pending or
   Err) for the wrapped instance the handle stands for *)
Theorem C20_readiness_answers_surface :
  forall (fuel : nat) (ds : list disc) (ls : list lstate) (b : base) (x : nat),
    length ls = length ds ->
    snd (execp fuel ds (ls, b) (OPoll x)) = ARes (answer b (resolve ls x)).
Proof. exact poll_passes_through. Qed.
Print Assumptions C20_readiness_answers_surface.

(* anywhere: in a stack without a hedge layer (hedge fails only the attempt that met the error, by
   design) the readiness errors returned by the wrapped service and the requests the client saw
   failing with a readiness error -- at poll_ready (code 1) or inside the call, before a further
   attempt of a retry / reconnect layer at any depth (code 2) -- are equinumerous: every such
   error ends exactly one request as a readiness error, none is swallowed, none is made up. *)
Theorem C20_readiness_errors_surface_once :
  forall (cf fuel : nat) (ds : list disc) (t : list lstate * base) (reqs : list Z),
    Forall no_hedge ds ->
    let r := client cf fuel ds t reqs in
    nerrs (blog (snd (fst r))) = (nerrs (blog (snd t)) + count_if surfaced (snd r))%nat.
Proof. exact readiness_errors_surface_once. Qed.
Print Assumptions C20_readiness_errors_surface_once.

Theorem C20_readiness_error_ends_request :
  forall (cf fuel : nat) (ds : list disc) (b0 : base) (q : Z),
    Forall no_hedge ds -> nerrs (blog b0) = 0%nat ->
    let r := client cf fuel ds (init_stack ds b0) [q] in
    (exists x, In (LPoll x RErr) (blog (snd (fst r)))) -> snd r = [1] \/ snd r = [2].
Proof. exact readiness_error_ends_request. Qed.
Print Assumptions C20_readiness_error_ends_request.

Theorem C20_program_readiness_errors_surface_once :
  forall (cf fuel : nat) (ds : list disc) (b0 : base) (os : list cop),
    Forall no_hedge ds -> nerrs (blog b0) = 0%nat ->
    let r := run_cops (execp fuel ds) cf (init_stack ds b0, init_c) os in
    nerrs (blog (snd (fst (fst r)))) =
    (count_if is_one (snd r) + count_if is_two (outs (snd (fst r))))%nat.
Proof. exact program_readiness_errors_surface_once. Qed.
Print Assumptions C20_program_readiness_errors_surface_once.

(* The fuel that bounds the model's poll loops is not what makes the theorems above true for the
   scripts run_script executes: with the fuel run_protocol / run_program use (one more than the
   number of scripted answers) no poll loop gives up and no request hangs (code 9). *)
Theorem C20_run_protocol_never_hangs :
  forall (cf : nat) (ds : list disc) (orc : list rres) (reqs : list Z),
    ~ In 9 (snd (client cf (S (length orc)) ds (init_stack ds (init_base orc)) reqs)).
Proof. exact run_protocol_never_hangs. Qed.
Print Assumptions C20_run_protocol_never_hangs.

Theorem C20_run_program_never_hangs :
  forall (cf : nat) (ds : list disc) (po : list (list rres)) (os : list cop),
    ~ In 9 (outs (snd (fst (run_cops (execp (S (length (concat po))) ds) cf
                                     (init_stack ds (init_base_p po), init_c) os)))).
Proof. exact run_program_never_hangs. Qed.
Print Assumptions C20_run_program_never_hangs.

(* ---- Transparency ---------------------------------------------------------------------------- *)
(* Composition. [passes w L]: whatever the wrapped service is, the calls reaching the bottom through
   L are those of ONE call of the wrapped service with the request unchanged, and L's result is that
   call's result, an error being wrapped by L's pass-through wrapper w and nothing else. Any stack
   (any depth, any order) of passing layers forwards the request once and returns the inner result
   wrapped by the fold of the wrappers, outermost first. (Replaces the former
   C20_transparent_stack, whose hypothesis `L inner req = inner req` no error-wrapping layer met.) *)
Theorem C20_stack_passes :
  forall (E : Type) (st : list (layer_sem E * (E -> E))),
    Forall (fun p => passes (snd p) (fst p)) st ->
    forall inner req,
      calls (stack_sem (map fst st) inner req) = calls (inner req) /\
      result (stack_sem (map fst st) inner req) = wrap_out (wraps (map snd st)) (result (inner req)).
Proof. exact @stack_passes. Qed.
Print Assumptions C20_stack_passes.

(* ---- Listeners ------------------------------------------------------------------------------- *)
(* [run_steps guarded ls steps cur acc] COMPUTES how a call path (events emitted, outcome fixed
   when the inner call returns) ends, through the listener invocations: a panic escaping an
   invocation ends the run with FPanic. With the invocations guarded as EventListeners::emit guards
   them, whatever the listeners do the outcome is the one the call path fixes by itself ... *)
Theorem C20_listeners_cannot_change_outcome :
  forall (ls : list listener) (steps : list lstep) (cur : final),
    fst (run_steps true ls steps cur []) = final_of steps cur.
Proof. exact listeners_cannot_change_outcome. Qed.
Print Assumptions C20_listeners_cannot_change_outcome.

(* ... every listener is handed every event whatever the others did with it ... *)
Theorem C20_every_listener_gets_every_event :
  forall (ls : list listener) (steps : list lstep) (cur : final),
    snd (run_steps true ls steps cur []) = deliveries_of ls steps /\
    (forall ev, In (SEmit ev) steps -> In (ev, map (fun l => l ev) ls) (deliveries_of ls steps)) /\
    (forall ev i l, nth_error ls i = Some l -> nth_error (map (fun l => l ev) ls) i = Some (l ev)).
Proof. exact every_listener_gets_every_event. Qed.
Print Assumptions C20_every_listener_gets_every_event.

(* ... in absolute numbers per event kind. *)
Theorem C20_per_kind_counts :
  forall (ls : list listener) (steps : list lstep) (cur : final) (i : nat) (l : listener) (ev : Z),
    nth_error ls i = Some l -> (forall e, l e <> Skipped) ->
    count_kind i ev (snd (run_steps true ls steps cur [])) = Z.of_nat (emits ev steps).
Proof. exact per_kind_counts. Qed.
Print Assumptions C20_per_kind_counts.

(* The clause is FALSE for bare callback invocations (reconnect's on_state_change / on_reconnect
   before fix 484f229): the witness is the defect that was found and repaired in /repo. *)
Theorem C20_bare_callbacks_refuted :
  let ls := [(fun _ => Panics); (fun _ => Returns)] in
  let steps := [SOut 0 70; SEmit 0] in
  fst (run_steps false ls steps (FOut 0 0) []) = FPanic /\
  final_of steps (FOut 0 0) = FOut 0 70 /\
  count_kind 1 0 (snd (run_steps false ls steps (FOut 0 0) [])) = 0 /\
  count_kind 1 0 (snd (run_steps true ls steps (FOut 0 0) [])) = 1.
Proof. exact bare_callbacks_refuted. Qed.
Print Assumptions C20_bare_callbacks_refuted.

(* Transparency of the individually modelled layers in their non-triggering configuration
   (the per-layer models are those of C01/C07, C03/C04/C09, C02/C15 and C17; the other layers'
   transparency is established by the correspondence run, mode 0 of the C20 scripts). *)
Theorem C20_bulkhead_alone_transparent :
  forall (c : Bulkhead.cfg) (o : Bulkhead.outcome),
    (1 <= Bulkhead.cap c)%nat ->
    let p1 := Bulkhead.poll c (Bulkhead.init c) 0%nat in
    let s2 := Bulkhead.complete (fst p1) 0%nat o in
    let p3 := Bulkhead.poll c s2 0%nat in
    Bulkhead.started (snd p1) = true /\ Bulkhead.r (snd p1) = 0 /\
    Bulkhead.started (snd p3) = false /\
    Bulkhead.r (snd p3) = match o with Bulkhead.OOk => 1 | Bulkhead.OErr => 2 | Bulkhead.OPanic => 5 end /\
    Bulkhead.running (fst p3) = [] /\ Bulkhead.free (fst p3) = Bulkhead.cap c.
Proof. exact Transparent.bulkhead_alone. Qed.
Print Assumptions C20_bulkhead_alone_transparent.

Theorem C20_closed_circuit_transparent :
  forall (cf : Circuit.cfg) (o : Circuit.outcome),
    let p1 := Circuit.poll cf Circuit.init 0%nat in
    let s2 := Circuit.complete (fst p1) 0%nat o in
    let p3 := Circuit.poll cf s2 0%nat in
    Circuit.started (snd p1) = true /\ Circuit.r (snd p1) = 0 /\
    Circuit.started (snd p3) = false /\
    Circuit.r (snd p3) = match o with Circuit.OOk _ => 1 | Circuit.OErr _ => 2
                                      | Circuit.OPanic | Circuit.OCPanic => 5 end.
Proof. exact Transparent.circuit_closed_alone. Qed.
Print Assumptions C20_closed_circuit_transparent.

Theorem C20_ratelimiter_first_call_admitted :
  forall (c : RateLimiter.cfg),
    Proof.RateLimiter.wfc c ->
    RateLimiter.started (snd (RateLimiter.poll c (RateLimiter.init c) 0%nat)) = true /\
    RateLimiter.entered (fst (RateLimiter.poll c (RateLimiter.init c) 0%nat)) 0%nat = 1.
Proof. exact Transparent.ratelimiter_first_call_admitted. Qed.
Print Assumptions C20_ratelimiter_first_call_admitted.

Theorem C20_ratelimiter_running_returns_outcome :
  forall (c : RateLimiter.cfg) (s : RateLimiter.st) (i : nat) (o : RateLimiter.outcome),
    RateLimiter.cs s i = RateLimiter.Running -> RateLimiter.gate s i = Some o ->
    RateLimiter.started (snd (RateLimiter.poll c s i)) = false /\
    RateLimiter.r (snd (RateLimiter.poll c s i)) =
      match o with RateLimiter.OOk => 1 | RateLimiter.OErr => 2 | RateLimiter.OPanic => 5 end.
Proof. exact Transparent.ratelimiter_running_returns_outcome. Qed.
Print Assumptions C20_ratelimiter_running_returns_outcome.

Theorem C20_fallback_nontriggering_transparent :
  forall (Req Res Err : Type) (st : Fallback.strategy Req Res Err) pred inner backup req,
    (forall e, inner req = inr e -> exists p, pred = Some p /\ p e = false) ->
    Fallback.inner_calls (Fallback.call st pred inner backup req) = [req] /\
    Fallback.backup_calls (Fallback.call st pred inner backup req) = [] /\
    Fallback.out (Fallback.call st pred inner backup req) =
      match inner req with inl r => inl r | inr e => inr (Fallback.Inner e) end.
Proof. exact @Transparent.fallback_nontriggering. Qed.
Print Assumptions C20_fallback_nontriggering_transparent.
