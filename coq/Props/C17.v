(* C17 — Fallback never replaces a success and handles exactly the errors it should.
   Only statements, `exact` of a lemma from Proof/Fallback.v, and Print Assumptions.
   [call st pred inner backup req] is the pure reference function (result, the requests seen by the
   inner and the backup service, and [fn_log]: everything the layer invokes, in order);
   [run_ops st pred ops] is the step machine the correspondence driver executes (several overlapping
   calls through one service value and its clones, hand-polled futures, gated inner / backup
   services, dropped futures, readiness errors); C17_machine_refines_call links the two. *)
From TR Require Import Lib.Base Model.Fallback Proof.Fallback.

Theorem C17_ok_passthrough :
  forall (Req Res Err : Type) (st : strategy Req Res Err) pred inner backup req r,
    inner req = inl r ->
    call st pred inner backup req =
      {| inner_calls := [req]; backup_calls := []; fn_log := [EInner req]; out := inl r |}.
Proof. exact @ok_passthrough. Qed.
Print Assumptions C17_ok_passthrough.

(* a success invokes nothing but the inner service: no predicate, no strategy closure, no backup *)
Theorem C17_success_invokes_nothing :
  forall (Req Res Err : Type) (st : strategy Req Res Err) pred inner backup req r,
    inner req = inl r -> fn_log (call st pred inner backup req) = [EInner req].
Proof. exact @success_invokes_nothing. Qed.
Print Assumptions C17_success_invokes_nothing.

(* nothing of the fallback runs before the inner service has been called with the original request *)
Theorem C17_inner_invoked_first :
  forall (Req Res Err : Type) (st : strategy Req Res Err) pred inner backup req,
    exists rest, fn_log (call st pred inner backup req) = EInner req :: rest.
Proof. exact @inner_invoked_first. Qed.
Print Assumptions C17_inner_invoked_first.

Theorem C17_predicate_gate :
  forall (Req Res Err : Type) (st : strategy Req Res Err) pred inner backup req e,
    inner req = inr e -> handles pred e = false ->
    call st pred inner backup req =
      {| inner_calls := [req]; backup_calls := []; fn_log := EInner req :: pred_events pred e;
         out := inr (Inner e) |}.
Proof. exact @predicate_gate. Qed.
Print Assumptions C17_predicate_gate.

(* on an error the predicate is evaluated exactly once, on that error, right after the inner call;
   a refused error invokes nothing else *)
Theorem C17_predicate_evaluated_once :
  forall (Req Res Err : Type) (st : strategy Req Res Err) pred inner backup req e,
    inner req = inr e ->
    exists rest, fn_log (call st pred inner backup req) = EInner req :: pred_events pred e ++ rest /\
                 (forall x, ~ In (EPred x) rest) /\ (forall x, ~ In (EInner x) rest) /\
                 (handles pred e = false -> rest = []).
Proof. exact @predicate_evaluated_once. Qed.
Print Assumptions C17_predicate_evaluated_once.

Theorem C17_strategy_exact :
  forall (Req Res Err : Type) (st : strategy Req Res Err) pred inner backup req e,
    inner req = inr e -> handles pred e = true ->
    call st pred inner backup req =
      {| inner_calls := [req]; backup_calls := spec_backup st req; fn_log := spec_log st pred req e;
         out := spec_out st backup req e |}.
Proof. exact @strategy_exact. Qed.
Print Assumptions C17_strategy_exact.

(* the same specification written out strategy by strategy (no auxiliary definition) *)
Theorem C17_strategy_equations :
  forall (Req Res Err : Type) (pred : option (Err -> bool)) (inner backup : Req -> Res + Err) req e,
    inner req = inr e -> handles pred e = true ->
    (forall v, out (call (SValue v) pred inner backup req) = inl v) /\
    (forall f, out (call (SValueFn f) pred inner backup req) = inl (f tt)) /\
    (forall f, out (call (SFromError f) pred inner backup req) = inl (f e)) /\
    (forall f, out (call (SFromRequestError f) pred inner backup req) = inl (f req e)) /\
    (forall r, backup req = inl r -> out (call SService pred inner backup req) = inl r) /\
    (forall be, backup req = inr be ->
                out (call SService pred inner backup req) = inr (FallbackFailed be)) /\
    (forall f, out (call (SException f) pred inner backup req) = inr (Inner (f e))).
Proof. exact @strategy_equations. Qed.
Print Assumptions C17_strategy_equations.

Theorem C17_inner_called_exactly_once :
  forall (Req Res Err : Type) (st : strategy Req Res Err) pred inner backup req,
    inner_calls (call st pred inner backup req) = [req].
Proof. exact @inner_called_exactly_once. Qed.
Print Assumptions C17_inner_called_exactly_once.

Theorem C17_backup_called_iff :
  forall (Req Res Err : Type) (st : strategy Req Res Err) pred inner backup req,
    backup_calls (call st pred inner backup req) <> [] <->
    (st = SService /\ exists e, inner req = inr e /\ handles pred e = true).
Proof. exact @backup_called_iff. Qed.
Print Assumptions C17_backup_called_iff.

(* ======== the step machine run_script executes ======== *)

(* every completed call of the machine returned what [call] specifies for that call's own request
   and the outcomes delivered to that call, and invoked what [call] logs, in that order —
   whatever other calls through the same service value and its clones did in between *)
Theorem C17_machine_refines_call :
  forall (Req Res Err : Type) (st : strategy Req Res Err) pred ops k c r,
    nth_error (m_calls (run_ops st pred ops)) k = Some c -> c_phase c = PDone r ->
    (exists x, c_inner c = Some (of_sum x)) /\
    forall inner backup,
      c_inner c = Some (of_sum (inner (c_req c))) ->
      (forall o, c_backup c = Some o -> o = of_sum (backup (c_req c))) ->
      r = out (call st pred inner backup (c_req c)) /\
      c_log c = fn_log (call st pred inner backup (c_req c)).
Proof. exact @machine_refines_call. Qed.
Print Assumptions C17_machine_refines_call.

(* in every reachable state, for every call (finished, pending, dropped or panicked): anything
   beyond the inner call has only been invoked after an inner ERROR was delivered to that call *)
Theorem C17_fallback_only_after_inner_error :
  forall (Req Res Err : Type) (st : strategy Req Res Err) pred ops k c,
    nth_error (m_calls (run_ops st pred ops)) k = Some c ->
    c_log c = [] \/ c_log c = [EInner (c_req c)] \/
    exists e rest, c_inner c = Some (OErr e) /\ c_log c = EInner (c_req c) :: rest.
Proof. exact @machine_fallback_only_after_inner_error. Qed.
Print Assumptions C17_fallback_only_after_inner_error.

Theorem C17_machine_success_invokes_nothing :
  forall (Req Res Err : Type) (st : strategy Req Res Err) pred ops k c r,
    nth_error (m_calls (run_ops st pred ops)) k = Some c -> c_inner c = Some (OOk r) ->
    c_log c = [] \/ c_log c = [EInner (c_req c)].
Proof. exact @machine_success_invokes_nothing. Qed.
Print Assumptions C17_machine_success_invokes_nothing.

(* the global event log of the trace, restricted to call k, is that call's own log *)
Theorem C17_events_project :
  forall (Req Res Err : Type) (st : strategy Req Res Err) pred ops k,
    map snd (filter (fun ke => Nat.eqb (fst ke) k) (m_events (run_ops st pred ops))) =
    match nth_error (m_calls (run_ops st pred ops)) k with Some c => c_log c | None => [] end.
Proof. exact @events_project. Qed.
Print Assumptions C17_events_project.

(* an operation aimed at one call leaves every other call untouched *)
Theorem C17_calls_independent :
  forall (Req Res Err : Type) (st : strategy Req Res Err) pred s o k c,
    nth_error (m_calls s) k = Some c -> target o <> Some k ->
    nth_error (m_calls (step st pred s o)) k = Some c.
Proof. exact @calls_independent. Qed.
Print Assumptions C17_calls_independent.

(* a readiness error of the inner service is reported as Inner(e): no call, no predicate, no strategy
   (the crate never falls back on it; the property's "inner error" is read as an error of the call) *)
Theorem C17_readiness_error_not_handled :
  forall (Req Res Err : Type) (st : strategy Req Res Err) pred s e,
    m_calls (step st pred s (OpReadyFail e)) = m_calls s /\
    m_events (step st pred s (OpReadyFail e)) = m_events s /\
    m_ready (step st pred s (OpReadyFail e)) = m_ready s ++ [Inner e].
Proof. exact @readiness_error_not_handled. Qed.
Print Assumptions C17_readiness_error_not_handled.
