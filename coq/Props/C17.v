(* C17 — Fallback never replaces a success and handles exactly the errors it should.
   Only statements, `exact` of a lemma from Proof/Fallback.v, and Print Assumptions. *)
From TR Require Import Lib.Base Model.Fallback Proof.Fallback.

Theorem C17_ok_passthrough :
  forall (Req Res Err : Type) (st : strategy Req Res Err) pred inner backup req r,
    inner req = inl r ->
    call st pred inner backup req =
      {| inner_calls := [req]; backup_calls := []; out := inl r |}.
Proof. exact @ok_passthrough. Qed.
Print Assumptions C17_ok_passthrough.

Theorem C17_predicate_gate :
  forall (Req Res Err : Type) (st : strategy Req Res Err) pred inner backup req e,
    inner req = inr e -> handles pred e = false ->
    call st pred inner backup req =
      {| inner_calls := [req]; backup_calls := []; out := inr (Inner e) |}.
Proof. exact @predicate_gate. Qed.
Print Assumptions C17_predicate_gate.

Theorem C17_strategy_exact :
  forall (Req Res Err : Type) (st : strategy Req Res Err) pred inner backup req e,
    inner req = inr e -> handles pred e = true ->
    call st pred inner backup req =
      {| inner_calls := [req]; backup_calls := spec_backup st req;
         out := spec_out st backup req e |}.
Proof. exact @strategy_exact. Qed.
Print Assumptions C17_strategy_exact.

Theorem C17_inner_called_exactly_once :
  forall (Req Res Err : Type) (st : strategy Req Res Err) pred inner backup req,
    inner_calls (call st pred inner backup req) = [req].
Proof. exact @inner_called_exactly_once. Qed.
Print Assumptions C17_inner_called_exactly_once.

Theorem C17_backup_called_iff :
  forall (Req Res Err : Type) (st : strategy Req Res Err) pred inner backup req,
    backup_calls (call st pred inner backup req) <> [] <->
    (st = SService /\ exists e, inner req = inr e /\ handles pred e = true).
Proof. exact @backup_called_iff. Qed.
Print Assumptions C17_backup_called_iff.
