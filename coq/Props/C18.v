(* C18 — Health status flips only at its thresholds; selection returns eligible resources.
   Only statements, `exact` of a lemma from Proof/Health.v, and Print Assumptions.

   [run_results f s rs] = the (status, consecutive_failures, consecutive_successes) of a
   resource after the effective check results rs (oldest first), thresholds f (failure) and
   s (success); a timed-out check is the effective result Unhealthy ([effective]).
   [nonunk rs] drops the Unknown results: the code ignores them completely, counters
   included, so "consecutive" means consecutive among the results that are not Unknown.
   [all_suffix p n l]: the last n elements of l all satisfy p. *)
From TR Require Import Lib.Base Model.Health Proof.Health.

(* status becomes Unhealthy at a result => that result is a failure and it completes a run
   of failure_threshold consecutive failures *)
Theorem C18_unhealthy_only_after :
  forall f s rs x,
    1 <= f ->
    st (run_results f s rs) <> Unhealthy ->
    st (run_results f s (rs ++ [x])) = Unhealthy ->
    x = Unhealthy /\ all_suffix is_unhealthy (Z.to_nat f) (nonunk (rs ++ [x])).
Proof. exact unhealthy_only_after. Qed.
Print Assumptions C18_unhealthy_only_after.

(* status becomes Healthy at a result => that result is Healthy and it completes a run of
   success_threshold consecutive non-failing (Healthy or Degraded) results *)
Theorem C18_healthy_only_after :
  forall f s rs x,
    1 <= s ->
    st (run_results f s rs) <> Healthy ->
    st (run_results f s (rs ++ [x])) = Healthy ->
    x = Healthy /\ all_suffix is_usable (Z.to_nat s) (nonunk (rs ++ [x])).
Proof. exact healthy_only_after. Qed.
Print Assumptions C18_healthy_only_after.

(* the thresholds are also sufficient *)
Theorem C18_unhealthy_when :
  forall f s rs,
    all_suffix is_unhealthy (Z.to_nat f) (nonunk (rs ++ [Unhealthy])) ->
    st (run_results f s (rs ++ [Unhealthy])) = Unhealthy.
Proof. exact unhealthy_when. Qed.
Print Assumptions C18_unhealthy_when.

Theorem C18_healthy_when :
  forall f s rs,
    all_suffix is_usable (Z.to_nat s) (nonunk (rs ++ [Healthy])) ->
    st (run_results f s (rs ++ [Healthy])) = Healthy.
Proof. exact healthy_when. Qed.
Print Assumptions C18_healthy_when.

(* exact published status after one more result, and what the two counters are *)
Theorem C18_status_step :
  forall f s rs x,
    st (run_results f s (rs ++ [x])) =
    match x with
    | Unknown => st (run_results f s rs)
    | Degraded => Degraded
    | Unhealthy => if f <=? Z.of_nat (trail is_unhealthy (nonunk (rs ++ [x]))) then Unhealthy
                   else st (run_results f s rs)
    | Healthy => if s <=? Z.of_nat (trail is_usable (nonunk (rs ++ [x]))) then Healthy
                 else st (run_results f s rs)
    end.
Proof. exact status_step. Qed.
Print Assumptions C18_status_step.

Theorem C18_counters :
  forall f s rs,
    cf (run_results f s rs) = Z.of_nat (trail is_unhealthy (nonunk rs)) /\
    cs (run_results f s rs) = Z.of_nat (trail is_usable (nonunk rs)).
Proof. exact counters_spec. Qed.
Print Assumptions C18_counters.

(* a Degraded result is published at once, whatever the thresholds and the history *)
Theorem C18_degraded_at_once :
  forall f s rs,
    st (run_results f s (rs ++ [Degraded])) = Degraded /\
    cf (run_results f s (rs ++ [Degraded])) = 0 /\
    cs (run_results f s (rs ++ [Degraded])) = cs (run_results f s rs) + 1.
Proof. exact degraded_at_once. Qed.
Print Assumptions C18_degraded_at_once.

(* an Unknown result anywhere in the sequence changes nothing: status and both counters *)
Theorem C18_unknown_noop :
  forall f s rs rs',
    run_results f s (rs ++ Unknown :: rs') = run_results f s (rs ++ rs').
Proof. exact unknown_noop. Qed.
Print Assumptions C18_unknown_noop.

(* a check slower than the timeout is a failure; one that answers in time is its answer *)
Theorem C18_timeout_is_failure :
  forall timeout answer delay,
    0 < delay -> timeout < delay -> effective timeout answer delay = Unhealthy.
Proof. exact timeout_is_failure. Qed.
Print Assumptions C18_timeout_is_failure.

(* link to the simulated background task: after start() and any sequence of waits, the
   published state of every resource is run_results over the effective results of the
   checks of that resource that have finished (k-th check = k-th entry of its checker
   script; beyond the script: Healthy at once) *)
Theorem C18_wrapper_state_is_fold :
  forall c scripts waits,
    Forall2 (fun orig r =>
               0 <= r_finished r /\
               r_state r = run_results (fthr c) (sthr c)
                             (map (eff_at c orig) (seq 0 (Z.to_nat (r_finished r)))))
            scripts (rsims (reach c scripts waits)).
Proof. exact sim_is_fold. Qed.
Print Assumptions C18_wrapper_state_is_fold.

(* selection: for every strategy (any custom selector included), any cursor *)
Theorem C18_get_healthy_sound :
  forall sg rs c i c',
    get_healthy sg rs c = (Some i, c') ->
    exists r, nth_error rs i = Some r /\ st r = Healthy.
Proof. exact get_healthy_sound. Qed.
Print Assumptions C18_get_healthy_sound.

Theorem C18_get_usable_sound :
  forall sg rs c i c',
    get_usable sg rs c = (Some i, c') ->
    exists r, nth_error rs i = Some r /\ (st r = Healthy \/ st r = Degraded).
Proof. exact get_usable_sound. Qed.
Print Assumptions C18_get_usable_sound.

(* nothing qualifies => nothing is returned and the cursor does not move *)
Theorem C18_none_when_none :
  forall flt sg rs c,
    (forall r, In r rs -> flt (st r) = false) ->
    get_with_filter flt sg rs c = (None, c).
Proof. exact none_when_none. Qed.
Print Assumptions C18_none_when_none.

(* the built-in strategies return something whenever something qualifies *)
Theorem C18_some_when_some :
  forall flt sg rs c r,
    implies_usable flt ->
    sg = FirstAvailable \/ sg = RoundRobin \/ sg = PreferHealthy ->
    In r rs -> flt (st r) = true ->
    fst (get_with_filter flt sg rs c) <> None.
Proof. exact some_when_some. Qed.
Print Assumptions C18_some_when_some.

(* round robin: while the eligible set (available flt rs) is constant with n members, any
   k*n consecutive selections whose cursor values stay below 2^64 select each member
   exactly k times (flt = is_healthy for get_healthy, is_usable for get_usable) *)
Theorem C18_round_robin_even :
  forall flt rs c k i,
    implies_usable flt ->
    let av := available flt rs in
    (0 < length av)%nat ->
    0 <= c -> c + Z.of_nat (k * length av) <= two64 ->
    In i (map fst av) ->
    count_sel i (fst (get_many flt RoundRobin rs c (k * length av))) = k.
Proof. exact round_robin_even. Qed.
Print Assumptions C18_round_robin_even.
