(* C18 — Health status flips only at its thresholds; selection returns eligible resources.
   Only statements, `exact` of a lemma from Proof/Health.v, and Print Assumptions.

   [run_results f s rs] = the (status, consecutive_failures, consecutive_successes) of a
   resource after the effective check results rs (oldest first), thresholds f (failure) and
   s (success); a timed-out check is the effective result Unhealthy ([effective]).
   [nonunk rs] drops the Unknown results: the code ignores them completely, counters
   included, so "consecutive" means consecutive among the results that are not Unknown.
   [all_suffix p n l]: the last n elements of l all satisfy p. *)
From TR Require Import Lib.Base Model.Health Proof.Health.

(* status becomes Unhealthy at a result => that result is a failure and it completes a run
   of failure_threshold consecutive failures *)
Theorem C18_unhealthy_only_after :
  forall f s rs x,
    1 <= f ->
    st (run_results f s rs) <> Unhealthy ->
    st (run_results f s (rs ++ [x])) = Unhealthy ->
    x = Unhealthy /\ all_suffix is_unhealthy (Z.to_nat f) (nonunk (rs ++ [x])).
Proof. exact unhealthy_only_after. Qed.
Print Assumptions C18_unhealthy_only_after.

(* status becomes Healthy at a result => that result is Healthy and it completes a run of
   success_threshold consecutive non-failing (Healthy or Degraded) results *)
Theorem C18_healthy_only_after :
  forall f s rs x,
    1 <= s ->
    st (run_results f s rs) <> Healthy ->
    st (run_results f s (rs ++ [x])) = Healthy ->
    x = Healthy /\ all_suffix is_usable (Z.to_nat s) (nonunk (rs ++ [x])).
Proof. exact healthy_only_after. Qed.
Print Assumptions C18_healthy_only_after.

(* the thresholds are also sufficient *)
Theorem C18_unhealthy_when :
  forall f s rs,
    all_suffix is_unhealthy (Z.to_nat f) (nonunk (rs ++ [Unhealthy])) ->
    st (run_results f s (rs ++ [Unhealthy])) = Unhealthy.
Proof. exact unhealthy_when. Qed.
Print Assumptions C18_unhealthy_when.

Theorem C18_healthy_when :
  forall f s rs,
    all_suffix is_usable (Z.to_nat s) (nonunk (rs ++ [Healthy])) ->
    st (run_results f s (rs ++ [Healthy])) = Healthy.
Proof. exact healthy_when. Qed.
Print Assumptions C18_healthy_when.

(* exact published status after one more result, and what the two counters are *)
Theorem C18_status_step :
  forall f s rs x,
    st (run_results f s (rs ++ [x])) =
    match x with
    | Unknown => st (run_results f s rs)
    | Degraded => Degraded
    | Unhealthy => if f <=? Z.of_nat (trail is_unhealthy (nonunk (rs ++ [x]))) then Unhealthy
                   else st (run_results f s rs)
    | Healthy => if s <=? Z.of_nat (trail is_usable (nonunk (rs ++ [x]))) then Healthy
                 else st (run_results f s rs)
    end.
Proof. exact status_step. Qed.
Print Assumptions C18_status_step.

Theorem C18_counters :
  forall f s rs,
    cf (run_results f s rs) = Z.of_nat (trail is_unhealthy (nonunk rs)) /\
    cs (run_results f s rs) = Z.of_nat (trail is_usable (nonunk rs)).
Proof. exact counters_spec. Qed.
Print Assumptions C18_counters.

(* a Degraded result is published at once, whatever the thresholds and the history *)
Theorem C18_degraded_at_once :
  forall f s rs,
    st (run_results f s (rs ++ [Degraded])) = Degraded /\
    cf (run_results f s (rs ++ [Degraded])) = 0 /\
    cs (run_results f s (rs ++ [Degraded])) = cs (run_results f s rs) + 1.
Proof. exact degraded_at_once. Qed.
Print Assumptions C18_degraded_at_once.

(* an Unknown result anywhere in the sequence changes nothing: status and both counters *)
Theorem C18_unknown_noop :
  forall f s rs rs',
    run_results f s (rs ++ Unknown :: rs') = run_results f s (rs ++ rs').
Proof. exact unknown_noop. Qed.
Print Assumptions C18_unknown_noop.

(* a check slower than the timeout is a failure; one that answers in time is its answer *)
Theorem C18_timeout_is_failure :
  forall timeout answer delay,
    0 < delay -> timeout < delay -> effective timeout answer delay = Unhealthy.
Proof. exact timeout_is_failure. Qed.
Print Assumptions C18_timeout_is_failure.

(* link to the simulated background task: after start() and any sequence of waits, the
   published state of every resource is run_results over the effective results of the
   checks of that resource that have finished (k-th check = k-th entry of its checker
   script; beyond the script: Healthy at once) *)
Theorem C18_wrapper_state_is_fold :
  forall c scripts waits,
    Forall2 (fun orig r =>
               0 <= r_finished r /\
               r_state r = run_results (fthr c) (sthr c)
                             (map (eff_at c orig) (seq 0 (Z.to_nat (r_finished r)))))
            scripts (rsims (reach c scripts waits)).
Proof. exact sim_is_fold. Qed.
Print Assumptions C18_wrapper_state_is_fold.

(* selection: for every strategy (any custom selector included), any cursor *)
Theorem C18_get_healthy_sound :
  forall sg rs c i c',
    get_healthy sg rs c = (Some i, c') ->
    exists r, nth_error rs i = Some r /\ st r = Healthy.
Proof. exact get_healthy_sound. Qed.
Print Assumptions C18_get_healthy_sound.

Theorem C18_get_usable_sound :
  forall sg rs c i c',
    get_usable sg rs c = (Some i, c') ->
    exists r, nth_error rs i = Some r /\ (st r = Healthy \/ st r = Degraded).
Proof. exact get_usable_sound. Qed.
Print Assumptions C18_get_usable_sound.

(* nothing qualifies => nothing is returned and the cursor does not move *)
Theorem C18_none_when_none :
  forall flt sg rs c,
    (forall r, In r rs -> flt (st r) = false) ->
    get_with_filter flt sg rs c = (None, c).
Proof. exact none_when_none. Qed.
Print Assumptions C18_none_when_none.

(* the built-in strategies return something whenever something qualifies *)
Theorem C18_some_when_some :
  forall flt sg rs c r,
    implies_usable flt ->
    sg = FirstAvailable \/ sg = RoundRobin \/ sg = PreferHealthy ->
    In r rs -> flt (st r) = true ->
    fst (get_with_filter flt sg rs c) <> None.
Proof. exact some_when_some. Qed.
Print Assumptions C18_some_when_some.

(* round robin: while the eligible set (available flt rs) is constant with n members, any
   k*n consecutive selections whose cursor values stay below 2^64 select each member
   exactly k times (flt = is_healthy for get_healthy, is_usable for get_usable) *)
Theorem C18_round_robin_even :
  forall flt rs c k i,
    implies_usable flt ->
    let av := available flt rs in
    (0 < length av)%nat ->
    0 <= c -> c + Z.of_nat (k * length av) <= two64 ->
    In i (map fst av) ->
    count_sel i (fst (get_many flt RoundRobin rs c (k * length av))) = k.
Proof. exact round_robin_even. Qed.
Print Assumptions C18_round_robin_even.

(* ---------------------------------------------------------------------------------------------
   Added in the improvement round.

   (1) One statement about the PUBLISHED status of the simulated wrapper (the states [reach] that
   run_script observes): for every resource there is the list of effective results of its finished
   checks - the k-th one is the checker's k-th scripted answer, or Unhealthy if that check was slower
   than the timeout - and the published status is the one the rule of the property ([published],
   built from [flip_rule]: Unhealthy iff a failure completes failure_threshold consecutive failures,
   Healthy iff a Healthy result completes success_threshold consecutive non-failing ones, Degraded at
   once, Unknown nothing, no other change) assigns to that list. Composes C18_wrapper_state_is_fold,
   C18_timeout_is_failure and C18_status_step. [published] is deterministic (C18_published_unique),
   so this fixes the status; the "only" clauses follow on [published] itself. *)
Theorem C18_published_status :
  forall c scripts waits,
    Forall2 (fun orig r =>
       exists results,
         0 <= r_finished r /\ length results = Z.to_nat (r_finished r) /\
         (forall k, (k < length results)%nat ->
             nth k results Unknown =
               (if (0 <? snd (answer_at orig k)) && (timeout c <? snd (answer_at orig k))
                then Unhealthy else fst (answer_at orig k))) /\
         published (fthr c) (sthr c) results (st (r_state r)))
     scripts (rsims (reach c scripts waits)).
Proof. exact published_status. Qed.
Print Assumptions C18_published_status.

Theorem C18_published_unique :
  forall f s rs a b, published f s rs a -> published f s rs b -> a = b.
Proof. exact published_unique. Qed.
Print Assumptions C18_published_unique.

Theorem C18_published_is_run :
  forall f s rs a, published f s rs a <-> a = st (run_results f s rs).
Proof. exact published_is_run. Qed.
Print Assumptions C18_published_is_run.

Theorem C18_published_unhealthy_only_after :
  forall f s rs x before after,
    published f s rs before -> published f s (rs ++ [x]) after ->
    before <> Unhealthy -> after = Unhealthy ->
    x = Unhealthy /\ all_suffix is_unhealthy (Z.to_nat f) (nonunk (rs ++ [x])).
Proof. exact published_unhealthy_only_after. Qed.
Print Assumptions C18_published_unhealthy_only_after.

Theorem C18_published_healthy_only_after :
  forall f s rs x before after,
    published f s rs before -> published f s (rs ++ [x]) after ->
    before <> Healthy -> after = Healthy ->
    x = Healthy /\ all_suffix is_usable (Z.to_nat s) (nonunk (rs ++ [x])).
Proof. exact published_healthy_only_after. Qed.
Print Assumptions C18_published_healthy_only_after.

(* (2) What run_script executes: the ints printed for event e of a script are [ev_out] at the state
   reached by the events before it (simulated wrapper, get_healthy's cursor, get_usable's cursor), and
   the wrapper part of that state is [reach] of the waits so far - so every theorem about [reach] /
   [get_many] / [get_calls] is a theorem about the trace. *)
Theorem C18_trace_event :
  forall c sg pre e post s ch cu,
    let sc := fold_left (ev_step c sg) pre (s, (ch, cu)) in
    let sc' := ev_step c sg sc e in
    run_events c sg (pre ++ e :: post) s ch cu =
    run_events c sg pre s ch cu ++ ev_out c sg sc e ++
    run_events c sg post (fst sc') (fst (snd sc')) (snd (snd sc')).
Proof. exact run_events_split. Qed.
Print Assumptions C18_trace_event.

Theorem C18_trace_state_is_reach :
  forall c sg scripts pre,
    fst (fold_left (ev_step c sg) pre (start c scripts, (0, 0))) = reach c scripts (ev_waits pre).
Proof. exact ev_state_is_reach. Qed.
Print Assumptions C18_trace_state_is_reach.

(* the picks printed by the selection events (op 1 = get_healthy, op 2 = get_usable) of a script, in
   order and across the waits in between, are the picks of ONE [get_calls] over all accessor calls of the
   script ([ev_calls]: each call with the published states at that point), and the cursors carried
   between events are those of that get_calls. (Replaces C18_trace_selection_block of the shared-cursor
   model, which covered only blocks without a wait in between.) *)
Theorem C18_trace_selection_calls :
  forall c sg pre e s ch cu,
    fst e = 1 \/ fst e = 2 ->
    let sc := fold_left (ev_step c sg) pre (s, (ch, cu)) in
    map enc_sel (fst (get_calls sg ch cu (ev_calls c (pre ++ [e]) s))) =
    map enc_sel (fst (get_calls sg ch cu (ev_calls c pre s))) ++ ev_out c sg sc e.
Proof. exact trace_selection_calls. Qed.
Print Assumptions C18_trace_selection_calls.

Theorem C18_trace_cursors :
  forall c sg evs s ch cu,
    snd (fold_left (ev_step c sg) evs (s, (ch, cu))) = snd (get_calls sg ch cu (ev_calls c evs s)).
Proof. exact ev_cursors. Qed.
Print Assumptions C18_trace_cursors.

(* (3) The two accessors have one round-robin cursor each (repository fix 73b01f9; before it they shared
   one and C18_round_robin_per_accessor_refuted was a theorem of this file).
   Non-interference, any strategy: what an accessor returns over ANY interleaving of calls
   ([sub_picks b]) is what it returns called alone on the states its own calls see ([get_one]). *)
Theorem C18_accessors_independent :
  forall sg ch cu calls b,
    sub_picks b calls (fst (get_calls sg ch cu calls)) =
    fst (get_one (flt_of b) sg (if b then ch else cu) (sub_calls b calls)).
Proof. exact sub_picks_one. Qed.
Print Assumptions C18_accessors_independent.

(* Round robin is even PER ACCESSOR: for any interleaving of calls through the two accessors, statuses
   changing in between or not, take the calls of accessor b (true = get_healthy, false = get_usable):
   if they all see the same eligible list av (n members) and there are k*n of them (cursor below 2^64),
   they return each member exactly k times. Any window of an accessor's own stream is such a list of
   calls, so every n consecutive picks of one accessor are a permutation of its eligible set. *)
Theorem C18_round_robin_even_per_accessor :
  forall ch cu calls b av k i,
    (forall rs, In (b, rs) calls -> available (flt_of b) rs = av) ->
    (0 < length av)%nat -> length (sub_calls b calls) = (k * length av)%nat ->
    0 <= (if b then ch else cu) ->
    (if b then ch else cu) + Z.of_nat (k * length av) <= two64 ->
    In i (map fst av) ->
    count_sel i (sub_picks b calls (fst (get_calls RoundRobin ch cu calls))) = k.
Proof. exact round_robin_even_per_accessor. Qed.
Print Assumptions C18_round_robin_even_per_accessor.

(* The combined stream of both accessors is a merge of two even streams, nothing more: with the same
   eligible list for all calls, kh*n get_healthy calls and ku*n get_usable calls return each member
   kh + ku times. (C18_round_robin_even_mixed - every k*n consecutive calls of the merged stream pick each
   member k times - was true of the shared cursor and is FALSE now: Proof/Health.v ex_rr_combined_merge,
   picks 0 0 1 1; it is removed.) *)
Theorem C18_round_robin_even_combined :
  forall ch cu calls av kh ku i,
    (forall b rs, In (b, rs) calls -> available (flt_of b) rs = av) ->
    (0 < length av)%nat ->
    length (sub_calls true calls) = (kh * length av)%nat ->
    length (sub_calls false calls) = (ku * length av)%nat ->
    0 <= ch -> ch + Z.of_nat (kh * length av) <= two64 ->
    0 <= cu -> cu + Z.of_nat (ku * length av) <= two64 ->
    In i (map fst av) ->
    count_sel i (fst (get_calls RoundRobin ch cu calls)) = (kh + ku)%nat.
Proof. exact round_robin_even_combined. Qed.
Print Assumptions C18_round_robin_even_combined.

(* (4) settle's fuel (fuel0 = 40) is never the reason it stops: with interval >= 1 ms any larger fuel
   gives the same state, from ANY state; and every state run_script observes is settled (nothing
   further can happen at that instant). interval = 0 is excluded (tokio::time::interval panics). *)
Theorem C18_fuel_suffices :
  forall c, 1 <= interval c ->
    forall s fuel, (fuel0 <= fuel)%nat -> settle c fuel s = settle c fuel0 s.
Proof. exact fuel_suffices. Qed.
Print Assumptions C18_fuel_suffices.

Theorem C18_observed_states_settled :
  forall c scripts waits fuel, 1 <= interval c ->
    settle c fuel (reach c scripts waits) = reach c scripts waits.
Proof. exact reach_settled. Qed.
Print Assumptions C18_observed_states_settled.

(* (5) SelectionStrategy::Random (crate feature `random`, compiled into the driver): the RNG draw is a
   parameter of the model's [Random d]. For every draw it returns something whenever something qualifies,
   what it returns qualifies, and it does not move the cursor. (C18_get_healthy_sound / C18_get_usable_sound /
   C18_none_when_none quantify over every strategy and so cover [Random d] as well.) No evenness is claimed. *)
Theorem C18_random_strategy :
  forall flt d rs c r,
    implies_usable flt -> In r rs -> flt (st r) = true ->
    exists i r', get_with_filter flt (Random d) rs c = (Some i, c) /\
                 nth_error rs i = Some r' /\ flt (st r') = true.
Proof. exact random_some_when_some. Qed.
Print Assumptions C18_random_strategy.

(* (6) The tracing callbacks only observe: whatever they yield (return, panic, a panic whose payload panics
   when dropped), the published state is the same fold. This is the model of the code as repaired by 19290c9
   (before it a panicking on_check_failed made the timed-out check vanish: seeded/C18-r5); the driver makes
   the registered callbacks panic (script bit 64 / 128 / 256) and the model ignores those bits. *)
Theorem C18_observers_cannot_change_status :
  forall (O : Type) (obs : rstate -> status -> rstate -> list O) f s rs,
    fst (run_observed obs f s rs) = run_results f s rs.
Proof. exact @observers_cannot_change_status. Qed.
Print Assumptions C18_observers_cannot_change_status.
