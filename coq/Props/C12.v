(* C12 — Hedge starts a bounded number of attempts and fails only when all have failed.
   Model: Model/Hedge.v (poll-granular model of Hedge::call / execute_with_hedging over a
   tokio mpsc channel, spawned attempt tasks, time::sleep and a biased select!, with an inner
   service that may apply back-pressure to its clones and whose clones may fail readiness).
   Every theorem is quantified over every configuration with max_hedged_attempts >= 1
   (fixed, zero, immediate and per-attempt delays of any size — Duration::MAX is the delay
   10^18 ms, a microsecond delay is its value rounded up to whole milliseconds,
   C12_delay_rounding; clones ready at once or only when the script says so), over every list
   of events — polls of any of the concurrent hedged calls in any order, cancellations, clock
   advances, inner completions with ok / error / panic at any instant, before or after the call
   is made (never completed = no Complete event), clones becoming ready, or starting to fail
   readiness, at any instant, in any order, or never — and over every call index i.
   The hypothesis 1 <= maxa c holds for the configuration of every script (C12_script_cfg).
   Vocabulary (Model/Hedge.v, Proof/Hedge.v): for the call x = calls s i,
     launch x  : instant at which attempt task k ran for the first time, at position k (the
                 primary: its inner call; a hedge: its clone is asked for readiness);
     waiting x : hedge tasks suspended until their clone is ready;  rdy x k : clone k is ready;
     rerr x k  : poll_ready of clone k fails;  rfl x : hedge tasks whose clone failed readiness
                 (they gave up without an inner call; their error rval i k was sent instead);
     starts x  : the inner calls actually made, in call order: (attempt task, instant);
     t0 x      : instant of the first poll;  dline x : deadline of the armed hedge timer;
     queue x   : contents of the result channel (attempt task, is_ok, value), FIFO;
     dlog x    : every message ever put into the channel, with its instant;
     cons x    : the messages the call future has taken out;  res x : (code, value, instant)
     once resolved, code 1 = Ok, 3 = AllAttemptsFailed;  val i n : value of inner call n.
   Only statements, `exact`, and Print Assumptions. *)
From TR Require Import Lib.Base Model.Hedge Proof.Hedge.

(* At most max_hedged_attempts attempts are ever launched, and inner calls are made by
   launched attempts only (one each, see C12_readiness); and if the primary's success was
   queued before the first hedge delay had elapsed, no hedge is even launched: the primary's
   is the only inner call (latency mode; in parallel mode all attempts start at once by design). *)
Theorem C12_bounded_starts :
  forall (c : cfg) (evs : list ev) (i : nat), (1 <= maxa c)%nat ->
  Forall (fun s => let x := calls s i in
     (length (starts x) <= length (launch x))%nat /\ (length (launch x) <= maxa c)%nat /\
     (forall v tau, latency_mode c = true -> In ((0%nat, true, v), tau) (dlog x) ->
         tau < t0 x + delay c 1 -> length (launch x) = 1%nat /\ length (starts x) = 1%nat))
  (states (step_st c) (init c) evs).
Proof. exact bounded_starts. Qed.
Print Assumptions C12_bounded_starts.

(* Latency mode: attempt k+1 is launched no earlier than delay(k+1) after attempt k was
   launched. Parallel mode (Fixed 0 / Immediate): once begun, all max attempts have been
   launched, all at the instant of the first poll. The primary is launched, and makes its
   inner call, at the first poll. Every inner call is made at or after the launch of its
   attempt (hence no earlier than the configured delay after the previous attempt was
   launched) — later only if its clone was not ready (C12_readiness, C12_spacing_prompt,
   C12_ready_starts). While a further hedge is possible the timer is armed for exactly
   (latest launch) + delay(next attempt), and once that instant is reached the call future
   has been woken.
   Under back-pressure the inner-call instants of consecutive attempts are NOT pairwise
   spaced (two clones readied together start together); the launch instants are. *)
Theorem C12_spacing :
  forall (c : cfg) (evs : list ev) (i : nat), (1 <= maxa c)%nat ->
  Forall (fun s => let x := calls s i in
     (latency_mode c = true -> forall k, (S k < length (launch x))%nat ->
          nth k (launch x) 0 + delay c (S k) <= nth (S k) (launch x) 0) /\
     (latency_mode c = false -> (1 <= length (launch x))%nat ->
          length (launch x) = maxa c /\ Forall (eq (t0 x)) (launch x)) /\
     ((1 <= length (launch x))%nat -> nth 0 (launch x) 0 = t0 x) /\
     (forall k s0, In (k, s0) (starts x) ->
          (k < length (launch x))%nat /\ nth k (launch x) 0 <= s0 <= now s) /\
     (forall k s0, nth_error (starts x) 0 = Some (k, s0) -> k = 0%nat /\ s0 = t0 x) /\
     (ph x = Latency -> (length (launch x) < maxa c)%nat ->
          dline x = nth (length (launch x) - 1) (launch x) 0 + delay c (length (launch x)) /\
          (dline x <= now s -> woken x = true)))
  (states (step_st c) (init c) evs).
Proof. exact spacing. Qed.
Print Assumptions C12_spacing.

(* Who waits, who gave up: every launched attempt either waits for its clone, or has failed
   readiness, or has made exactly one inner call; a waiting attempt is a hedge whose clone is
   neither ready nor failing. Without back-pressure nobody ever waits and every inner call is made
   at the launch instant of its attempt (so C12_spacing speaks about the inner-call instants
   themselves, see C12_start_spacing); if moreover no clone failed readiness the inner calls are
   made in attempt order, one per launched attempt.
   (Statement changed with the model: readiness failures did not exist before; with rfl x = []
   this is the former statement.) *)
Theorem C12_readiness :
  forall (c : cfg) (evs : list ev) (i : nat), (1 <= maxa c)%nat ->
  Forall (fun s => let x := calls s i in
     (length (starts x) + length (waiting x) + length (rfl x) = length (launch x))%nat /\
     NoDup (map fst (starts x)) /\ NoDup (waiting x) /\ NoDup (rfl x) /\
     (forall k, In k (waiting x) ->
        (1 <= k < length (launch x))%nat /\ rdy x k = false /\ rerr x k = false /\
        ~ In k (map fst (starts x)) /\ ~ In k (rfl x)) /\
     (forall k, In k (rfl x) -> (1 <= k < length (launch x))%nat /\ ~ In k (map fst (starts x))) /\
     (gated c = false -> waiting x = [] /\
        (length (starts x) + length (rfl x) = length (launch x))%nat /\
        forall n k s0, nth_error (starts x) n = Some (k, s0) ->
          s0 = nth k (launch x) 0 /\ (rfl x = [] -> k = n)))
  (states (step_st c) (init c) evs).
Proof. exact readiness. Qed.
Print Assumptions C12_readiness.

(* Clause 2 read directly on the inner calls. Without back-pressure, in latency mode:
   consecutive inner calls are made by attempts of increasing number, and the later one is made
   no earlier than its configured delay after the earlier one was made; if no clone failed
   readiness they are attempts n and n+1, i.e. start(n+1) >= start(n) + delay(n+1).
   (With back-pressure the clause holds for the launch instants, C12_spacing, and is false for
   the inner-call instants: two clones readied together start together.) *)
Theorem C12_start_spacing :
  forall (c : cfg) (evs : list ev) (i : nat), (1 <= maxa c)%nat ->
  gated c = false -> latency_mode c = true ->
  Forall (fun s => let x := calls s i in
     forall n k1 s1 k2 s2, nth_error (starts x) n = Some (k1, s1) ->
       nth_error (starts x) (S n) = Some (k2, s2) ->
       (k1 < k2)%nat /\ s1 + delay c k2 <= s2 /\ (rfl x = [] -> k1 = n /\ k2 = S n))
  (states (step_st c) (init c) evs).
Proof. exact start_spacing. Qed.
Print Assumptions C12_start_spacing.

(* ... with equality under prompt polling: a poll at or after the timer's deadline that does
   not resolve the call launches the next attempt at the instant of that poll — polled exactly
   at the deadline (now s = dline x) that is launch(n) + delay(n+1) by C12_spacing — and if
   that attempt's clone is ready (and does not fail readiness) its inner call is made at that
   same instant. *)
Theorem C12_spacing_prompt :
  forall (c : cfg) (evs : list ev) (i : nat), (1 <= maxa c)%nat ->
  let s := fold_left (step_st c) evs (init c) in
  let x := calls s i in
  ph x = Latency -> (length (launch x) < maxa c)%nat -> dline x <= now s ->
  r (snd (step c s (Poll i))) = 0 ->
  let x' := calls (step_st c s (Poll i)) i in
  (length (launch x) < length (launch x'))%nat /\ nth (length (launch x)) (launch x') 0 = now s /\
  (rdy x (length (launch x)) = true -> rerr x (length (launch x)) = false ->
   In (length (launch x), now s) (starts x')).
Proof. exact spacing_prompt. Qed.
Print Assumptions C12_spacing_prompt.

(* a waiting attempt makes its inner call at the instant its clone becomes ready *)
Theorem C12_ready_starts :
  forall (c : cfg) (evs : list ev) (i k : nat), (1 <= maxa c)%nat ->
  let s := fold_left (step_st c) evs (init c) in
  In k (waiting (calls s i)) ->
  In (k, now s) (starts (calls (step_st c s (Ready i k)) i)).
Proof. exact ready_starts. Qed.
Print Assumptions C12_ready_starts.

(* a waiting attempt whose clone starts failing readiness gives up at that instant: it never
   makes an inner call; while the call is unresolved its error is delivered to the call future *)
Theorem C12_readyerr_fails :
  forall (c : cfg) (evs : list ev) (i k : nat), (1 <= maxa c)%nat ->
  let s := fold_left (step_st c) evs (init c) in
  In k (waiting (calls s i)) ->
  let x' := calls (step_st c s (ReadyErr i k)) i in
  In k (rfl x') /\ starts x' = starts (calls s i) /\ ~ In k (waiting x') /\
  (pending (calls s i) -> In ((k, false, rval i k), now s) (dlog x')).
Proof. exact readyerr_fails. Qed.
Print Assumptions C12_readyerr_fails.

(* A poll of an unresolved call returns Ok exactly when a success is queued, and then with
   the first queued success — whatever else is going on: a timer that is due in the same poll
   does not get in the way (results are taken first), and neither do hedge attempts that are
   still waiting for their clones to become ready (there is no hypothesis on waiting x). What
   is queued is everything delivered and not yet taken, and everything taken so far was an
   error, so that success is the earliest one delivered; a non-empty queue has woken the call
   future. Hence the call resolves at the first poll at which a success is queued. *)
Theorem C12_first_success_wins :
  forall (c : cfg) (evs : list ev) (i : nat), (1 <= maxa c)%nat ->
  let s := fold_left (step_st c) evs (init c) in
  let x := calls s i in
  ph x = Latency \/ ph x = Drain ->
  let o := snd (step c s (Poll i)) in
  let x' := calls (step_st c s (Poll i)) i in
  (forall k v0, find it_ok (queue x) = Some (k, true, v0) ->
       r o = 1 /\ v o = v0 /\ res x' = Some (1, v0, now s)) /\
  (find it_ok (queue x) = None -> r o <> 1) /\
  (map fst (dlog x) = cons x ++ queue x /\ Forall (fun m => it_ok m = false) (cons x)) /\
  (queue x <> [] -> woken x = true).
Proof. exact first_success_wins. Qed.
Print Assumptions C12_first_success_wins.

(* state form: an Ok result carries the value of the earliest success ever delivered *)
Theorem C12_ok_is_earliest_success :
  forall (c : cfg) (evs : list ev) (i : nat), (1 <= maxa c)%nat ->
  Forall (fun s => let x := calls s i in
     forall v tau, res x = Some (1, v, tau) ->
       exists k t1, find it_ok (map fst (dlog x)) = Some (k, true, v) /\
                    In ((k, true, v), t1) (dlog x) /\ t1 <= tau /\ tau <= now s)
  (states (step_st c) (init c) evs).
Proof. exact ok_is_earliest. Qed.
Print Assumptions C12_ok_is_earliest_success.

(* AllAttemptsFailed e at instant tau  ==>  max_hedged_attempts attempts were launched; none is
   still waiting to be started: every attempt k < max has made its inner call or its clone has
   failed readiness (the only case in which an attempt "that can be started" makes no inner
   call); every inner call made has finished without success: its error was delivered by tau,
   or (the only other possibility) its task panicked; every readiness failure was delivered by
   tau. In latency mode every inner call has delivered an error and e is the primary's error. In
   parallel mode and for a single attempt e is the first error received (for a single attempt
   that is the primary's). What e is, is a fact about this implementation, not part of C12.
   (Statement changed with the model: `length (starts x) = maxa c` became
   `length (starts x) + length (rfl x) = maxa c`, the inner calls are those below
   `length (starts x)`; with rfl x = [] this is the former statement.) *)
Theorem C12_all_failed_only_if :
  forall (c : cfg) (evs : list ev) (i : nat), (1 <= maxa c)%nat ->
  Forall (fun s => let x := calls s i in
     forall e tau, res x = Some (3, e, tau) ->
       length (launch x) = maxa c /\ (length (starts x) + length (rfl x) = maxa c)%nat /\ waiting x = [] /\
       (forall k, (k < maxa c)%nat -> In k (map fst (starts x)) \/ In k (rfl x)) /\
       (forall n, (n < length (starts x))%nat -> exists o, gate x n = Some o /\ o <> OOk /\
           (o = OErr -> exists k tk, In ((k, false, val i n), tk) (dlog x) /\ tk <= tau)) /\
       (forall k, In k (rfl x) -> exists tk, In ((k, false, rval i k), tk) (dlog x) /\ tk <= tau) /\
       (latency_mode c = true -> (1 < maxa c)%nat ->
           e = val i 0 /\ forall n, (n < length (starts x))%nat -> gate x n = Some OErr) /\
       (latency_mode c = false \/ maxa c = 1%nat ->
           exists k tk rest, dlog x = ((k, false, e), tk) :: rest) /\
       (maxa c = 1%nat -> e = val i 0))
  (states (step_st c) (init c) evs).
Proof. exact all_failed_only_if. Qed.
Print Assumptions C12_all_failed_only_if.

(* The converse in the timer loop (not part of C12, which only says "only when"): once
   max_hedged_attempts messages have been delivered and all of them are errors, the next poll
   reports AllAttemptsFailed. *)
Theorem C12_all_failed_reported :
  forall (c : cfg) (evs : list ev) (i : nat), (1 <= maxa c)%nat ->
  let s := fold_left (step_st c) evs (init c) in
  let x := calls s i in
  ph x = Latency -> Forall (fun m => it_ok m = false) (map fst (dlog x)) ->
  (maxa c <= length (dlog x))%nat ->
  r (snd (step c s (Poll i))) = 3.
Proof. exact all_failed_reported. Qed.
Print Assumptions C12_all_failed_reported.

(* Every result is accounted for: the log of delivered messages is exactly what the future
   has taken followed by what is still queued; each attempt delivers at most once: either
   after it made its inner call, with that call's scripted outcome and value, or when its clone
   failed readiness, with that error; while the call is unresolved every inner call that has
   finished without panicking has delivered, and so has every readiness failure; what
   was taken while unresolved were errors only; an unseen message has woken the future, and
   so has the channel closing in the final loop. *)
Theorem C12_no_result_lost :
  forall (c : cfg) (evs : list ev) (i : nat), (1 <= maxa c)%nat ->
  Forall (fun s => let x := calls s i in
     map fst (dlog x) = cons x ++ queue x /\
     NoDup (map att (dlog x)) /\
     (forall m tau, In (m, tau) (dlog x) ->
        (exists n s0, nth_error (starts x) n = Some (it_att m, s0) /\
                      gate x n = Some (out_of (it_ok m)) /\ it_val m = val i n /\ s0 <= tau <= now s) \/
        (In (it_att m) (rfl x) /\ it_ok m = false /\ it_val m = rval i (it_att m) /\
         nth (it_att m) (launch x) 0 <= tau <= now s)) /\
     (pending x -> forall n k s0 o, nth_error (starts x) n = Some (k, s0) -> gate x n = Some o ->
        o <> OPanic -> In k (map att (dlog x))) /\
     (pending x -> forall k, In k (rfl x) -> In k (map att (dlog x))) /\
     (pending x -> Forall (fun m => it_ok m = false) (cons x)) /\
     (pending x -> queue x <> [] -> woken x = true) /\
     (ph x = Drain -> closed x = true -> woken x = true))
  (states (step_st c) (init c) evs).
Proof. exact no_result_lost. Qed.
Print Assumptions C12_no_result_lost.

(* Readiness failures are outside C12's quantifier. Without a ReadyErr event no attempt ever
   fails readiness: rfl stays empty on every reachable state, so that C12_readiness,
   C12_start_spacing and C12_all_failed_only_if read as the property does -- in particular
   AllAttemptsFailed ==> length (starts x) = maxa c: every attempt has been started. *)
Theorem C12_no_readyerr_no_rfl :
  forall (c : cfg) (evs : list ev) (i : nat), (1 <= maxa c)%nat ->
  (forall j k, ~ In (ReadyErr j k) evs) ->
  Forall (fun s => rfl (calls s i) = []) (states (step_st c) (init c) evs).
Proof. exact no_readyerr_no_rfl. Qed.
Print Assumptions C12_no_readyerr_no_rfl.

(* With positive delays (a fixed positive delay in particular: delay c k = d >= 1) a step
   launches at most one attempt, so after any list of events at most that many attempts have
   been launched. This is why run_script may run a script whose max_hedged_attempts exceeds its
   number of events + 1 (up to usize::MAX: no value makes the repaired code panic) with that
   number + 2 instead: the maximum is never reached. *)
Theorem C12_launches_le_events :
  forall (c : cfg) (evs : list ev) (i : nat), (1 <= maxa c)%nat ->
  (forall k, (1 <= k)%nat -> 1 <= delay c k) ->
  (length (launch (calls (fold_left (step_st c) evs (init c)) i)) <= length evs)%nat.
Proof. exact launches_le_events. Qed.
Print Assumptions C12_launches_le_events.

(* ... and below that bound the whole trace is the same for every maximum: two configurations
   that differ only in max_hedged_attempts, both above (number of events + 1), produce the same
   trace on every event list. So the trace run_script computes with (number of events + 2) IS
   the trace of the configured maximum, however large (usize::MAX included). *)
Theorem C12_max_irrelevant_below_bound :
  forall (c1 c2 : cfg) (total : nat) (evs : list ev),
  dcfg c1 = dcfg c2 -> gated c1 = gated c2 ->
  (forall k, (1 <= k)%nat -> 1 <= delay c1 k) ->
  (length evs + 2 <= maxa c1)%nat -> (length evs + 2 <= maxa c2)%nat ->
  run_evs c1 total (init c1) evs = run_evs c2 total (init c2) evs.
Proof. exact run_evs_maxa_irrelevant. Qed.
Print Assumptions C12_max_irrelevant_below_bound.

(* The scripts: the configuration of every script has max_hedged_attempts >= 1 (the only
   hypothesis above; the builder stores n.max(1), and so does cfg_of for max = 0); a delay given in microseconds is the model's millisecond delay up to
   rounding up (what a millisecond timer does on whole-millisecond instants), so "no earlier
   than delay c k" implies "no earlier than the configured delay". *)
Theorem C12_script_cfg : forall sc : list Z, (1 <= maxa (cfg_of sc))%nat.
Proof. exact cfg_of_maxa. Qed.
Print Assumptions C12_script_cfg.

Theorem C12_delay_rounding :
  forall d : Z, 0 <= d < dmax -> d <= 1000 * ms_of true d < d + 1000 /\ ms_of false d = d.
Proof. exact ms_of_round. Qed.
Print Assumptions C12_delay_rounding.
