(* C12 — Hedge starts a bounded number of attempts and fails only when all have failed.
   Model: Model/Hedge.v (poll-granular model of Hedge::call / execute_with_hedging over a
   tokio mpsc channel, spawned attempt tasks, time::sleep and a biased select!).
   Every theorem is quantified over every configuration with max_hedged_attempts >= 1
   (fixed, zero, immediate and per-attempt delays), over every list of events — polls of
   any of the concurrent hedged calls in any order, cancellations, clock advances, inner
   completions with ok / error / panic at any instant, before or after the attempt starts
   (a call never completed = no Complete event) — and over every call index i.
   Vocabulary (Model/Hedge.v, Proof/Hedge.v): for the call x = calls s i,
     starts x  : start instants of its inner calls, attempt k at position k;
     t0 x      : instant of its first poll;  dline x : deadline of the armed hedge timer;
     queue x   : contents of the result channel (attempt, is_ok, value), FIFO;
     dlog x    : every message ever put into the channel, with its instant;
     cons x    : the messages the call future has taken out;  res x : (code, value, instant)
     once resolved, code 1 = Ok, 3 = AllAttemptsFailed;  val i k : value carried by attempt k.
   Only statements, `exact`, and Print Assumptions. *)
From TR Require Import Lib.Base Model.Hedge Proof.Hedge.

(* At most max_hedged_attempts inner calls are ever started; and if the primary's success
   was queued before the first hedge delay had elapsed, the primary is the only inner call
   (in latency mode; in parallel mode all attempts start at once by design). *)
Theorem C12_bounded_starts :
  forall (c : cfg) (evs : list ev) (i : nat), (1 <= maxa c)%nat ->
  Forall (fun s => let x := calls s i in
     (length (starts x) <= maxa c)%nat /\
     (forall v tau, latency_mode c = true -> In ((0%nat, true, v), tau) (dlog x) ->
         tau < t0 x + delay c 1 -> length (starts x) = 1%nat))
  (states (step_st c) init evs).
Proof. exact bounded_starts. Qed.
Print Assumptions C12_bounded_starts.

(* Latency mode: attempt k+1 starts no earlier than delay(k+1) after attempt k started.
   Parallel mode (Fixed 0 / Immediate): once begun, all max attempts have started, all at
   the instant of the first poll. The primary starts at the first poll. While a further
   hedge is possible the timer is armed for exactly (latest start) + delay(next attempt),
   and once that instant is reached the call future has been woken. *)
Theorem C12_spacing :
  forall (c : cfg) (evs : list ev) (i : nat), (1 <= maxa c)%nat ->
  Forall (fun s => let x := calls s i in
     (latency_mode c = true -> forall k, (S k < length (starts x))%nat ->
          nth k (starts x) 0 + delay c (S k) <= nth (S k) (starts x) 0) /\
     (latency_mode c = false -> (1 <= length (starts x))%nat ->
          length (starts x) = maxa c /\ Forall (eq (t0 x)) (starts x)) /\
     ((1 <= length (starts x))%nat -> nth 0 (starts x) 0 = t0 x) /\
     (ph x = Latency -> (length (starts x) < maxa c)%nat ->
          dline x = nth (length (starts x) - 1) (starts x) 0 + delay c (length (starts x)) /\
          (dline x <= now s -> woken x = true)))
  (states (step_st c) init evs).
Proof. exact spacing. Qed.
Print Assumptions C12_spacing.

(* ... with equality under prompt polling: a poll at or after the timer's deadline that does
   not resolve the call starts the next attempt at the instant of that poll; polled exactly
   at the deadline (now s = dline x) that is start(n) + delay(n+1) by C12_spacing. *)
Theorem C12_spacing_prompt :
  forall (c : cfg) (evs : list ev) (i : nat), (1 <= maxa c)%nat ->
  let s := fold_left (step_st c) evs init in
  let x := calls s i in
  ph x = Latency -> (length (starts x) < maxa c)%nat -> dline x <= now s ->
  r (snd (step c s (Poll i))) = 0 ->
  let x' := calls (step_st c s (Poll i)) i in
  (length (starts x) < length (starts x'))%nat /\ nth (length (starts x)) (starts x') 0 = now s.
Proof. exact spacing_prompt. Qed.
Print Assumptions C12_spacing_prompt.

(* A poll of an unresolved call returns Ok exactly when a success is queued, and then with
   the first queued success (a timer that is due in the same poll does not get in the way:
   results are taken first). What is queued is everything delivered and not yet taken, and
   everything taken so far was an error, so that success is the earliest one delivered; a
   non-empty queue has woken the call future. Hence the call resolves at the first poll at
   which a success is queued. *)
Theorem C12_first_success_wins :
  forall (c : cfg) (evs : list ev) (i : nat), (1 <= maxa c)%nat ->
  let s := fold_left (step_st c) evs init in
  let x := calls s i in
  ph x = Latency \/ ph x = Drain ->
  let o := snd (step c s (Poll i)) in
  let x' := calls (step_st c s (Poll i)) i in
  (forall k v0, find it_ok (queue x) = Some (k, true, v0) ->
       r o = 1 /\ v o = v0 /\ res x' = Some (1, v0, now s)) /\
  (find it_ok (queue x) = None -> r o <> 1) /\
  (map fst (dlog x) = cons x ++ queue x /\ Forall (fun m => it_ok m = false) (cons x)) /\
  (queue x <> [] -> woken x = true).
Proof. exact first_success_wins. Qed.
Print Assumptions C12_first_success_wins.

(* state form: an Ok result carries the value of the earliest success ever delivered *)
Theorem C12_ok_is_earliest_success :
  forall (c : cfg) (evs : list ev) (i : nat), (1 <= maxa c)%nat ->
  Forall (fun s => let x := calls s i in
     forall v tau, res x = Some (1, v, tau) ->
       exists k t1, find it_ok (map fst (dlog x)) = Some (k, true, v) /\
                    In ((k, true, v), t1) (dlog x) /\ t1 <= tau /\ tau <= now s)
  (states (step_st c) init evs).
Proof. exact ok_is_earliest. Qed.
Print Assumptions C12_ok_is_earliest_success.

(* AllAttemptsFailed e at instant tau  ==>  max_hedged_attempts inner calls were started and
   every one of them has finished without success: its error was delivered by tau, or (the
   only other possibility) its task panicked. In latency mode every attempt has delivered an
   error and e is the primary's error. In parallel mode and for a single attempt e is the
   first error received (for a single attempt that is the primary's). *)
Theorem C12_all_failed_only_if :
  forall (c : cfg) (evs : list ev) (i : nat), (1 <= maxa c)%nat ->
  Forall (fun s => let x := calls s i in
     forall e tau, res x = Some (3, e, tau) ->
       length (starts x) = maxa c /\
       (forall k, (k < maxa c)%nat -> exists o, gate x k = Some o /\ o <> OOk /\
           (o = OErr -> exists tk, In ((k, false, val i k), tk) (dlog x) /\ tk <= tau)) /\
       (latency_mode c = true -> (1 < maxa c)%nat ->
           e = val i 0 /\ forall k, (k < maxa c)%nat -> gate x k = Some OErr) /\
       (latency_mode c = false \/ maxa c = 1%nat ->
           exists k tk rest, dlog x = ((k, false, e), tk) :: rest) /\
       (maxa c = 1%nat -> e = val i 0))
  (states (step_st c) init evs).
Proof. exact all_failed_only_if. Qed.
Print Assumptions C12_all_failed_only_if.

(* Every result is accounted for: the log of delivered messages is exactly what the future
   has taken followed by what is still queued; each attempt delivers at most once, only
   after it started, with its own scripted outcome and value; while the call is unresolved
   every started attempt that has finished without panicking has delivered; what was taken
   while unresolved were errors only; an unseen message has woken the future, and so has the
   channel closing in the final loop. *)
Theorem C12_no_result_lost :
  forall (c : cfg) (evs : list ev) (i : nat), (1 <= maxa c)%nat ->
  Forall (fun s => let x := calls s i in
     map fst (dlog x) = cons x ++ queue x /\
     NoDup (map att (dlog x)) /\
     (forall m tau, In (m, tau) (dlog x) ->
        (it_att m < length (starts x))%nat /\ gate x (it_att m) = Some (out_of (it_ok m)) /\
        it_val m = val i (it_att m) /\ nth (it_att m) (starts x) 0 <= tau <= now s) /\
     (pending x -> forall k o, (k < length (starts x))%nat -> gate x k = Some o -> o <> OPanic ->
        In k (map att (dlog x))) /\
     (pending x -> Forall (fun m => it_ok m = false) (cons x)) /\
     (pending x -> queue x <> [] -> woken x = true) /\
     (ph x = Drain -> closed x = true -> woken x = true))
  (states (step_st c) init evs).
Proof. exact no_result_lost. Qed.
Print Assumptions C12_no_result_lost.
