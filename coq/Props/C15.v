(* C15 — Rate limiter decides every call within its timeout; rejected calls go nowhere.
   Same model as C02. Only statements, `exact`, and Print Assumptions. *)
From TR Require Import Lib.Base Model.RateLimiter Proof.RateLimiter.

(* A waiting caller's sleep deadline (a rational number of ms, fst/snd) never lies beyond its
   arrival + timeout_duration, in every reachable state ... (second round: for timeout_duration <
   Duration::MAX; with Duration::MAX = "wait for ever" there is no deadline to keep, and since fix
   a8700d2 the elapsed-time test saturates instead of overflowing - C15_max_timeout_never_rejects) *)
Theorem C15_sleeping_within_timeout :
  forall (c : cfg) (evs : list ev),
    wfc c ->
    Forall (fun s => forall i start u, cs s i = Sleeping start u ->
              0 < snd u /\ (timeout c < dur_max -> fst u <= (start + timeout c) * snd u) /\ arrival s i = Some start)
           (states (step_st c) (init c) evs).
Proof. exact sleeping_within_timeout. Qed.
Print Assumptions C15_sleeping_within_timeout.

(* ... and every sleep ends strictly after the instant it starts, so a caller polled when its
   timer fires is decided (admitted or rejected) after finitely many rounds, by arrival + timeout. *)
Theorem C15_sleep_makes_progress :
  forall (c : cfg) (s : st) (i : nat) (start : Z),
    wfc c -> Inv c s ->
    forall st' u, cs (fst (acquire_round c s i start)) i = Sleeping st' u -> now s * snd u < fst u.
Proof. exact sleep_makes_progress. Qed.
Print Assumptions C15_sleep_makes_progress.

(* admitted at once when the window has spare capacity *)
Theorem C15_admitted_at_once :
  forall (c : cfg) (s : st) (i : nat),
    cs s i = Created -> snd (try_acquire c (now s) (lm s)) = AOk None ->
    started (snd (poll c s i)) = true /\ entered (fst (poll c s i)) i = entered s i + 1.
Proof. exact admitted_at_once. Qed.
Print Assumptions C15_admitted_at_once.

Theorem C15_fixed_spare_capacity :
  forall (c : cfg) (t : Z) (l : lim),
    wfc c -> (0 < permits l \/ period c <= t - period_start l) ->
    snd (fixed_try c t l) = AOk None.
Proof. exact fixed_spare. Qed.
Print Assumptions C15_fixed_spare_capacity.

Theorem C15_log_spare_capacity :
  forall (c : cfg) (t : Z) (l : lim),
    Z.of_nat (length (prune c t (rlog l))) < limit c -> snd (log_try c t l) = AOk None.
Proof. exact log_spare. Qed.
Print Assumptions C15_log_spare_capacity.

(* a rejected call never reaches the inner service *)
Theorem C15_rejected_never_enters :
  forall (c : cfg) (s : st) (i : nat),
    wfc c -> Inv c s -> r (snd (poll c s i)) = 3 ->
    started (snd (poll c s i)) = false /\ entered (fst (poll c s i)) i = 0 /\
    cs (fst (poll c s i)) i = Done /\ inflight (fst (poll c s i)) = inflight s.
Proof. exact rejected_never_enters. Qed.
Print Assumptions C15_rejected_never_enters.

(* an admitted call reaches it exactly once *)
Theorem C15_entered_at_most_once :
  forall (c : cfg) (evs : list ev),
    wfc c ->
    Forall (fun s => forall i, 0 <= entered s i <= 1) (states (step_st c) (init c) evs).
Proof. exact entered_at_most_once. Qed.
Print Assumptions C15_entered_at_most_once.

(* a caller cancelled while waiting consumes nothing *)
Theorem C15_drop_consumes_nothing :
  forall (s : st) (i : nat), lm (drop s i) = lm s.
Proof. exact drop_consumes_nothing. Qed.
Print Assumptions C15_drop_consumes_nothing.

(* after the limiter has been idle for two full periods the next limit_for_period calls are
   all admitted without waiting, for all three window types *)
Theorem C15_idle_two_periods :
  forall (c : cfg) (t0 : Z) (l : lim) (t' : Z) (n : nat),
    wfc c -> LimInv c t0 l -> t0 + 2 * period c <= t' -> Z.of_nat n <= limit c ->
    Forall (eq (AOk None)) (tries c n t' l).
Proof. exact idle_two_periods. Qed.
Print Assumptions C15_idle_two_periods.

(* (the invariant used above holds in every reachable state) *)
Theorem C15_invariant_reachable :
  forall (c : cfg) (evs : list ev),
    wfc c -> Forall (Inv c) (states (step_st c) (init c) evs).
Proof. exact reach_Inv. Qed.
Print Assumptions C15_invariant_reachable.

(* ---- improvement round ---- *)

(* Clause "decided within timeout_duration of its arrival", end to end: a waiting caller polled at or after
   arrival + timeout is decided by that poll (admitted or rejected) - it never goes back to sleep ... *)
Theorem C15_decided_by_deadline :
  forall (c : cfg) (s : st) (i : nat) (start : Z) (u : wait),
    wfc c -> timeout c < dur_max -> Inv c s -> cs s i = Sleeping start u -> start + timeout c <= now s ->
    forall st' u', cs (fst (poll c s i)) i <> Sleeping st' u'.
Proof. exact decided_by_deadline. Qed.
Print Assumptions C15_decided_by_deadline.

(* ... and it is told to come: in every reachable state, a sleeping caller whose deadline (which is
   <= arrival + timeout by C15_sleeping_within_timeout) has passed has had its waker fired. *)
Theorem C15_woken_when_due :
  forall (c : cfg) (evs : list ev),
    wfc c ->
    Forall (fun s => forall i start u, cs s i = Sleeping start u -> due u (now s) = true -> woken s i = true)
           (states (step_st c) (init c) evs).
Proof. exact woken_when_due. Qed.
Print Assumptions C15_woken_when_due.

(* "admitted at once when the current window has spare capacity", for whoever asks now: a new caller or a
   waiter whose sleep is over (tries_now) starts its inner call in this poll if the limiter answers Ok(ZERO) *)
Theorem C15_admitted_when_asked :
  forall (c : cfg) (s : st) (i : nat) (start : Z),
    ((cs s i = Created /\ start = now s) \/ (exists u, cs s i = Sleeping start u /\ due u (now s) = true)) ->
    snd (try_acquire c (now s) (lm s)) = AOk None ->
    started (snd (poll c s i)) = true /\ entered (fst (poll c s i)) i = entered s i + 1 /\
    (cs (fst (poll c s i)) i = Running \/ cs (fst (poll c s i)) i = Done).
Proof. exact admitted_when_asked. Qed.
Print Assumptions C15_admitted_when_asked.

(* fixed window, spare capacity read on the admission history: in every reachable state, if the newest
   window holds fewer than limit admissions, or its period is over, the limiter answers Ok(ZERO) *)
Theorem C15_fixed_spare_capacity_history :
  forall (c : cfg) (evs : list ev),
    wfc c -> wt c = Fixed ->
    Forall (fun s => forall st0 a rest, wins (lm s) = (st0, a) :: rest ->
              (Z.of_nat (length a) < limit c \/ st0 + period c <= now s) ->
              snd (try_acquire c (now s) (lm s)) = AOk None)
           (states (step_st c) (init c) evs).
Proof. exact fixed_spare_history. Qed.
Print Assumptions C15_fixed_spare_capacity_history.

(* sliding counter: spare capacity by its own weighted estimate (after rotation, e ms into the bucket) *)
Theorem C15_counter_spare_capacity :
  forall (c : cfg) (t : Z) (l : lim),
    0 < period c ->
    let l1 := rotate c t l in
    let e := Z.min (Z.max 0 (t - bucket_start l1)) (period c) in
    prevc l1 * (period c - e) + curc l1 * period c < limit c * period c ->
    snd (counter_try c t l) = AOk None.
Proof. exact counter_spare. Qed.
Print Assumptions C15_counter_spare_capacity.

(* Clause "admitted later only by taking a permit of a later window", fixed window: in every reachable
   state, when a waiting caller's poll starts its inner call, the window it is admitted in started strictly
   after the caller's arrival. *)
Theorem C15_fixed_later_window :
  forall (c : cfg) (evs : list ev),
    wfc c -> wt c = Fixed ->
    Forall (fun s => forall i start u, cs s i = Sleeping start u ->
              started (snd (poll c s i)) = true -> start < period_start (lm (fst (poll c s i))))
           (states (step_st c) (init c) evs).
Proof. exact fixed_later_window. Qed.
Print Assumptions C15_fixed_later_window.

(* For the sliding log and the sliding counter a "window" is the interval of one period ending at the
   instant of the decision. This theorem alone is weak (it is a consequence of having waited: every sleep ends
   strictly after it starts) - the content for the sliding log is C15_log_admitted_in_free_window below, for
   the fixed window C15_fixed_later_window above; for the counter's buckets the clause is refuted below. *)
Theorem C15_waiter_admitted_later_instant :
  forall (c : cfg) (evs : list ev),
    wfc c ->
    Forall (fun s => forall i start u, cs s i = Sleeping start u ->
              started (snd (poll c s i)) = true -> start < now s)
           (states (step_st c) (init c) evs).
Proof. exact waiter_admitted_later_instant. Qed.
Print Assumptions C15_waiter_admitted_later_instant.

(* The PARTITION reading of the clause (a window = a bucket, or any window of a valid C02 cutting) is FALSE
   for the sliding counter, of the model and of the code (same script
   "2 1 16 100 3  1 0 0  3 16 0  1 1 0  2 1 0  1 2 0  3 2 0  1 2 0"): a caller arrives at 16 in the bucket that
   starts at 16, waits, and is admitted at 18 in that same bucket (the weighted estimate decays inside a bucket).
   With "2 2 16 100 6  3 15 0  1 0 0  1 1 0  3 1 0  1 2 0  3 1 0  1 2 0  1 3 0  3 1 0  1 4 0  3 7 0  1 4 0"
   (admissions 15,15,17,25; caller 4 arrives 18, admitted 25) no valid cutting at all has a cut in (18,25].
   Agreed with the coordinator: not a defect; the partition reading applies to the fixed window only. *)
Theorem C15_counter_later_window_refuted :
  exists (c : cfg) (evs : list ev) (i : nat) (start : Z) (u : wait),
    wfc c /\ wt c = SlidingCounter /\
    let s := fold_left (step_st c) evs (init c) in
    cs s i = Sleeping start u /\ started (snd (poll c s i)) = true /\
    bucket_start (lm (fst (poll c s i))) <= start /\
    wins (lm (fst (poll c s i))) = [(16, [18]); (0, [0])].
Proof. exact counter_later_window_refuted. Qed.
Print Assumptions C15_counter_later_window_refuted.

(* "after the limiter has been idle for two full periods the next limit_for_period calls are admitted
   without waiting", the calls spread arbitrarily in time (tries_at c ts l = the answers of try_acquire at the
   instants ts in turn) ... *)
Theorem C15_idle_two_periods_spread :
  forall (c : cfg) (t0 : Z) (l : lim) (t1 : Z) (rest : list Z),
    wfc c -> LimInv c t0 l -> t0 + 2 * period c <= t1 -> Z.of_nat (S (length rest)) <= limit c ->
    Forall (eq (AOk None)) (tries_at c (t1 :: rest) l).
Proof. exact idle_two_periods_spread. Qed.
Print Assumptions C15_idle_two_periods_spread.

(* ... and at the level run_script executes: from ANY reachable state s, after clock advances d, g with
   d + g >= two periods and nothing else in between, up to limit distinct fresh callers, polled for the first time
   at arbitrary later instants (Advance g' before each), all start their inner call in that first poll.
   fresh_polls c s ((g,i) :: r) = started (step (step s (Advance g)) (Poll i)) :: fresh_polls ... r *)
Theorem C15_idle_then_fresh_callers :
  forall (c : cfg) (evs : list ev) (d g : Z) (i : nat) (rest : list (Z * nat)),
    wfc c -> 2 * period c <= d + g -> 0 <= d -> 0 <= g ->
    let s := fold_left (step_st c) evs (init c) in
    NoDup (i :: map snd rest) -> cs s i = Created -> Forall (fun gi => cs s (snd gi) = Created) rest ->
    Z.of_nat (S (length rest)) <= limit c ->
    Forall (eq true) (fresh_polls c (step_st c s (Advance d)) ((g, i) :: rest)).
Proof. exact idle_then_fresh_callers. Qed.
Print Assumptions C15_idle_then_fresh_callers.

(* capacity that time cannot take away (fixed: m permits left; log: m free slots; counter:
   previous + current + m <= limit): the next call, at ANY instant, is admitted and leaves capacity m *)
Theorem C15_capacity_step :
  forall (c : cfg) (l : lim) (m t : Z),
    wfc c -> 0 <= m -> m + 1 <= limit c -> cap c l (m + 1) ->
    snd (try_acquire c t l) = AOk None /\ cap c (fst (try_acquire c t l)) m.
Proof. exact cap_step. Qed.
Print Assumptions C15_capacity_step.

(* a decided call stays decided and goes nowhere: polling it again changes nothing *)
Theorem C15_decided_stays_decided :
  forall (c : cfg) (s : st) (i : nat),
    cs s i = Done -> r (snd (poll c s i)) = 9 /\ started (snd (poll c s i)) = false /\
    lm (fst (poll c s i)) = lm s /\ entered (fst (poll c s i)) = entered s /\ cs (fst (poll c s i)) i = Done.
Proof. exact decided_stays. Qed.
Print Assumptions C15_decided_stays_decided.

(* a rejection admits nothing (it may refresh/rotate/prune the limiter, but the admission history is unchanged) *)
Theorem C15_rejected_admits_nothing :
  forall (c : cfg) (s : st) (i : nat),
    wfc c -> r (snd (poll c s i)) = 3 -> adms (lm (fst (poll c s i))) = adms (lm s).
Proof. exact rejected_admits_nothing. Qed.
Print Assumptions C15_rejected_admits_nothing.

(* ---- second improvement round ---- *)

(* No spurious rejection: a poll answers RateLimited only for a caller that asked the limiter in this very
   poll (new, or its sleep over) and did not get a permit. With C15_capacity_step / C15_admitted_when_asked:
   a caller that finds spare capacity is never rejected. *)
Theorem C15_rejected_only_without_capacity :
  forall (c : cfg) (s : st) (i : nat),
    r (snd (poll c s i)) = 3 ->
    snd (try_acquire c (now s) (lm s)) <> AOk None /\
    exists start, (cs s i = Created /\ start = now s) \/ (exists u, cs s i = Sleeping start u /\ due u (now s) = true).
Proof. exact rejected_only_without_capacity. Qed.
Print Assumptions C15_rejected_only_without_capacity.

(* Sliding log, "a permit of a later window" with content: in every reachable state, whenever a poll starts an
   inner call at instant t, the admission limit_for_period places back (if there is one) lies at least a period
   before t, i.e. the window (t - P, t] held fewer than limit admissions. A waiter found its window full on
   arrival, so it is admitted by a window that ends later and is not full. *)
Theorem C15_log_admitted_in_free_window :
  forall (c : cfg) (evs : list ev),
    wfc c -> wt c = SlidingLog ->
    Forall (fun s => forall i y, started (snd (poll c s i)) = true ->
              nth_error (adms (lm s)) (Z.to_nat (limit c) - 1) = Some y -> y + period c <= now s)
           (states (step_st c) (init c) evs).
Proof. exact log_admitted_in_free_window. Qed.
Print Assumptions C15_log_admitted_in_free_window.

(* fix a8700d2 (start.elapsed().saturating_add(wait) > timeout): with timeout_duration = Duration::MAX a caller
   that gets no permit is never rejected by the elapsed-time test - whatever wait the limiter names (Duration::MAX
   included) and however long ago it arrived: [start] is arbitrary, so this also covers an elapsed time inside
   the poll, which the driver's virtual clock cannot produce (there the sum used to overflow and panic). *)
Theorem C15_max_timeout_never_rejects :
  forall (c : cfg) (s : st) (i : nat) (start : Z) (w : wait),
    snd (try_acquire c (now s) (lm s)) = AOk (Some w) -> 0 < snd w -> dur_max <= timeout c ->
    cs (fst (acquire_round c s i start)) i = Sleeping start (fst w + now s * snd w, snd w) /\
    r (snd (acquire_round c s i start)) = 0.
Proof. exact max_timeout_never_rejects. Qed.
Print Assumptions C15_max_timeout_never_rejects.
