(* C15 — Rate limiter decides every call within its timeout; rejected calls go nowhere.
   Same model as C02. Only statements, `exact`, and Print Assumptions. *)
From TR Require Import Lib.Base Model.RateLimiter Proof.RateLimiter.

(* A waiting caller's sleep deadline (a rational number of ms, fst/snd) never lies beyond its
   arrival + timeout_duration, in every reachable state ... *)
Theorem C15_sleeping_within_timeout :
  forall (c : cfg) (evs : list ev),
    wfc c ->
    Forall (fun s => forall i start u, cs s i = Sleeping start u ->
              0 < snd u /\ fst u <= (start + timeout c) * snd u /\ arrival s i = Some start)
           (states (step_st c) (init c) evs).
Proof. exact sleeping_within_timeout. Qed.
Print Assumptions C15_sleeping_within_timeout.

(* ... and every sleep ends strictly after the instant it starts, so a caller polled when its
   timer fires is decided (admitted or rejected) after finitely many rounds, by arrival + timeout. *)
Theorem C15_sleep_makes_progress :
  forall (c : cfg) (s : st) (i : nat) (start : Z),
    wfc c -> Inv c s ->
    forall st' u, cs (fst (acquire_round c s i start)) i = Sleeping st' u -> now s * snd u < fst u.
Proof. exact sleep_makes_progress. Qed.
Print Assumptions C15_sleep_makes_progress.

(* admitted at once when the window has spare capacity *)
Theorem C15_admitted_at_once :
  forall (c : cfg) (s : st) (i : nat),
    cs s i = Created -> snd (try_acquire c (now s) (lm s)) = AOk None ->
    started (snd (poll c s i)) = true /\ entered (fst (poll c s i)) i = entered s i + 1.
Proof. exact admitted_at_once. Qed.
Print Assumptions C15_admitted_at_once.

Theorem C15_fixed_spare_capacity :
  forall (c : cfg) (t : Z) (l : lim),
    wfc c -> (0 < permits l \/ period c <= t - period_start l) ->
    snd (fixed_try c t l) = AOk None.
Proof. exact fixed_spare. Qed.
Print Assumptions C15_fixed_spare_capacity.

Theorem C15_log_spare_capacity :
  forall (c : cfg) (t : Z) (l : lim),
    Z.of_nat (length (prune c t (rlog l))) < limit c -> snd (log_try c t l) = AOk None.
Proof. exact log_spare. Qed.
Print Assumptions C15_log_spare_capacity.

(* a rejected call never reaches the inner service *)
Theorem C15_rejected_never_enters :
  forall (c : cfg) (s : st) (i : nat),
    wfc c -> Inv c s -> r (snd (poll c s i)) = 3 ->
    started (snd (poll c s i)) = false /\ entered (fst (poll c s i)) i = 0 /\
    cs (fst (poll c s i)) i = Done /\ inflight (fst (poll c s i)) = inflight s.
Proof. exact rejected_never_enters. Qed.
Print Assumptions C15_rejected_never_enters.

(* an admitted call reaches it exactly once *)
Theorem C15_entered_at_most_once :
  forall (c : cfg) (evs : list ev),
    wfc c ->
    Forall (fun s => forall i, 0 <= entered s i <= 1) (states (step_st c) (init c) evs).
Proof. exact entered_at_most_once. Qed.
Print Assumptions C15_entered_at_most_once.

(* a caller cancelled while waiting consumes nothing *)
Theorem C15_drop_consumes_nothing :
  forall (s : st) (i : nat), lm (drop s i) = lm s.
Proof. exact drop_consumes_nothing. Qed.
Print Assumptions C15_drop_consumes_nothing.

(* after the limiter has been idle for two full periods the next limit_for_period calls are
   all admitted without waiting, for all three window types *)
Theorem C15_idle_two_periods :
  forall (c : cfg) (t0 : Z) (l : lim) (t' : Z) (n : nat),
    wfc c -> LimInv c t0 l -> t0 + 2 * period c <= t' -> Z.of_nat n <= limit c ->
    Forall (eq (AOk None)) (tries c n t' l).
Proof. exact idle_two_periods. Qed.
Print Assumptions C15_idle_two_periods.

(* (the invariant used above holds in every reachable state) *)
Theorem C15_invariant_reachable :
  forall (c : cfg) (evs : list ev),
    wfc c -> Forall (Inv c) (states (step_st c) (init c) evs).
Proof. exact reach_Inv. Qed.
Print Assumptions C15_invariant_reachable.
