(* Extraction of the executable models for the correspondence check.
   ExtrOcamlBasic only: bool/option/list/prod/unit/sumbool map to OCaml's;
   N, Z, positive, nat stay the extracted inductive types. No Extract Constant. *)
Require Extraction.
From Coq Require Import ExtrOcamlBasic ZArith.
From TR Require Import Model.Fallback Model.Bulkhead.

Definition z_add := Z.add.
Definition z_mul := Z.mul.
Definition z_quotrem := Z.quotrem.
Definition z_opp := Z.opp.

Definition run_C17 := Model.Fallback.run_script.
Definition run_C01 := Model.Bulkhead.run_script.

Separate Extraction z_add z_mul z_quotrem z_opp run_C17 run_C01.
