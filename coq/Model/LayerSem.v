(* C20, script interface of the transparency and listener modes, and [run_script].
   The per-layer semantics [sem_of] are instantiated from the per-layer models (the models of
   C01/C07 bulkhead, C03/C04/C09 circuit breaker, C02/C15 rate limiter, C17 fallback, C05 retry,
   C10 time limiter, C06 cache, C13 reconnect, C11 coalesce, C19 chaos), each in a non-triggering
   state. No proofs here. *)
From TR Require Import Lib.Base Model.Bulkhead Model.Circuit Model.RateLimiter Model.Fallback Model.Retry
     Model.TimeLimiter Model.Cache Model.Reconnect Model.Coalesce Model.Chaos Model.Layers.

(* ------------------------------------------------------------------------- *)
(* per-layer semantics as transformers of the wrapped service's behaviour.
   [w]: the layer's pass-through wrapper; [made r]: an error the layer makes up itself
   (result code r of the layer's model). *)
Section Sems.
  Context {E : Type} (w : E -> E) (made : Z -> E).

  (* the result code r of a layer model (1 Ok, 2 Err(Inner)) decides what becomes of the inner result *)
  Definition decode (r : Z) (res : Layers.outcome E) : Layers.outcome E :=
    match res with
    | OutOk v => if r =? 1 then OutOk v else OutErr (made r)
    | OutErr e => if r =? 2 then OutErr (w e) else OutErr (made r)
    end.

  (* a layer model at poll granularity: the call future of caller i is polled (the observation
     says whether the inner service was called in that poll), the inner call completes with the
     KIND of the wrapped service's result, the future is polled again *)
  Section Step.
    Context {S O Ob : Type} (poll : S -> nat -> S * Ob) (complete : S -> nat -> O -> S)
            (rcode : Ob -> Z) (startedf : Ob -> bool) (okO errO : O).

    Definition step_sem (s : S) (i : nat) : layer_sem E := fun inner req =>
      let p1 := poll s i in
      if startedf (snd p1) then
        let b := inner req in
        let s2 := complete (fst p1) i (match Layers.result b with OutOk _ => okO | OutErr _ => errO end) in
        let p3 := poll s2 i in
        mkBeh (Layers.calls b ++ (if startedf (snd p3) then Layers.calls (inner req) else []))
              (decode (rcode (snd p3)) (Layers.result b))
      else mkBeh [] (OutErr (made (rcode (snd p1)))).
  End Step.

  Definition sem_of_bulkhead (c : Bulkhead.cfg) (s : Bulkhead.st) (i : nat) : layer_sem E :=
    step_sem (Bulkhead.poll c) Bulkhead.complete Bulkhead.r Bulkhead.started Bulkhead.OOk Bulkhead.OErr s i.

  (* [f]: what the failure classifier says about errors (successes are not failures) *)
  Definition sem_of_circuit (cf : Circuit.cfg) (f : bool) (s : Circuit.st) (i : nat) : layer_sem E :=
    step_sem (Circuit.poll cf) Circuit.complete Circuit.r Circuit.started
             (Circuit.OOk false) (Circuit.OErr f) s i.

  Definition sem_of_ratelimiter (c : RateLimiter.cfg) (s : RateLimiter.st) (i : nat) : layer_sem E :=
    step_sem (RateLimiter.poll c) RateLimiter.complete RateLimiter.r RateLimiter.started
             RateLimiter.OOk RateLimiter.OErr s i.

  (* time limiter: first polled at instant t1 (the inner call is made), polled again at t2 *)
  Definition sem_of_timelimiter (c : TimeLimiter.cfg) (i : nat) (t1 t2 : Z) : layer_sem E := fun inner req =>
    let p1 := TimeLimiter.lpoll c i t1 TimeLimiter.init_loc in
    match TimeLimiter.linner (fst p1) with
    | TimeLimiter.IRunning =>
      let b := inner req in
      let l2 := TimeLimiter.lcomplete c (fst p1)
                  (match Layers.result b with OutOk _ => TimeLimiter.OOk | OutErr _ => TimeLimiter.OErr end) in
      let p3 := TimeLimiter.lpoll c i t2 l2 in
      mkBeh (Layers.calls b) (decode (TimeLimiter.r (snd p3)) (Layers.result b))
    | _ => mkBeh [] (OutErr (made (TimeLimiter.r (snd p1))))
    end.

  (* coalesce: call() with key k (a leader calls the inner service inside call()), poll, complete, poll *)
  Definition sem_of_coalesce (s : Coalesce.st) (i k : nat) : layer_sem E := fun inner req =>
    let s1 := Coalesce.call s i k in
    if existsb (Nat.eqb i) (Coalesce.inflight s1) then
      let b := inner req in
      let p2 := Coalesce.poll s1 i in
      let s3 := Coalesce.complete (fst p2) i
                  (match Layers.result b with OutOk _ => Coalesce.OOk | OutErr _ => Coalesce.OErr end) in
      let p4 := Coalesce.poll s3 i in
      mkBeh (Layers.calls b) (decode (Coalesce.r (snd p4)) (Layers.result b))
    else mkBeh [] (OutErr (made 3)).

  (* cache: call() with key k on service handle svc; a miss calls the inner service inside call().
     The model carries the response value: an Ok result is the value the model returns. *)
  Definition sem_of_cache (c : Cache.cfg) (s : Cache.st) (i svc : nat) (k : Z) : layer_sem E := fun inner req =>
    let p1 := Cache.step0 c s (Cache.Call i svc k) in
    match Cache.o_started (snd p1) with
    | Some _ =>
      let b := inner req in
      let s2 := fst (Cache.step0 c (fst p1)
                       (Cache.Complete i (match Layers.result b with OutOk v => Cache.OOk v | OutErr _ => Cache.OErr end))) in
      let p3 := Cache.step0 c s2 (Cache.Poll i 0) in
      mkBeh (Layers.calls b)
            (match Layers.result b with
             | OutOk _ => if Cache.o_r (snd p3) =? 1 then OutOk (Cache.o_val (snd p3)) else OutErr (made (Cache.o_r (snd p3)))
             | OutErr e => if Cache.o_r (snd p3) =? 2 then OutErr (w e) else OutErr (made (Cache.o_r (snd p3)))
             end)
    | None =>
      (* a hit: the stored value, the inner service is not called *)
      let p3 := Cache.step0 c (fst p1) (Cache.Poll i 0) in
      mkBeh [] (if Cache.o_r (snd p3) =? 1 then OutOk (Cache.o_val (snd p3)) else OutErr (made (Cache.o_r (snd p3))))
    end.

  (* the pure per-request models: the wrapped service is handed to them as a function *)
  Definition res_of (b : behaviour E) : Z + E :=
    match Layers.result b with OutOk v => inl v | OutErr e => inr e end.

  Definition sem_of_fallback (st : Fallback.strategy Z Z E) (pred : option (E -> bool))
             (backup : Z -> Z + E) : layer_sem E := fun inner req =>
    let r := Fallback.call st pred (fun q => res_of (inner q)) backup req in
    mkBeh (concat (map (fun q => Layers.calls (inner q)) (Fallback.inner_calls r)))
          (match Fallback.out r with
           | inl v => OutOk v
           | inr (Fallback.Inner e) => OutErr (w e)
           | inr (Fallback.FallbackFailed e) => OutErr (made 2)
           end).

  (* retry: its error type is the inner error type (w = identity); attempt a is the a-th call of
     the wrapped service with the same request *)
  Definition sem_of_retry (c : Retry.cfg E) (hb : bool) (max : nat) (ready : nat -> Z * option E)
             (grant : nat -> bool) : layer_sem E := fun inner req =>
    let o := match Layers.result (inner req) with OutOk v => Retry.Ok v | OutErr e => Retry.Fail e end in
    let r := Retry.retry_run c hb max (fun _ => (0, o)) ready grant 0 in
    mkBeh (concat (map (fun _ => Layers.calls (inner req)) (Retry.calls r)))
          (match Retry.result r with inl v => OutOk v | inr e => OutErr e end).

  Definition sem_of_reconnect (c : Reconnect.cfg E) (ready : nat -> Z * option E) (fuel : nat)
    : layer_sem E := fun inner req =>
    let o := match Layers.result (inner req) with OutOk v => Reconnect.Ok v | OutErr e => Reconnect.Fail e end in
    let r := Reconnect.reconnect_run c (fun _ => (0, o)) ready fuel 0 in
    mkBeh (concat (map (fun _ => Layers.calls (inner req)) (Reconnect.calls r)))
          (match Reconnect.result r with
           | Some (inl v) => OutOk v
           | Some (inr (Reconnect.ServiceError e)) => OutErr (w e)
           | Some (inr _) => OutErr (made 3)
           | None => OutErr (made 0)
           end).

  (* chaos: one request first polled at instant t of a run ending at t_end; the model carries the
     response value of an Ok result *)
  Definition sem_of_chaos (c : Chaos.config) (t_end i t : Z) (st : list Z) : layer_sem E := fun inner req =>
    let b := inner req in
    let q := {| Chaos.q_gap := 0;
                Chaos.q_ik := match Layers.result b with OutOk _ => 0 | OutErr _ => 1 end;
                Chaos.q_iv := match Layers.result b with OutOk v => v | OutErr _ => 0 end |} in
    let o := fst (Chaos.handle c t_end i t q st) in
    mkBeh (if Chaos.o_inner o then Layers.calls b else [])
          (match Layers.result b with
           | OutOk _ => if Chaos.o_res_kind o =? 0 then OutOk (Chaos.o_res_val o) else OutErr (made (Chaos.o_res_kind o))
           | OutErr e => if (Chaos.o_res_kind o =? 1) && Chaos.o_inner o then OutErr (w e) else OutErr (made (Chaos.o_res_kind o))
           end).

  (* the harness puts every layer under a MapErr that folds its error type back into the common
     one: [then_wrap] applies that fold to a layer whose own error type is the inner one *)
  Definition then_wrap (w' : E -> E) (L : layer_sem E) : layer_sem E :=
    fun inner req => let b := L inner req in mkBeh (Layers.calls b) (wrap_out w' (Layers.result b)).
End Sems.

Definition is_id (id : Z) (l : list Z) : bool := existsb (Z.eqb id) l.

(* errors of the transparency modes: payload and the number of pass-through wrappers around it *)
Definition terr : Type := (Z * nat)%type.
Definition wrapd (e : terr) : terr := (fst e, S (snd e)).
(* an error made up by a layer: never counted as a pass-through of the inner error *)
Definition maded (r : Z) : terr := (-1000 - r, 1000%nat).

(* the non-triggering configurations of harness/src/bin/c20.rs (modes 0 and 4) *)
Definition cb_cfg : Circuit.cfg :=
  Circuit.mkCfg false 100 0 1000 1 2 false 0 1 1 5 1 false.
Definition rl_cfg : RateLimiter.cfg := RateLimiter.mkCfg RateLimiter.Fixed 1000 1000 0 0.
Definition tl_cfg (cancel : bool) : TimeLimiter.cfg :=
  {| TimeLimiter.cancel := cancel; TimeLimiter.tmo := fun _ => 10000; TimeLimiter.gran := 1 |}.
Definition never {A} : A -> bool := fun _ => false.
Definition retry_cfg : Retry.cfg terr := {| Retry.pred := Some never; Retry.backoff := fun _ => 1 |}.
Definition reconnect_cfg : Reconnect.cfg terr :=
  {| Reconnect.pred := Some never; Reconnect.max_attempts := Some 3%nat;
     Reconnect.policy := fun _ => Some 1; Reconnect.retry_on_reconnect := true |}.
Definition cache_cfg : Cache.cfg :=
  {| Cache.pol := Cache.Lru; Cache.max_size := 64; Cache.ttl := None; Cache.shared := false |}.
Definition chaos_cfg : Chaos.config :=
  {| Chaos.custom := false; Chaos.erate := Some 0; Chaos.lrate := Some 0; Chaos.min_ms := 0; Chaos.max_ms := 0 |}.

(* real layer ids of harness/src/bin/c20.rs -> semantics in the non-triggering configuration, each
   instantiated from the per-layer model at its initial state; hedge, adaptive limiter and executor
   (no per-layer model of one request's pass) are the table entry [pass_through] *)
Definition sem_of (id : Z) : layer_sem terr :=
  if is_id id [0; 21] then
    sem_of_bulkhead wrapd maded {| Bulkhead.cap := if id =? 0 then 4 else 1; Bulkhead.max_wait := None |}
                    (Bulkhead.init {| Bulkhead.cap := if id =? 0 then 4 else 1; Bulkhead.max_wait := None |}) 0
  else if is_id id [1; 22] then sem_of_ratelimiter wrapd maded rl_cfg (RateLimiter.init rl_cfg) 0
  else if is_id id [2; 13] then sem_of_circuit wrapd maded cb_cfg true Circuit.init 0
  else if is_id id [3; 15] then
    then_wrap wrapd (sem_of_retry retry_cfg false 3 (fun _ => (0, None)) (fun _ => true))
  else if is_id id [4; 14] then sem_of_timelimiter wrapd maded (tl_cfg (id =? 4)) 0 0 0
  else if id =? 5 then sem_of_cache wrapd maded cache_cfg (Cache.init cache_cfg) 0 0 0
  else if id =? 6 then sem_of_fallback wrapd maded (Fallback.SValue (-777)) (Some never) (fun _ => inl 0)
  else if id =? 8 then sem_of_reconnect wrapd maded reconnect_cfg (fun _ => (0, None)) 3
  else if id =? 10 then sem_of_coalesce wrapd maded Coalesce.init 0 0
  else if id =? 12 then then_wrap wrapd (sem_of_chaos (fun e => e) maded chaos_cfg 1000 0 0 [])
  else pass_through wrapd.

(* the scripted wrapped service: one call, the scripted outcome *)
Definition scripted (ok v : Z) : service terr :=
  fun q => mkBeh [q] (if ok =? 0 then OutOk v else OutErr (v, O)).

(* mode 0: [0; n; layer ids...; inner kind; nreq; (req; okind; oval)*] ->
   per request [inner calls; request seen; 0 Ok / 1 inner error in exactly n pass-through wrappers /
   2 anything else; payload] *)
Definition beh_ints (n : nat) (b : behaviour terr) : list Z :=
  [Z.of_nat (length (calls b)); hd 0 (calls b);
   match result b with OutOk _ => 0 | OutErr e => if Nat.eqb (snd e) n then 1 else 2 end;
   match result b with OutOk x => x | OutErr e => fst e end].

Fixpoint run_transparent (ids : list Z) (l : list (Z * Z * Z)) : list Z :=
  match l with
  | [] => []
  | (req, ok, v) :: rest =>
    beh_ints (length ids) (stack_sem (map sem_of ids) (scripted ok v) req) ++ run_transparent ids rest
  end.

(* ------------------------------------------------------------------------- *)
(* listeners in stacks (mode 4). Event kinds are numbered per layer in the order of the
   registration methods / enum variants used by the driver. In the non-triggering configuration a
   call emits [pre_events] before the inner call and [post_events] after it. *)
Definition pre_events (id : Z) : list Z :=
  if is_id id [0; 21] then [0]              (* bulkhead: CallPermitted *)
  else if is_id id [1; 22] then [0]         (* rate limiter: PermitAcquired *)
  else if is_id id [2; 13] then [1]         (* circuit breaker: CallPermitted *)
  else if id =? 5 then [1]                  (* cache: Miss *)
  else if is_id id [7; 20; 26] then [0]     (* hedge: PrimaryStarted *)
  else if id =? 12 then [2]                 (* chaos: PassedThrough *)
  else [].

Definition post_events (id : Z) (kind : Z) : list Z :=
  let ok := kind =? 0 in
  if is_id id [0; 21] then [if ok then 2 else 3]        (* CallFinished / CallFailed *)
  else if is_id id [2; 13] then [if ok then 3 else 4]   (* SuccessRecorded / FailureRecorded *)
  else if is_id id [3; 15] then [if ok then 1 else 3]   (* retry: Success / IgnoredError *)
  else if is_id id [4; 14] then [if ok then 0 else 1]   (* time limiter: Success / Error *)
  else if id =? 6 then [if ok then 0 else 4]            (* fallback: Success / Skipped *)
  else if is_id id [7; 20; 26] then (if ok then [2] else [])  (* hedge: PrimarySucceeded *)
  else if id =? 8 then (if ok then [0] else [])         (* reconnect: on_state_change(-> Connected) *)
  else [].

(* every listener API of the thirteen layers goes through EventListeners::emit, reconnect's two callbacks
   (crate feature `tracing`) through the helper `observe`; both catch the listener's panic and drop its
   payload with core::events::drop_panic_payload (fixes 484f229, afefac0, 56b9388, d1b49ff) *)
Definition guarded_of (id : Z) : guard := GCatchLoop.

(* reconnect has one callback per kind: listener 0 is on_state_change (kind 0), listener 1 is
   on_reconnect (kind 1), further listeners are not registered *)
Fixpoint only_kind (i : Z) (ls : list listener) : list listener :=
  match ls with
  | [] => []
  | l :: rest => (fun ev => if ev =? i then l ev else Skipped) :: only_kind (i + 1) rest
  end.
Definition subscribed (id : Z) (ls : list listener) : list listener :=
  if id =? 8 then only_kind 0 ls else ls.

(* one request through the stack: each layer runs its own copy of the listeners [ls] *)
Fixpoint run_lstack (ids : list Z) (ls : list listener) (inner : final)
  : final * list (list (Z * list lresult)) :=
  match ids with
  | [] => (inner, [])
  | id :: rest =>
    let mine := subscribed id ls in
    let '(f1, d1) := run_steps (guarded_of id) mine (map SEmit (pre_events id)) (FOut 0 0) [] in
    match f1 with
    | FPanic => (FPanic, d1 :: map (fun _ => []) rest)
    | FOut _ _ =>
      let '(fin, dr) := run_lstack rest ls inner in
      match fin with
      | FPanic => (FPanic, d1 :: dr)
      | FOut k p =>
        let '(f2, d2) := run_steps (guarded_of id) mine (map SEmit (post_events id k)) (FOut k p) [] in
        (f2, (d1 ++ d2) :: dr)
      end
    end
  end.

Definition NK : nat := 6.

(* panic mask: bit i = listener i panics (String payload), bit i + 4 = it panics with a payload whose
   Drop panics, bit i + 8 = with a payload whose Drop panics with such a payload again, 3 levels deep *)
Definition listener_of (mask : Z) (i : nat) : listener :=
  fun _ => if Z.testbit mask (Z.of_nat i + 8) then Bombs 3
           else if Z.testbit mask (Z.of_nat i + 4) then Bombs 1
           else if Z.testbit mask (Z.of_nat i) then Panics else Returns.

Fixpoint zip_app {A} (a b : list (list A)) : list (list A) :=
  match a, b with
  | x :: a', y :: b' => (x ++ y) :: zip_app a' b'
  | _, [] => a
  | [], _ => b
  end.

(* mode 4: [4; n; layer ids; nlisteners; mask; nreq; (req; okind; oval)*] *)
Fixpoint run_l4 (ids : list Z) (ls : list listener) (l : list (Z * Z * Z))
         (acc : list (list (Z * list lresult))) : list Z * list (list (Z * list lresult)) :=
  match l with
  | [] => ([], acc)
  | (req, ok, v) :: rest =>
    let b := stack_sem (map sem_of ids) (scripted ok v) req in
    let bi := beh_ints (length ids) b in
    let '(fin, ds) := run_lstack ids ls (FOut (nth 2 bi 0) (nth 3 bi 0)) in
    let '(out, acc') := run_l4 ids ls rest (zip_app acc ds) in
    (firstn 2 bi ++ match fin with FOut k p => [k; p] | FPanic => [2; -999] end ++ out, acc')
  end.

Definition counts_of (nl : nat) (deliveries : list (Z * list lresult)) : list Z :=
  concat (map (fun i => map (fun e => count_kind i (Z.of_nat e) deliveries) (seq 0 NK)) (seq 0 nl)).

(* outcomes, the counts of the run with the script's panic mask, the counts of the reference run of
   the same script with well-behaved listeners *)
Definition l4_trace (ids : list Z) (nl : nat) (mask : Z) (reqs : list (Z * Z * Z)) : list Z :=
  let '(out, acc) := run_l4 ids (map (listener_of mask) (seq 0 nl)) reqs (map (fun _ => []) ids) in
  let '(_, acc0) := run_l4 ids (map (listener_of 0) (seq 0 nl)) reqs (map (fun _ => []) ids) in
  out ++ concat (map (counts_of nl) acc) ++ concat (map (counts_of nl) acc0).

Definition run_listeners_stack (sc : list Z) : list Z :=
  let n := Z.to_nat (zn sc 1) in
  l4_trace (firstn n (skipn 2 sc)) (Nat.min 4 (Z.to_nat (zn sc (2 + n)))) (zn sc (3 + n))
           (chunk3 (skipn (5 + n) sc)).

(* mode 2 (one layer in a TRIGGERING configuration; the driver compares the run with panicking
   listeners with a reference run of the same binary): [2; layer; nlisteners; panic mask; nreq; ...]
   -> per request [outcome equals the reference; every listener counted like the reference's]. The
   model only says what the comparison must yield. *)
Definition run_listeners (sc : list Z) : list Z :=
  let nreq := Z.to_nat (zn sc 4) in
  concat (map (fun _ => [1; 1]) (seq 0 nreq)).

Definition run_script (sc : list Z) : list Z :=
  if zn sc 0 =? 1 then run_protocol sc
  else if zn sc 0 =? 3 then run_program sc
  else if zn sc 0 =? 0 then
    let n := Z.to_nat (zn sc 1) in
    run_transparent (firstn n (skipn 2 sc)) (chunk3 (skipn (4 + n) sc))
  else if zn sc 0 =? 4 then run_listeners_stack sc
  else run_listeners sc.
