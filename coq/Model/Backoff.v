(* Model of crates/tower-resilience-retry/src/backoff.rs (FixedInterval, ExponentialBackoff,
   ExponentialRandomBackoff, FnInterval), crates/tower-resilience-retry/src/policy.rs
   (RetryPolicy::next_backoff) and crates/tower-resilience-reconnect/src/policy.rs
   (ReconnectPolicy::delay_for_attempt), bit-exact over Flocq's IEEE-754 binary64.

   Durations are total nanoseconds in Z (0 .. DUR_MAX = Duration::MAX); attempt numbers are N
   (usize); f64 values are Flocq binary64; panics are `None`.

   Standard-library / compiler glue transcribed here (validated bit-for-bit by the
   correspondence check, see gen/c14.py):
   - Duration::as_secs_f64  = (secs as f64) + (nanos as f64) / (1e9 as f64)     (core/src/time.rs)
   - u64/u32 -> f64 casts   = round to nearest even                              (of_Z)
   - f64::powi              = compiler-builtins __powidf2, square-and-multiply   (powi; only
                              exponents >= 0 occur: the code clamps usize to 0..i32::MAX)
   - Duration::try_from_secs_f64 (macro try_from_secs!) = Err for negative, NaN, values >= 2^64;
                              otherwise the exact value rounded half-to-even to whole nanoseconds
                              (the macro's `exp < -31 => 0` shortcut agrees with that rounding:
                              such values are below 0.47 ns)
   - Duration::min, Option::unwrap_or, f64::max, f64::clamp
   - rand 0.9 Rng::random_range(lo..=hi) for f64: panics unless lo <= hi and hi - lo is finite;
     otherwise returns SOME value x with lo <= x <= hi — the draw is an oracle argument. *)
From Flocq Require Import Core IEEE754.BinarySingleNaN IEEE754.Binary IEEE754.Bits.
From TR Require Import Lib.Base.
Local Open Scope Z_scope.

Definition f64 := binary64.

(* integer -> f64 cast (round to nearest, ties to even) *)
Definition of_Z (z : Z) : f64 := binary_normalize 53 1024 eq_refl eq_refl mode_NE z 0 false.
Definition fmul : f64 -> f64 -> f64 := b64_mult mode_NE.
Definition fadd : f64 -> f64 -> f64 := b64_plus mode_NE.
Definition fsub : f64 -> f64 -> f64 := b64_minus mode_NE.
Definition fdiv : f64 -> f64 -> f64 := b64_div mode_NE.
Definition fzero : f64 := B754_zero 53 1024 false.
Definition fone : f64 := of_Z 1.
Definition ftwo : f64 := of_Z 2.
(* IEEE comparisons: false when unordered *)
Definition fgt (x y : f64) : bool := match b64_compare x y with Some Gt => true | _ => false end.
Definition flt (x y : f64) : bool := match b64_compare x y with Some Lt => true | _ => false end.
Definition fle (x y : f64) : bool :=
  match b64_compare x y with Some Lt => true | Some Eq => true | _ => false end.
Definition fis_nan (x : f64) : bool := Binary.is_nan 53 1024 x.
Definition fis_finite (x : f64) : bool := Binary.is_finite 53 1024 x.
(* f64::max: a NaN argument yields the other one *)
Definition fmax (x y : f64) : f64 :=
  if fis_nan x then y else if fis_nan y then x else if flt x y then y else x.
(* f64::clamp(0.0, 1.0): NaN stays NaN *)
Definition clamp01 (x : f64) : f64 := if flt x fzero then fzero else if fgt x fone then fone else x.

Definition NANOS : Z := 1000000000.
Definition DUR_MAX : Z := (2 ^ 64 - 1) * NANOS + 999999999.   (* Duration::MAX *)
Definition I32_MAX : N := 2147483647%N.

(* Duration::as_secs_f64 *)
Definition as_secs_f64 (d : Z) : f64 :=
  fadd (of_Z (d / NANOS)) (fdiv (of_Z (d mod NANOS)) (of_Z NANOS)).

(* compiler-builtins float/pow.rs for b >= 0:
     mul = 1; loop { if pow & 1 != 0 { mul *= a }; pow >>= 1; if pow == 0 { break }; a *= a }; mul *)
Fixpoint powi_pos (r a : f64) (p : positive) : f64 :=
  match p with
  | xH => fmul r a
  | xO q => powi_pos r (fmul a a) q
  | xI q => powi_pos (fmul r a) (fmul a a) q
  end.
Definition powi (a : f64) (n : N) : f64 :=
  match n with N0 => fone | Npos p => powi_pos fone a p end.

(* n/d rounded to the nearest integer, ties to even (d > 0, n >= 0) *)
Definition rhe (n d : Z) : Z :=
  let q := n / d in
  let r := n mod d in
  match 2 * r ?= d with
  | Lt => q
  | Gt => q + 1
  | Eq => if Z.even q then q else q + 1
  end.

(* Duration::try_from_secs_f64; None = Err(_) *)
Definition try_from_secs_f64 (x : f64) : option Z :=
  match x with
  | B754_zero _ _ _ => Some 0
  | B754_infinity _ _ _ => None
  | B754_nan _ _ _ _ _ => None
  | B754_finite _ _ s m e _ =>
      if s then None
      else if 0 <=? e then
        (if 2 ^ 64 <=? Zpos m * 2 ^ e then None else Some (Zpos m * 2 ^ e * NANOS))
      else Some (rhe (Zpos m * NANOS) (2 ^ (- e)))
  end.

Record cfg := mkCfg {
  initial : Z;                (* initial_interval, ns *)
  multiplier : f64;
  factor : f64;               (* randomization_factor (already clamped by ::new) *)
  max_interval : option Z     (* ns *)
}.

(* fn exponential_interval(initial, multiplier, attempt, max) *)
Definition exponential_interval (ini : Z) (mult : f64) (attempt : N) (max : option Z) : Z :=
  let cap := match max with Some c => c | None => DUR_MAX end in
  let exponent := N.min attempt I32_MAX in
  let secs := fmul (as_secs_f64 ini) (powi mult exponent) in
  if negb (fgt secs fzero) then 0
  else match try_from_secs_f64 secs with
       | Some d => Z.min d cap
       | None => cap
       end.

(* the two ends of the range handed to random_range *)
Definition jitter_lo (d : Z) (f : f64) : f64 :=
  let s := as_secs_f64 d in fsub s (fmul s f).
Definition jitter_hi (d : Z) (f : f64) : f64 :=
  let s := as_secs_f64 d in fadd s (fmul s f).
(* does random_range(lo..=hi) return (rather than panic)? *)
Definition range_ok (lo hi : f64) : bool := fle lo hi && fis_finite (fsub hi lo).
(* Duration::try_from_secs_f64(x.max(0.0)).unwrap_or(Duration::MAX) *)
Definition dur_sat (x : f64) : Z :=
  match try_from_secs_f64 (fmax x fzero) with Some d => d | None => DUR_MAX end.
(* ExponentialRandomBackoff::randomize; `draw` is the value random_range returned *)
Definition randomize (f : f64) (d : Z) (draw : f64) : option Z :=
  if range_ok (jitter_lo d f) (jitter_hi d f) then Some (dur_sat draw) else None.

Inductive backoff :=
| Fixed (d : Z)
| Exponential (c : cfg)
| ExponentialRandom (c : cfg)
| FnInterval (f : N -> Z).

(* IntervalFunction::next_interval; None = panic *)
Definition next_interval (b : backoff) (attempt : N) (draw : f64) : option Z :=
  match b with
  | Fixed d => Some d
  | Exponential c => Some (exponential_interval (initial c) (multiplier c) attempt (max_interval c))
  | ExponentialRandom c =>
      randomize (factor c)
        (exponential_interval (initial c) (multiplier c) attempt (max_interval c)) draw
  | FnInterval f => Some (f attempt)
  end.

(* RetryPolicy::next_backoff *)
Definition next_backoff (b : backoff) (attempt : N) (draw : f64) : option Z :=
  next_interval b attempt draw.

(* constructors: ExponentialBackoff::new(..).multiplier(m)[.max_interval(c)],
   ExponentialRandomBackoff::new(initial, factor) clamps the factor *)
Definition exponential_backoff (ini : Z) (m : f64) (cap : option Z) : backoff :=
  Exponential (mkCfg ini m fzero cap).
Definition exponential_random_backoff (ini : Z) (m : f64) (f : f64) (cap : option Z) : backoff :=
  ExponentialRandom (mkCfg ini m (clamp01 f) cap).

Inductive reconnect_policy :=
| PNone
| PFixed (d : Z)
| PExponential (c : cfg)
| PExponentialRandom (c : cfg)
| PCustom (f : N -> Z).

(* ReconnectPolicy::{fixed, exponential, exponential_random} *)
Definition policy_fixed (d : Z) : reconnect_policy := PFixed d.
Definition policy_exponential (ini cap : Z) : reconnect_policy :=
  PExponential (mkCfg ini ftwo fzero (Some cap)).
Definition policy_exponential_random (ini cap : Z) (f : f64) : reconnect_policy :=
  PExponentialRandom (mkCfg ini ftwo (clamp01 f) (Some cap)).

(* ReconnectPolicy::delay_for_attempt; outer None = panic, inner None = "no reconnection" *)
Definition delay_for_attempt (p : reconnect_policy) (attempt : N) (draw : f64)
  : option (option Z) :=
  match p with
  | PNone => Some None
  | PFixed d => option_map Some (next_interval (Fixed d) attempt draw)
  | PExponential c => option_map Some (next_interval (Exponential c) attempt draw)
  | PExponentialRandom c => option_map Some (next_interval (ExponentialRandom c) attempt draw)
  | PCustom f => option_map Some (next_interval (FnInterval f) attempt draw)
  end.

(* ------------------------------------------------------------------------- *)
(* The loop counters of the two layers that call these functions against a failing backend.
   One loop step = what the layer does after one more failed inner call (retryable / reconnectable
   error, no retry budget): LSleep d a' = sleep for d ns and call again with the counter at a',
   LStop = give the error back to the caller, LPanic = the step panics.

   Retry (tower-resilience-retry/src/lib.rs, the `Err(error)` arm of the loop in `call`):
     let mut attempt = 0;                                   // usize
     ... if attempt + 1 >= max_attempts { return Err(error) }
         let delay = config.policy.next_backoff(attempt);
         tokio::time::sleep(delay).await;  attempt += 1;
   `attempt + 1` is a usize addition: with overflow checks (the harness profile, and every debug
   build) it panics on overflow; usize_succ models the checked form.

   Reconnect (tower-resilience-reconnect/src/service.rs, ReconnectFuture::poll, Phase::Calling,
   reconnectable error; `attempt: u32` starts at 0 for every request):
     let counted = this.attempt.checked_add(1);             // /repo 0c0148b (was `+= 1`) and
     *this.attempt = counted.unwrap_or(u32::MAX);            // 4ccf9b3 (was saturating_add + `attempt > max`)
     if let Some(max) = max_attempts {
       if counted.map_or(true, |attempts| attempts > max) { return MaxAttemptsExceeded } }
   i.e. the stored counter saturates, and a count that no longer fits a u32 exceeds every
   configured maximum (max_attempts(u32::MAX) gives up after 2^32 failed calls);
     match policy.delay_for_attempt( *this.attempt as usize ) {
       Some(delay) => Phase::Sleeping(tokio::time::sleep(delay)), None => return ConnectionFailed }
   `u32 as usize` is lossless (usize has at least 32 bits on every tokio target).
   tokio::time::sleep(d) itself accepts every Duration (Instant::now().checked_add(d), else
   a far-future deadline): not modelled. *)
Definition USIZE_MAX : N := 18446744073709551615%N.
Definition U32_MAX : N := 4294967295%N.
Definition usize_succ (a : N) : option N := if (a <? USIZE_MAX)%N then Some (a + 1)%N else None.
Definition u32_checked_succ (a : N) : option N := if (a <? U32_MAX)%N then Some (a + 1)%N else None.
Definition u32_sat_succ (a : N) : N :=
  match u32_checked_succ a with Some a1 => a1 | None => U32_MAX end.

Inductive loop_step :=
| LSleep (d : Z) (next : N)
| LStop
| LPanic.

Definition retry_step (b : backoff) (max_attempts attempt : N) (draw : f64) : loop_step :=
  match usize_succ attempt with
  | None => LPanic
  | Some a1 =>
      if (max_attempts <=? a1)%N then LStop
      else match next_backoff b attempt draw with
           | None => LPanic
           | Some d => LSleep d a1
           end
  end.

Definition reconnect_step (p : reconnect_policy) (max_attempts : option N) (attempt : N) (draw : f64)
  : loop_step :=
  let counted := u32_checked_succ attempt in
  let a1 := u32_sat_succ attempt in
  if match max_attempts with
     | Some m => match counted with Some n => (m <? n)%N | None => true end
     | None => false
     end then LStop
  else match delay_for_attempt p a1 draw with
       | None => LPanic
       | Some None => LStop
       | Some (Some d) => LSleep d a1
       end.

(* the i-th step of a loop takes the i-th draw of the request's jitter stream *)
Definition retry_stepf (b : backoff) (max_attempts : N) (draws : nat -> f64) (i : nat) (attempt : N)
  : loop_step := retry_step b max_attempts attempt (draws i).
Definition reconnect_stepf (p : reconnect_policy) (max_attempts : option N) (draws : nat -> f64)
  (i : nat) (attempt : N) : loop_step := reconnect_step p max_attempts attempt (draws i).
Definition no_jitter (_ : nat) : f64 := fzero.

(* at most `fuel` steps of a loop whose i-th step is `stepf i counter`: the delays slept, and
   whether the loop panicked *)
Fixpoint loop_delays (stepf : nat -> N -> loop_step) (fuel i : nat) (attempt : N) : list Z * bool :=
  match fuel with
  | O => ([], false)
  | S k =>
      match stepf i attempt with
      | LSleep d a' => let (l, p) := loop_delays stepf k (S i) a' in (d :: l, p)
      | LStop => ([], false)
      | LPanic => ([], true)
      end
  end.

(* ------------------------------------------------------------------------- *)
(* End-to-end loops against an inner service that always fails.
   The harness advances the paused clock in steps of `step` ns; a sleep of `d` ns started at
   instant t (a multiple of step) has fired at the first multiple of step that is >= t + d
   (step is a whole number of milliseconds, so tokio's rounding of deadlines up to a whole
   millisecond makes no difference). Returns the instants (ns) of the inner calls after the
   first one (which happens at 0). *)
Definition MS : Z := 1000000.
Definition ceil_to (x g : Z) : Z := ((x + g - 1) / g) * g.
Fixpoint instants (step t : Z) (ds : list Z) : list Z :=
  match ds with
  | [] => []
  | d :: r => let t' := ceil_to (t + d) step in t' :: instants step t' r
  end.
Definition emit_loop (step : Z) (r : list Z * bool) : list Z :=
  let (ds, panicked) := r in
  (if panicked then 1 else 0) :: Z.of_nat (S (length ds)) :: map (fun t => t / MS) (instants step 0 ds).

(* ------------------------------------------------------------------------- *)
(* script = [kind; initial_ns; multiplier_bits; has_cap; cap_ns; factor_bits; n; attempt x n; oracle x n]
     kind 0 FixedInterval(initial)                      -> per attempt [panicked; ns]
     kind 1 ExponentialBackoff via RetryPolicy::next_backoff -> per attempt [panicked; ns]
     kind 2 ExponentialRandomBackoff                    -> per attempt [panicked; jittered ns; base ns]
     kind 3 ReconnectPolicy::exponential(initial, cap)  -> per attempt [panicked; ns]
     kind 4 ReconnectPolicy::exponential_random         -> per attempt [panicked; jittered ns; base ns]
     kind 5 ReconnectPolicy::fixed, 6 ReconnectPolicy::none (ns = -1: no delay)
     kind 7 FnInterval (closure |a| initial + a mod 1000 ns) via RetryPolicy::next_backoff and
            ReconnectPolicy::Custom                     -> per attempt [panicked; ns; panicked; ns]
     kind 8 reconnect loop end-to-end: attempts slot = [retries; step_ms; max; route] (n = 2: max =
            route = 0): max = 0 unlimited_attempts, max > 0 max_attempts(max - 1); route 0
            ReconnectPolicy::exponential(initial, cap), route 1 the builder's default policy
                                                        -> [panicked; n calls; instants(ms)*]
     kind 9 retry loop end-to-end: same slot; max = 0 max_attempts(retries + 1), max > 0
            max_attempts(max); route 0 .backoff(ExponentialBackoff), route 1
            .exponential_backoff(initial), route 2 the builder's default backoff
   Jittered kinds: the thread-local RNG cannot be seeded, so the oracle slot carries the value the
   implementation returned (gen/c14.py model_input); the model answers with that value when it
   lies between the results for the two extreme draws (a necessary condition for the existence of
   a draw producing it) and with the nearer extreme otherwise, so that equal traces mean
   membership. *)
Definition custom_fn (ini : Z) (a : N) : Z := ini + Z.of_N (a mod 1000).

Definition emit_plain (r : option Z) : list Z :=
  match r with Some d => [0; d] | None => [1; 0] end.

Definition emit_jitter (c : cfg) (a : N) (oracle : Z) : list Z :=
  let base := exponential_interval (initial c) (multiplier c) a (max_interval c) in
  let lo := jitter_lo base (factor c) in
  let hi := jitter_hi base (factor c) in
  match next_interval (ExponentialRandom c) a lo, next_interval (ExponentialRandom c) a hi with
  | Some l, Some h => [0; Z.max l (Z.min oracle h); base]
  | _, _ => [1; 0; base]
  end.

Definition emit_delay (r : option (option Z)) : list Z :=
  match r with Some (Some d) => [0; d] | Some None => [0; -1] | None => [1; 0] end.

Definition run_script (s : list Z) : list Z :=
  let kind := zn s 0 in
  let ini := zn s 1 in
  let m := b64_of_bits (zn s 2) in
  let cap := if z2b (zn s 3) then Some (zn s 4) else None in
  let f := b64_of_bits (zn s 5) in
  let n := Z.to_nat (zn s 6) in
  let idx := seq 0 n in
  let att (i : nat) := Z.to_N (zn s (7 + i)%nat) in
  let orc (i : nat) := zn s (7 + n + i)%nat in
  if kind =? 0 then
    flat_map (fun i => emit_plain (next_interval (Fixed ini) (att i) fzero)) idx
  else if kind =? 1 then
    flat_map (fun i => emit_plain (next_backoff (exponential_backoff ini m cap) (att i) fzero)) idx
  else if kind =? 2 then
    flat_map (fun i => emit_jitter (mkCfg ini m (clamp01 f) cap) (att i) (orc i)) idx
  else if kind =? 3 then
    flat_map (fun i => emit_delay (delay_for_attempt (policy_exponential ini (zn s 4)) (att i) fzero))
             idx
  else if kind =? 4 then
    flat_map (fun i => emit_jitter (mkCfg ini ftwo (clamp01 f) (Some (zn s 4))) (att i) (orc i)) idx
  else if kind =? 5 then
    flat_map (fun i => emit_delay (delay_for_attempt (policy_fixed ini) (att i) fzero)) idx
  else if kind =? 6 then
    flat_map (fun i => emit_delay (delay_for_attempt PNone (att i) fzero)) idx
  else if kind =? 7 then
    flat_map (fun i => emit_plain (next_backoff (FnInterval (custom_fn ini)) (att i) fzero)
                       ++ emit_delay (delay_for_attempt (PCustom (custom_fn ini)) (att i) fzero))
             idx
  else if kind =? 8 then
    let k := Z.to_nat (zn s 7%nat) in
    let step := zn s 8%nat * MS in
    let mx := zn s 9%nat in
    let max_attempts := if mx =? 0 then None else Some (Z.to_N (mx - 1)) in
    let pol := if zn s 10%nat =? 1 then policy_exponential (100 * MS) (5 * NANOS)
               else policy_exponential ini (zn s 4) in
    (* ReconnectFuture: the counter starts at 0 and is incremented before the policy is asked *)
    emit_loop step (loop_delays (reconnect_stepf pol max_attempts no_jitter) k 0 0%N)
  else if kind =? 9 then
    let k := Z.to_nat (zn s 7%nat) in
    let step := zn s 8%nat * MS in
    let mx := zn s 9%nat in
    let max_attempts := if mx =? 0 then N.of_nat (S k) else Z.to_N mx in
    let route := zn s 10%nat in
    let b := if route =? 1 then exponential_backoff ini ftwo None
             else if route =? 2 then exponential_backoff (100 * MS) ftwo None
             else exponential_backoff ini m cap in
    (* Retry: the counter starts at 0 and is incremented after the sleep *)
    emit_loop step (loop_delays (retry_stepf b max_attempts no_jitter) k 0 0%N)
  else [].
