(* Model of the adaptive concurrency limiter:
   (a) crates/tower-resilience-core/src/aimd.rs (AimdController) and
       crates/tower-resilience-adaptive/src/algorithm.rs (Aimd wrapper, Vegas) as programs of
       the atomic-step machine of Model/Budget.v (one schedule entry = one atomic operation);
   (b) crates/tower-resilience-adaptive/src/service.rs (AdaptiveService::poll_ready / call,
       the InFlightGuard, feedback on completion) as an event-driven state machine.
   No proofs here. *)
From TR Require Import Lib.Base Model.Budget.

(* ------------------------------------------------------------------------- *)
(* (a1) AimdController / Aimd: every update is limit.fetch_update(closure) = load; cas loop *)
Inductive ct_call :=
| CtSuccess                (* AimdController::record_success *)
| CtFailure                (* AimdController::record_failure *)
| CtSuccesses (n : Z)      (* AimdController::record_successes(n) *)
| CtLatency (lat : Z)      (* Aimd::record_success(latency): failure iff latency > threshold *)
| CtLimit                  (* limit() *)
| CtReset.                 (* AimdController::reset(): store the (clamped) configured initial limit *)

Inductive ct_pc :=
| CsLoad | CsCas (prev : Z)
| CfLoad | CfCas (prev : Z)
| CnLoad (n : Z) | CnCas (n prev : Z)
| ClLoad
| CrStore.

Definition ct_start (thr : Z) (c : ct_call) : ct_pc :=
  match c with
  | CtSuccess => CsLoad
  | CtFailure => CfLoad
  | CtSuccesses n => CnLoad (Z.max 0 n)          (* count : usize *)
  | CtLatency lat => if thr <? lat then CfLoad else CsLoad
  | CtLimit => ClLoad
  | CtReset => CrStore
  end.

Definition ct_op (c : acfg) (dec : Z -> Z) (initial : Z) (pc : ct_pc) : aop :=
  match pc with
  | CsLoad | CfLoad | CnLoad _ | ClLoad => OLoad LLim
  | CrStore => OStore LLim (ctl_init c initial)
  | CsCas p => OCas LLim p (ctl_succ c p)
  | CfCas p => OCas LLim p (ctl_fail c dec p)
  | CnCas n p => OCas LLim p (ctl_succs c n p)
  end.

(* return values: updates 2, limit() the value *)
Definition ct_next (pc : ct_pc) (v : Z) (ok : bool) : ct_pc + Z :=
  match pc with
  | CsLoad => inl (CsCas v)
  | CsCas _ => if ok then inr 2 else inl (CsCas v)
  | CfLoad => inl (CfCas v)
  | CfCas _ => if ok then inr 2 else inl (CfCas v)
  | CnLoad n => inl (CnCas n v)
  | CnCas n _ => if ok then inr 2 else inl (CnCas n v)
  | ClLoad => inr v
  | CrStore => inr 2
  end.

(* [initial]: the configured initial_limit (reset() goes back to its clamped value) *)
Definition ct_prog (c : acfg) (dec : Z -> Z) (thr initial : Z) : prog ct_pc ct_call :=
  {| p_start := ct_start thr; p_op := ct_op c dec initial; p_next := ct_next |}.

Definition ct_mem (c : acfg) (initial : Z) : mem :=
  fun l => match l with LLim => ctl_init c initial | _ => 0 end.

(* ------------------------------------------------------------------------- *)
(* (a2) Vegas. [smooth rtt cur] = (0.5 * rtt + 0.5 * cur) as u64;
   [qest sm mn lim] = ((sm - mn) as f64 / mn as f64 * lim as f64) as usize *)
Record vcfg := { v_min : Z; v_max : Z; v_alpha : Z; v_beta : Z; v_min_samples : Z }.

Inductive vg_call := VgSuccess (rtt : Z) | VgFailure | VgLimit.

Inductive vg_pc :=
| VuLoadMin (rtt : Z)          (* update_rtt: current_min = min_rtt.load() *)
| VuCasMin (rtt cur : Z)       (*   while rtt < current_min: cas(current_min, rtt) *)
| VuLoadSm (rtt : Z)           (*   current_smoothed = smoothed.load() *)
| VuStoreSm (v : Z)            (*   smoothed.store(new) *)
| VuAddCnt                     (*   sample_count.fetch_add(1) *)
| VaLoadCnt                    (* adjust_limit: sample_count.load() < min_samples => return *)
| VaLoadMin
| VaLoadSm (mn : Z)
| VaLoadLim (mn sm : Z)        (*   current_limit = limit.load() *)
| VaStoreLim (v : Z)           (*   limit.store(new_limit) *)
| VfLoad                       (* record_failure: current = limit.load() *)
| VfStore (v : Z)              (*   limit.store(max(current / 2, min)) *)
| VlLoad.                      (* limit() *)

Definition vg_start (c : vg_call) : vg_pc :=
  match c with VgSuccess rtt => VuLoadMin rtt | VgFailure => VfLoad | VgLimit => VlLoad end.

(* adjust_limit (algorithm.rs, /repo 96e4b2b): current_limit.saturating_add(1).min(max_limit)
   -- saturation at usize::MAX; (current_limit.saturating_sub(1)).max(min_limit) *)
Definition vg_new (c : vcfg) (qest : Z -> Z -> Z -> Z) (mn sm cur : Z) : Z :=
  let q := if mn <? sm then qest sm mn cur else 0 in
  if q <? v_alpha c then Z.min (sat_add cur 1) (v_max c)
  else if v_beta c <? q then Z.max (sat_sub cur 1) (v_min c)
  else cur.

(* the same step as it was before 96e4b2b, in a build without overflow checks:
   (current_limit + 1) wraps in usize (kept for the regression witness in Proof/Adaptive.v) *)
Definition vg_new_wrap (c : vcfg) (qest : Z -> Z -> Z -> Z) (mn sm cur : Z) : Z :=
  let q := if mn <? sm then qest sm mn cur else 0 in
  if q <? v_alpha c then Z.min ((cur + 1) mod (U64MAX + 1)) (v_max c)
  else if v_beta c <? q then Z.max (sat_sub cur 1) (v_min c)
  else cur.

Definition vg_op (pc : vg_pc) : aop :=
  match pc with
  | VuLoadMin _ => OLoad LMin
  | VuCasMin rtt cur => OCas LMin cur rtt
  | VuLoadSm _ => OLoad LSm
  | VuStoreSm v => OStore LSm v
  | VuAddCnt => OAdd LCnt 1
  | VaLoadCnt => OLoad LCnt
  | VaLoadMin => OLoad LMin
  | VaLoadSm _ => OLoad LSm
  | VaLoadLim _ _ => OLoad LLim
  | VaStoreLim v => OStore LLim v
  | VfLoad => OLoad LLim
  | VfStore v => OStore LLim v
  | VlLoad => OLoad LLim
  end.

Definition vg_next (c : vcfg) (smooth : Z -> Z -> Z) (qest : Z -> Z -> Z -> Z)
           (pc : vg_pc) (v : Z) (ok : bool) : vg_pc + Z :=
  match pc with
  | VuLoadMin rtt => if rtt <? v then inl (VuCasMin rtt v) else inl (VuLoadSm rtt)
  | VuCasMin rtt _ =>
      if ok then inl (VuLoadSm rtt)
      else if rtt <? v then inl (VuCasMin rtt v) else inl (VuLoadSm rtt)
  | VuLoadSm rtt => inl (VuStoreSm (if v =? 0 then rtt else smooth rtt v))
  | VuStoreSm _ => inl VuAddCnt
  | VuAddCnt => inl VaLoadCnt
  | VaLoadCnt => if v <? v_min_samples c then inr 2 else inl VaLoadMin
  | VaLoadMin => inl (VaLoadSm v)
  | VaLoadSm mn =>
      if (mn =? U64MAX) || (mn =? 0) || (v =? 0) then inr 2 else inl (VaLoadLim mn v)
  | VaLoadLim mn sm => inl (VaStoreLim (vg_new c qest mn sm v))
  | VaStoreLim _ => inr 2
  | VfLoad => inl (VfStore (Z.max (v / 2) (v_min c)))
  | VfStore _ => inr 2
  | VlLoad => inr v
  end.

Definition vg_prog (c : vcfg) (smooth : Z -> Z -> Z) (qest : Z -> Z -> Z -> Z)
  : prog vg_pc vg_call :=
  {| p_start := vg_start; p_op := vg_op; p_next := vg_next c smooth qest |}.

Definition vg_mem (c : vcfg) (initial : Z) : mem :=
  fun l => match l with
           | LLim => clampz (v_min c) (v_max c) initial
           | LMin => U64MAX
           | _ => 0
           end.

(* executable instances: exact in binary64 for rtt < 2^52 resp. for min_rtt a power of two
   and (sm - mn) * lim < 2^53 (the generator only uses power-of-two rtts) *)
Definition smooth_half (rtt cur : Z) : Z := (rtt + cur) / 2.
Definition qest_q (sm mn lim : Z) : Z := ((sm - mn) * lim) / mn.

(* ------------------------------------------------------------------------- *)
(* (a3) the algorithms run by ONE task (the service of part (b) feeds them from a
   current-thread runtime): state and the two feedback functions. AIMD only uses [as_lim]. *)
Record ast := { as_lim : Z; as_mn : Z; as_sm : Z; as_cnt : Z }.
Definition ast_set_lim (a : ast) (v : Z) : ast :=
  {| as_lim := v; as_mn := as_mn a; as_sm := as_sm a; as_cnt := as_cnt a |}.

(* [al_ok lat] = record_success(latency lat, in ms); [al_err] = record_failure() *)
Record alg := { al_ok : Z -> ast -> ast; al_err : ast -> ast }.

(* Aimd (algorithm.rs): a success slower than the threshold is a congestion signal *)
Definition aimd_alg (c : acfg) (dec : Z -> Z) (thr : Z) : alg :=
  {| al_ok := fun lat a => ast_set_lim a (if thr <? lat then ctl_fail c dec (as_lim a)
                                          else ctl_succ c (as_lim a));
     al_err := fun a => ast_set_lim a (ctl_fail c dec (as_lim a)) |}.
Definition aimd_init (c : acfg) (initial : Z) : ast :=
  {| as_lim := ctl_init c initial; as_mn := 0; as_sm := 0; as_cnt := 0 |}.

(* Vegas::record_success(latency) = update_rtt; adjust_limit, executed without interruption
   (the sequential reading of the atomic-step program [vg_prog], see Proof/Adaptive.v
   vegas_alone_is_sequential); rtt in ns *)
Definition vs_succ (c : vcfg) (smooth : Z -> Z -> Z) (qest : Z -> Z -> Z -> Z) (rtt : Z) (a : ast)
  : ast :=
  let mn := if rtt <? as_mn a then rtt else as_mn a in
  let sm := if as_sm a =? 0 then rtt else smooth rtt (as_sm a) in
  let cnt := as_cnt a + 1 in
  let lim :=
    if cnt <? v_min_samples c then as_lim a
    else if (mn =? U64MAX) || (mn =? 0) || (sm =? 0) then as_lim a
    else vg_new c qest mn sm (as_lim a) in
  {| as_lim := lim; as_mn := mn; as_sm := sm; as_cnt := cnt |}.
Definition vs_fail (c : vcfg) (a : ast) : ast := ast_set_lim a (Z.max (as_lim a / 2) (v_min c)).

Definition NS_PER_MS : Z := 1000000.
Definition vegas_alg (c : vcfg) (smooth : Z -> Z -> Z) (qest : Z -> Z -> Z -> Z) : alg :=
  {| al_ok := fun lat a => vs_succ c smooth qest (lat * NS_PER_MS) a; al_err := vs_fail c |}.
Definition vegas_init (c : vcfg) (initial : Z) : ast :=
  {| as_lim := clampz (v_min c) (v_max c) initial; as_mn := U64MAX; as_sm := 0; as_cnt := 0 |}.

(* ------------------------------------------------------------------------- *)
(* (b) the service, driven by one task. Times in ms. *)
Record svc := {
  sv_alg : ast;                  (* the state of the (shared) algorithm *)
  sv_inflight : Z;               (* the in_flight counter *)
  sv_live : list (nat * Z);      (* call futures alive: id, start instant *)
  sv_created : list nat;         (* ids used so far *)
  sv_gate : list (nat * Z);      (* outcomes sent to the inner calls: 0 ok, 1 err, 2 panic *)
  sv_now : Z;
  sv_park : list (nat * Z);      (* parked callers (clones with a waker of their own): result of
                                    their last readiness check *)
  sv_inner : Z                   (* inner poll_ready: 0 Ready(Ok), 1 Pending, 2 Ready(Err) *)
}.
Definition sv_limit (s : svc) : Z := as_lim (sv_alg s).   (* algorithm.limit() *)

Inductive sev :=
| EReady                         (* poll_ready *)
| ECall (a : nat)                (* call(): creates call future a *)
| EPoll (a : nat)
| EComplete (a : nat) (o : Z)    (* the inner call of a gets its outcome *)
| EDrop (a : nat)
| EAdvance (ms : Z)
| ESetInner (mode : Z)
| ECallPanic (a : nat)           (* call() on an inner service whose call() panics *)
| EExtFail                       (* service.algorithm().record_failure(): feedback that does not
                                    come from a call of this service (the algorithm is shared) *)
| EExtSucc                       (* service.algorithm().record_success(0) *)
| EPark (a : nat)                (* caller a (a clone of the service with its own waker, made at its
                                    first check) calls poll_ready; its waker is kept *)
| EWoken (a : nat)               (* has caller a's waker been woken since its last check? *)
| EUnpark (a : nat).             (* caller a goes away: its clone and its waker are dropped *)

Fixpoint lookup {V : Type} (a : nat) (l : list (nat * V)) : option V :=
  match l with
  | [] => None
  | (k, v) :: t => if Nat.eqb k a then Some v else lookup a t
  end.
Fixpoint remove_key {V : Type} (a : nat) (l : list (nat * V)) : list (nat * V) :=
  match l with
  | [] => []
  | (k, v) :: t => if Nat.eqb k a then remove_key a t else (k, v) :: remove_key a t
  end.
Fixpoint memn (a : nat) (l : list nat) : bool :=
  match l with [] => false | k :: t => Nat.eqb k a || memn a t end.

Definition sv_set (s : svc) (al : ast) (inflight : Z) (live : list (nat * Z)) : svc :=
  {| sv_alg := al; sv_inflight := inflight; sv_live := live; sv_created := sv_created s;
     sv_gate := sv_gate s; sv_now := sv_now s; sv_park := sv_park s; sv_inner := sv_inner s |}.

(* result codes: poll_ready 10 Pending (inner) / 11 Ready(Ok) / 12 Ready(Err) / 13 Pending at
   the limit (wakes itself); call 20 created / 21 id in use / 26 inner.call() panicked;
   poll 30 Pending / 31 Ok / 32 Err / 35 panicked / 39 no such live future;
   complete 40; drop 50 dropped a live future / 59 nothing to drop; advance 60; set-inner 70;
   external feedback on the shared algorithm: 80 failure / 81 success.
   poll_ready compares in_flight with the algorithm's CURRENT limit (algorithm.limit()), not
   with a copy refreshed by this service's own calls. *)
Definition ready_code (s : svc) : Z :=
  if sv_limit s <=? sv_inflight s then 13
  else if sv_inner s =? 0 then 11 else if sv_inner s =? 1 then 10 else 12.

Definition sv_set_park (s : svc) (pk : list (nat * Z)) : svc :=
  {| sv_alg := sv_alg s; sv_inflight := sv_inflight s; sv_live := sv_live s;
     sv_created := sv_created s; sv_gate := sv_gate s; sv_now := sv_now s;
     sv_park := pk; sv_inner := sv_inner s |}.

(* codes of the parked-caller events: EPark as poll_ready (10 / 11 / 12 / 13); EWoken 91 woken /
   90 not; EUnpark 92. A refusal at the limit wakes the caller's waker on the spot (13), so a
   parked caller that was refused at the limit has always been woken by the time capacity is
   free; a Pending that comes from the inner service (10) wakes nobody here. *)
Definition sv_step (A : alg) (s : svc) (e : sev) : svc * Z :=
  match e with
  | EPark a => (sv_set_park s ((a, ready_code s) :: remove_key a (sv_park s)), ready_code s)
  | EWoken a => (s, match lookup a (sv_park s) with
                    | Some r => if r =? 13 then 91 else 90
                    | None => 90
                    end)
  | EUnpark a => (sv_set_park s (remove_key a (sv_park s)), 92)
  | EReady =>
      if sv_limit s <=? sv_inflight s then (s, 13)
      else (s, if sv_inner s =? 0 then 11 else if sv_inner s =? 1 then 10 else 12)
  | ECall a =>
      if memn a (sv_created s) then (s, 21)
      else ({| sv_alg := sv_alg s; sv_inflight := sv_inflight s + 1;
               sv_live := (a, sv_now s) :: sv_live s; sv_created := a :: sv_created s;
               sv_gate := sv_gate s; sv_now := sv_now s; sv_park := sv_park s; sv_inner := sv_inner s |}, 20)
  | ECallPanic a =>
      if memn a (sv_created s) then (s, 21)
      (* in_flight is incremented and the guard created before inner.call(); the panic
         unwinds through call() and drops the guard: no future, the slot is given back *)
      else ({| sv_alg := sv_alg s; sv_inflight := sv_inflight s + 1 - 1;
               sv_live := sv_live s; sv_created := a :: sv_created s;
               sv_gate := sv_gate s; sv_now := sv_now s; sv_park := sv_park s; sv_inner := sv_inner s |}, 26)
  | EPoll a =>
      match lookup a (sv_live s) with
      | None => (s, 39)
      | Some start =>
          match lookup a (sv_gate s) with
          | None => (s, 30)
          | Some o =>
              let live' := remove_key a (sv_live s) in
              if o =? 0 then
                (sv_set s (al_ok A (sv_now s - start) (sv_alg s)) (sv_inflight s - 1) live', 31)
              else if o =? 1 then
                (sv_set s (al_err A (sv_alg s)) (sv_inflight s - 1) live', 32)
              else (sv_set s (sv_alg s) (sv_inflight s - 1) live', 35)
          end
      end
  | EComplete a o =>
      match lookup a (sv_gate s) with
      | Some _ => (s, 40)
      | None => ({| sv_alg := sv_alg s; sv_inflight := sv_inflight s; sv_live := sv_live s;
                    sv_created := sv_created s; sv_gate := (a, o) :: sv_gate s;
                    sv_now := sv_now s; sv_park := sv_park s; sv_inner := sv_inner s |}, 40)
      end
  | EDrop a =>
      match lookup a (sv_live s) with
      | None => (s, 59)
      | Some _ => (sv_set s (sv_alg s) (sv_inflight s - 1) (remove_key a (sv_live s)), 50)
      end
  | EAdvance ms =>
      ({| sv_alg := sv_alg s; sv_inflight := sv_inflight s; sv_live := sv_live s;
          sv_created := sv_created s; sv_gate := sv_gate s; sv_now := sv_now s + Z.max 0 ms;
          sv_park := sv_park s; sv_inner := sv_inner s |}, 60)
  | ESetInner mode =>
      ({| sv_alg := sv_alg s; sv_inflight := sv_inflight s; sv_live := sv_live s;
          sv_created := sv_created s; sv_gate := sv_gate s; sv_now := sv_now s;
          sv_park := sv_park s; sv_inner := mode |}, 70)
  | EExtFail => (sv_set s (al_err A (sv_alg s)) (sv_inflight s) (sv_live s), 80)
  | EExtSucc => (sv_set s (al_ok A 0 (sv_alg s)) (sv_inflight s) (sv_live s), 81)
  end.

Definition sv_st (A : alg) (s : svc) (e : sev) : svc := fst (sv_step A s e).

Definition sv_init (a0 : ast) : svc :=
  {| sv_alg := a0; sv_inflight := 0; sv_live := []; sv_created := [];
     sv_gate := []; sv_now := 0; sv_park := []; sv_inner := 0 |}.

(* the service as it was on the pinned tree (before the InFlightGuard): the counter was
   decremented only after the inner future had been awaited to completion, so a dropped or
   panicking call kept its slot (regression witness in Proof/Adaptive.v) *)
Definition sv_step_pinned (A : alg) (s : svc) (e : sev) : svc * Z :=
  match e with
  | EDrop a =>
      match lookup a (sv_live s) with
      | None => (s, 59)
      | Some _ => (sv_set s (sv_alg s) (sv_inflight s) (remove_key a (sv_live s)), 50)
      end
  | _ => sv_step A s e
  end.

(* run, collecting the result codes *)
Fixpoint sv_run (A : alg) (s : svc) (evs : list sev) : svc * list Z :=
  match evs with
  | [] => (s, [])
  | e :: t =>
      let (s', r) := sv_step A s e in
      let (s'', rs) := sv_run A s' t in
      (s'', r :: rs)
  end.

(* the in-flight balance of a history of result codes *)
Definition code_delta (r : Z) : Z :=
  if r =? 20 then 1
  else if (r =? 31) || (r =? 32) || (r =? 35) || (r =? 50) then -1
  else 0.
Fixpoint sumz (l : list Z) : Z := match l with [] => 0 | x :: t => x + sumz t end.

(* ------------------------------------------------------------------------- *)
(* (c) the service under threads: every worker owns a CLONE of one AdaptiveService<_, Aimd>
   (clones share in_flight, current_limit and the algorithm) and calls poll_ready / call /
   polls or drops the futures it holds, on its own OS thread; one schedule entry = one atomic
   operation on in_flight (LInf), on the service's current_limit cell (LCur) or on the
   controller's limit (LLim). The clock does not move (every latency is 0 <= threshold).
     poll_ready : limit(); in_flight.load(); Pending iff in_flight >= limit
     call       : in_flight.fetch_add(1) [guard]; inner.call(); limit(); current_limit.load();
                  store only when they differ
     the future, polled after the inner call got its outcome:
                  ok / err: guard dropped = in_flight.fetch_sub(1); record_success / _failure
                  (fetch_update on the limit); limit(); current_limit.load(); store when they
                  differ.  panic of the inner future, or the future dropped: fetch_sub only
     call with a panicking inner.call(): fetch_add; (unwinding) fetch_sub *)
Inductive tv_call :=
| TvReady
| TvCall
| TvFinish (o : Z)         (* 0 ok | 1 err | 2 the inner future panics | 3 dropped unpolled *)
| TvCallPanic.

Inductive tv_pc :=
| TrLim | TrInf (lim : Z)
| TcAdd | TcLim | TcCur (a : Z) | TcStore (a : Z)
| TpAdd | TpSub
| TfSub (o : Z)
| TfSLoad (r : Z) | TfSCas (r p : Z)
| TfFLoad (r : Z) | TfFCas (r p : Z)
| TfLim (r : Z) | TfCur (r a : Z) | TfStore (r a : Z).

Definition tv_start (c : tv_call) : tv_pc :=
  match c with
  | TvReady => TrLim | TvCall => TcAdd | TvFinish o => TfSub o | TvCallPanic => TpAdd
  end.

Definition tv_op (c : acfg) (dec : Z -> Z) (pc : tv_pc) : aop :=
  match pc with
  | TrLim | TcLim | TfSLoad _ | TfFLoad _ | TfLim _ => OLoad LLim
  | TrInf _ => OLoad LInf
  | TcAdd | TpAdd => OAdd LInf 1
  | TpSub | TfSub _ => OAdd LInf (-1)
  | TcCur _ | TfCur _ _ => OLoad LCur
  | TcStore a | TfStore _ a => OStore LCur a
  | TfSCas _ p => OCas LLim p (ctl_succ c p)
  | TfFCas _ p => OCas LLim p (ctl_fail c dec p)
  end.

(* return values: the result codes of part (b): 11 / 13, 20, 26, 31 / 32 / 35 / 50 *)
Definition tv_next (pc : tv_pc) (v : Z) (ok : bool) : tv_pc + Z :=
  match pc with
  | TrLim => inl (TrInf v)
  | TrInf lim => inr (if lim <=? v then 13 else 11)
  | TcAdd => inl TcLim
  | TcLim => inl (TcCur v)
  | TcCur a => if a =? v then inr 20 else inl (TcStore a)
  | TcStore _ => inr 20
  | TpAdd => inl TpSub
  | TpSub => inr 26
  | TfSub o => if o =? 0 then inl (TfSLoad 31) else if o =? 1 then inl (TfFLoad 32)
               else if o =? 2 then inr 35 else inr 50
  | TfSLoad r => inl (TfSCas r v)
  | TfSCas r _ => if ok then inl (TfLim r) else inl (TfSCas r v)
  | TfFLoad r => inl (TfFCas r v)
  | TfFCas r _ => if ok then inl (TfLim r) else inl (TfFCas r v)
  | TfLim r => inl (TfCur r v)
  | TfCur r a => if a =? v then inr r else inl (TfStore r a)
  | TfStore r _ => inr r
  end.

Definition tv_prog (c : acfg) (dec : Z -> Z) : prog tv_pc tv_call :=
  {| p_start := tv_start; p_op := tv_op c dec; p_next := tv_next |}.

Definition tv_mem (c : acfg) (initial : Z) : mem :=
  fun l => match l with LLim | LCur => ctl_init c initial | _ => 0 end.

(* the slot accounting read off a state: +1 while a call() is past its fetch_add (or a
   panicking call() is between its fetch_add and fetch_sub), -1 while a finishing future is
   past its fetch_sub *)
Definition tv_weight (pc : tv_pc) : Z :=
  match pc with
  | TcLim | TcCur _ | TcStore _ | TpSub => 1
  | TfSLoad _ | TfSCas _ _ | TfFLoad _ | TfFCas _ _ | TfLim _ | TfCur _ _ | TfStore _ _ => -1
  | _ => 0
  end.
Definition tv_is_call (r : orec tv_call) : bool :=
  match r_call r with TvCall => true | _ => false end.
Definition tv_is_finish (r : orec tv_call) : bool :=
  match r_call r with TvFinish _ => true | _ => false end.
Definition tv_created (s : state tv_pc tv_call) : Z := countz tv_is_call (st_log s).
Definition tv_finished (s : state tv_pc tv_call) : Z := countz tv_is_finish (st_log s).
Definition tv_in_progress (s : state tv_pc tv_call) : Z := wsum tv_weight (st_thr s).

(* a release that is NOT one atomic step (load; store of the decremented value), as a
   well-meant rewrite of InFlightGuard::drop "to avoid underflow" would have it: regression
   witness in Proof/Adaptive.v (two completions lose a decrement) *)
Inductive tvn_pc := NSubLoad | NSubStore (v : Z).
Definition tvn_prog : prog tvn_pc unit :=
  {| p_start := fun _ => NSubLoad;
     p_op := fun pc => match pc with NSubLoad => OLoad LInf | NSubStore v => OStore LInf v end;
     p_next := fun pc v _ => match pc with
                             | NSubLoad => inl (NSubStore (sat_sub v 1))
                             | NSubStore _ => inr 50
                             end |}.

(* ------------------------------------------------------------------------- *)
(* script interface (see harness/src/bin/c13.rs)
   kinds 1..3: [kind; p0..p6; npre; (code arg)*; nthreads; {ncalls; (code arg)*}*; nsched; entry*]
     1 AimdController: initial min max increase_by dec_num dec_den _ ;
       calls 0 record_success, 1 record_failure, 2 record_successes(arg), 3 limit(), 4 reset()
     2 Aimd: ... p6 = latency threshold (ns); calls 0 record_success(arg ns), 1 record_failure, 3 limit()
     3 Vegas: initial min max alpha beta; calls 0 record_success(arg ns), 1 record_failure, 3 limit()
   kind 4: [4; initial; min; max; increase_by; dec_num; dec_den; threshold_ms; (op a b)*]
     op 1 poll_ready | 2 call a | 3 poll a | 4 complete a b | 5 drop a | 6 advance a ms
        | 7 inner readiness a | 8 call a with panicking inner.call()
        | 9 algorithm().record_failure() | 10 algorithm().record_success(0)
        | 11 poll_ready by parked caller a (own clone, own waker) | 12 was a's waker woken? (91/90)
        | 13 caller a goes away (92)
   kind 6: the same events, the service over Vegas: [6; initial; min; max; alpha; beta; 0; 0; ...]
   kinds 7 / 8: as 4 / 6, the algorithm built by its builder, wrapped in the Algorithm enum and
     the service made by AdaptiveLimiterLayer::layer
   kind 5: [5; initial; min; max; increase_by; dec_num; dec_den; 0; threads as in kinds 1..3]:
     clones of one AdaptiveService<_, Aimd> on worker threads, part (c)
   kind 55: a kind-5 script on a tree whose service.rs atomics are not instrumented (the driver
     cannot schedule them and says so): trace [-5] *)
Definition ctl_decode (c : Z * Z) : ct_call :=
  if fst c =? 0 then CtSuccess else if fst c =? 1 then CtFailure
  else if fst c =? 2 then CtSuccesses (snd c) else if fst c =? 4 then CtReset else CtLimit.
Definition aimd_decode (c : Z * Z) : ct_call :=
  if fst c =? 0 then CtLatency (snd c) else if fst c =? 1 then CtFailure else CtLimit.
Definition vg_decode (c : Z * Z) : vg_call :=
  if fst c =? 0 then VgSuccess (snd c) else if fst c =? 1 then VgFailure else VgLimit.

Definition sev_decode (t : Z * Z * Z) : sev :=
  match t with
  | (op, a, b) =>
      if op =? 1 then EReady
      else if op =? 2 then ECall (Z.to_nat a)
      else if op =? 3 then EPoll (Z.to_nat a)
      else if op =? 4 then EComplete (Z.to_nat a) b
      else if op =? 5 then EDrop (Z.to_nat a)
      else if op =? 6 then EAdvance a
      else if op =? 7 then ESetInner a
      else if op =? 9 then EExtFail
      else if op =? 10 then EExtSucc
      else if op =? 11 then EPark (Z.to_nat a)
      else if op =? 12 then EWoken (Z.to_nat a)
      else if op =? 13 then EUnpark (Z.to_nat a)
      else ECallPanic (Z.to_nat a)
  end.

Fixpoint sv_trace (A : alg) (s : svc) (evs : list sev) : svc * list Z :=
  match evs with
  | [] => (s, [])
  | e :: t =>
      let (s', r) := sv_step A s e in
      let (s'', tr) := sv_trace A s' t in
      (s'', r :: sv_inflight s' :: sv_limit s' :: tr)
  end.

(* after the script: every future still alive is dropped, the inner service is made ready
   and a probe caller checks readiness *)
Definition sv_script (A : alg) (a0 : ast) (evs : list sev) : list Z :=
  let (s1, tr) := sv_trace A (sv_init a0) evs in
  let closing := map (fun p => EDrop (fst p)) (sv_live s1) ++ [ESetInner 0] in
  let s2 := fold_left (sv_st A) closing s1 in
  let (s3, r) := sv_step A s2 EReady in
  tr ++ [r; sv_inflight s3; sv_limit s3].

Definition MIN_SAMPLES : Z := 10.     (* Vegas::new: min_samples: 10, smoothing: 0.5 *)

(* kind 5 calls: 0 poll_ready, 1 call (arg: the worker's slot for the future), 2 finish the
   future in slot arg/10 with outcome arg mod 10, 3 call with a panicking inner.call() *)
Definition tv_decode (c : Z * Z) : tv_call :=
  if fst c =? 0 then TvReady else if fst c =? 1 then TvCall
  else if fst c =? 2 then TvFinish (snd c mod 10) else TvCallPanic.

Definition run_script (s : list Z) : list Z :=
  let kind := zn s 0 in
  let c := {| a_min := zn s 2; a_max := zn s 3; a_inc := zn s 4 |} in
  let dec := dec_q (zn s 5) (zn s 6) in
  let v := {| v_min := zn s 2; v_max := zn s 3; v_alpha := zn s 4; v_beta := zn s 5;
              v_min_samples := MIN_SAMPLES |} in
  if (kind =? 4) || (kind =? 7) then
    sv_script (aimd_alg c dec (zn s 7)) (aimd_init c (zn s 1)) (map sev_decode (chunk3 (skipn 8 s)))
  else if (kind =? 6) || (kind =? 8) then
    sv_script (vegas_alg v smooth_half qest_q) (vegas_init v (zn s 1))
              (map sev_decode (chunk3 (skipn 8 s)))
  else if kind =? 55 then [-5]
  else
    match parse_threads (skipn 8 s) with
    | (pre, ths, sch) =>
        let sched := map (decode_entry (length ths)) sch in
        let snap := fun m : mem => [m LLim] in
        if kind =? 1 then
          run_machine (ct_prog c dec 0 (zn s 1)) snap (ct_mem c (zn s 1))
                      (map ctl_decode pre) (map (map ctl_decode) ths) sched
        else if kind =? 2 then
          run_machine (ct_prog c dec (zn s 7) (zn s 1)) snap (ct_mem c (zn s 1))
                      (map aimd_decode pre) (map (map aimd_decode) ths) sched
        else if kind =? 5 then
          run_machine (tv_prog c dec) (fun m : mem => [m LInf; m LLim]) (tv_mem c (zn s 1))
                      (map tv_decode pre) (map (map tv_decode) ths) sched
        else
          run_machine (vg_prog v smooth_half qest_q) snap (vg_mem v (zn s 1))
                      (map vg_decode pre) (map (map vg_decode) ths) sched
    end.
