(* Model of the adaptive concurrency limiter:
   (a) crates/tower-resilience-core/src/aimd.rs (AimdController) and
       crates/tower-resilience-adaptive/src/algorithm.rs (Aimd wrapper, Vegas) as programs of
       the atomic-step machine of Model/Budget.v (one schedule entry = one atomic operation);
   (b) crates/tower-resilience-adaptive/src/service.rs (AdaptiveService::poll_ready / call,
       the InFlightGuard, feedback on completion) as an event-driven state machine.
   No proofs here. *)
From TR Require Import Lib.Base Model.Budget.

(* ------------------------------------------------------------------------- *)
(* (a1) AimdController / Aimd: every update is limit.fetch_update(closure) = load; cas loop *)
Inductive ct_call :=
| CtSuccess                (* AimdController::record_success *)
| CtFailure                (* AimdController::record_failure *)
| CtSuccesses (n : Z)      (* AimdController::record_successes(n) *)
| CtLatency (lat : Z)      (* Aimd::record_success(latency): failure iff latency > threshold *)
| CtLimit.                 (* limit() *)

Inductive ct_pc :=
| CsLoad | CsCas (prev : Z)
| CfLoad | CfCas (prev : Z)
| CnLoad (n : Z) | CnCas (n prev : Z)
| ClLoad.

Definition ct_start (thr : Z) (c : ct_call) : ct_pc :=
  match c with
  | CtSuccess => CsLoad
  | CtFailure => CfLoad
  | CtSuccesses n => CnLoad (Z.max 0 n)          (* count : usize *)
  | CtLatency lat => if thr <? lat then CfLoad else CsLoad
  | CtLimit => ClLoad
  end.

Definition ct_op (c : acfg) (dec : Z -> Z) (pc : ct_pc) : aop :=
  match pc with
  | CsLoad | CfLoad | CnLoad _ | ClLoad => OLoad LLim
  | CsCas p => OCas LLim p (ctl_succ c p)
  | CfCas p => OCas LLim p (ctl_fail c dec p)
  | CnCas n p => OCas LLim p (ctl_succs c n p)
  end.

(* return values: updates 2, limit() the value *)
Definition ct_next (pc : ct_pc) (v : Z) (ok : bool) : ct_pc + Z :=
  match pc with
  | CsLoad => inl (CsCas v)
  | CsCas _ => if ok then inr 2 else inl (CsCas v)
  | CfLoad => inl (CfCas v)
  | CfCas _ => if ok then inr 2 else inl (CfCas v)
  | CnLoad n => inl (CnCas n v)
  | CnCas n _ => if ok then inr 2 else inl (CnCas n v)
  | ClLoad => inr v
  end.

Definition ct_prog (c : acfg) (dec : Z -> Z) (thr : Z) : prog ct_pc ct_call :=
  {| p_start := ct_start thr; p_op := ct_op c dec; p_next := ct_next |}.

Definition ct_mem (c : acfg) (initial : Z) : mem :=
  fun l => match l with LLim => ctl_init c initial | _ => 0 end.

(* ------------------------------------------------------------------------- *)
(* (a2) Vegas. [smooth rtt cur] = (0.5 * rtt + 0.5 * cur) as u64;
   [qest sm mn lim] = ((sm - mn) as f64 / mn as f64 * lim as f64) as usize *)
Record vcfg := { v_min : Z; v_max : Z; v_alpha : Z; v_beta : Z; v_min_samples : Z }.

Inductive vg_call := VgSuccess (rtt : Z) | VgFailure | VgLimit.

Inductive vg_pc :=
| VuLoadMin (rtt : Z)          (* update_rtt: current_min = min_rtt.load() *)
| VuCasMin (rtt cur : Z)       (*   while rtt < current_min: cas(current_min, rtt) *)
| VuLoadSm (rtt : Z)           (*   current_smoothed = smoothed.load() *)
| VuStoreSm (v : Z)            (*   smoothed.store(new) *)
| VuAddCnt                     (*   sample_count.fetch_add(1) *)
| VaLoadCnt                    (* adjust_limit: sample_count.load() < min_samples => return *)
| VaLoadMin
| VaLoadSm (mn : Z)
| VaLoadLim (mn sm : Z)        (*   current_limit = limit.load() *)
| VaStoreLim (v : Z)           (*   limit.store(new_limit) *)
| VfLoad                       (* record_failure: current = limit.load() *)
| VfStore (v : Z)              (*   limit.store(max(current / 2, min)) *)
| VlLoad.                      (* limit() *)

Definition vg_start (c : vg_call) : vg_pc :=
  match c with VgSuccess rtt => VuLoadMin rtt | VgFailure => VfLoad | VgLimit => VlLoad end.

Definition vg_new (c : vcfg) (qest : Z -> Z -> Z -> Z) (mn sm cur : Z) : Z :=
  let q := if mn <? sm then qest sm mn cur else 0 in
  if q <? v_alpha c then Z.min (cur + 1) (v_max c)
  else if v_beta c <? q then Z.max (sat_sub cur 1) (v_min c)
  else cur.

Definition vg_op (pc : vg_pc) : aop :=
  match pc with
  | VuLoadMin _ => OLoad LMin
  | VuCasMin rtt cur => OCas LMin cur rtt
  | VuLoadSm _ => OLoad LSm
  | VuStoreSm v => OStore LSm v
  | VuAddCnt => OAdd LCnt 1
  | VaLoadCnt => OLoad LCnt
  | VaLoadMin => OLoad LMin
  | VaLoadSm _ => OLoad LSm
  | VaLoadLim _ _ => OLoad LLim
  | VaStoreLim v => OStore LLim v
  | VfLoad => OLoad LLim
  | VfStore v => OStore LLim v
  | VlLoad => OLoad LLim
  end.

Definition vg_next (c : vcfg) (smooth : Z -> Z -> Z) (qest : Z -> Z -> Z -> Z)
           (pc : vg_pc) (v : Z) (ok : bool) : vg_pc + Z :=
  match pc with
  | VuLoadMin rtt => if rtt <? v then inl (VuCasMin rtt v) else inl (VuLoadSm rtt)
  | VuCasMin rtt _ =>
      if ok then inl (VuLoadSm rtt)
      else if rtt <? v then inl (VuCasMin rtt v) else inl (VuLoadSm rtt)
  | VuLoadSm rtt => inl (VuStoreSm (if v =? 0 then rtt else smooth rtt v))
  | VuStoreSm _ => inl VuAddCnt
  | VuAddCnt => inl VaLoadCnt
  | VaLoadCnt => if v <? v_min_samples c then inr 2 else inl VaLoadMin
  | VaLoadMin => inl (VaLoadSm v)
  | VaLoadSm mn =>
      if (mn =? U64MAX) || (mn =? 0) || (v =? 0) then inr 2 else inl (VaLoadLim mn v)
  | VaLoadLim mn sm => inl (VaStoreLim (vg_new c qest mn sm v))
  | VaStoreLim _ => inr 2
  | VfLoad => inl (VfStore (Z.max (v / 2) (v_min c)))
  | VfStore _ => inr 2
  | VlLoad => inr v
  end.

Definition vg_prog (c : vcfg) (smooth : Z -> Z -> Z) (qest : Z -> Z -> Z -> Z)
  : prog vg_pc vg_call :=
  {| p_start := vg_start; p_op := vg_op; p_next := vg_next c smooth qest |}.

Definition vg_mem (c : vcfg) (initial : Z) : mem :=
  fun l => match l with
           | LLim => clampz (v_min c) (v_max c) initial
           | LMin => U64MAX
           | _ => 0
           end.

(* executable instances: exact in binary64 for rtt < 2^52 resp. for min_rtt a power of two
   and (sm - mn) * lim < 2^53 (the generator only uses power-of-two rtts) *)
Definition smooth_half (rtt cur : Z) : Z := (rtt + cur) / 2.
Definition qest_q (sm mn lim : Z) : Z := ((sm - mn) * lim) / mn.

(* ------------------------------------------------------------------------- *)
(* (b) the service. Times in ms. *)
Record svc := {
  sv_limit : Z;                  (* algorithm.limit() (Aimd) *)
  sv_inflight : Z;               (* the in_flight counter *)
  sv_live : list (nat * Z);      (* call futures alive: id, start instant *)
  sv_created : list nat;         (* ids used so far *)
  sv_gate : list (nat * Z);      (* outcomes sent to the inner calls: 0 ok, 1 err, 2 panic *)
  sv_now : Z;
  sv_inner : Z                   (* inner poll_ready: 0 Ready(Ok), 1 Pending, 2 Ready(Err) *)
}.

Inductive sev :=
| EReady                         (* poll_ready *)
| ECall (a : nat)                (* call(): creates call future a *)
| EPoll (a : nat)
| EComplete (a : nat) (o : Z)    (* the inner call of a gets its outcome *)
| EDrop (a : nat)
| EAdvance (ms : Z)
| ESetInner (mode : Z)
| ECallPanic (a : nat)           (* call() on an inner service whose call() panics *)
| EExtFail                       (* service.algorithm().record_failure(): feedback that does not
                                    come from a call of this service (the algorithm is shared) *)
| EExtSucc.                      (* service.algorithm().record_success(0) *)

Fixpoint lookup {V : Type} (a : nat) (l : list (nat * V)) : option V :=
  match l with
  | [] => None
  | (k, v) :: t => if Nat.eqb k a then Some v else lookup a t
  end.
Fixpoint remove_key {V : Type} (a : nat) (l : list (nat * V)) : list (nat * V) :=
  match l with
  | [] => []
  | (k, v) :: t => if Nat.eqb k a then remove_key a t else (k, v) :: remove_key a t
  end.
Fixpoint memn (a : nat) (l : list nat) : bool :=
  match l with [] => false | k :: t => Nat.eqb k a || memn a t end.

Definition sv_set (s : svc) (limit inflight : Z) (live : list (nat * Z)) : svc :=
  {| sv_limit := limit; sv_inflight := inflight; sv_live := live; sv_created := sv_created s;
     sv_gate := sv_gate s; sv_now := sv_now s; sv_inner := sv_inner s |}.

(* result codes: poll_ready 10 Pending (inner) / 11 Ready(Ok) / 12 Ready(Err) / 13 Pending at
   the limit (wakes itself); call 20 created / 21 id in use / 26 inner.call() panicked;
   poll 30 Pending / 31 Ok / 32 Err / 35 panicked / 39 no such live future;
   complete 40; drop 50 dropped a live future / 59 nothing to drop; advance 60; set-inner 70;
   external feedback on the shared algorithm: 80 failure / 81 success.
   poll_ready compares in_flight with the algorithm's CURRENT limit (algorithm.limit()), not
   with a copy refreshed by this service's own calls. *)
Definition sv_step (c : acfg) (dec : Z -> Z) (thr : Z) (s : svc) (e : sev) : svc * Z :=
  match e with
  | EReady =>
      if sv_limit s <=? sv_inflight s then (s, 13)
      else (s, if sv_inner s =? 0 then 11 else if sv_inner s =? 1 then 10 else 12)
  | ECall a =>
      if memn a (sv_created s) then (s, 21)
      else ({| sv_limit := sv_limit s; sv_inflight := sv_inflight s + 1;
               sv_live := (a, sv_now s) :: sv_live s; sv_created := a :: sv_created s;
               sv_gate := sv_gate s; sv_now := sv_now s; sv_inner := sv_inner s |}, 20)
  | ECallPanic a =>
      if memn a (sv_created s) then (s, 21)
      (* in_flight is incremented and the guard created before inner.call(); the panic
         unwinds through call() and drops the guard: no future, the slot is given back *)
      else ({| sv_limit := sv_limit s; sv_inflight := sv_inflight s + 1 - 1;
               sv_live := sv_live s; sv_created := a :: sv_created s;
               sv_gate := sv_gate s; sv_now := sv_now s; sv_inner := sv_inner s |}, 26)
  | EPoll a =>
      match lookup a (sv_live s) with
      | None => (s, 39)
      | Some start =>
          match lookup a (sv_gate s) with
          | None => (s, 30)
          | Some o =>
              let live' := remove_key a (sv_live s) in
              if o =? 0 then
                (sv_set s (if thr <? sv_now s - start then ctl_fail c dec (sv_limit s)
                           else ctl_succ c (sv_limit s)) (sv_inflight s - 1) live', 31)
              else if o =? 1 then
                (sv_set s (ctl_fail c dec (sv_limit s)) (sv_inflight s - 1) live', 32)
              else (sv_set s (sv_limit s) (sv_inflight s - 1) live', 35)
          end
      end
  | EComplete a o =>
      match lookup a (sv_gate s) with
      | Some _ => (s, 40)
      | None => ({| sv_limit := sv_limit s; sv_inflight := sv_inflight s; sv_live := sv_live s;
                    sv_created := sv_created s; sv_gate := (a, o) :: sv_gate s;
                    sv_now := sv_now s; sv_inner := sv_inner s |}, 40)
      end
  | EDrop a =>
      match lookup a (sv_live s) with
      | None => (s, 59)
      | Some _ => (sv_set s (sv_limit s) (sv_inflight s - 1) (remove_key a (sv_live s)), 50)
      end
  | EAdvance ms =>
      ({| sv_limit := sv_limit s; sv_inflight := sv_inflight s; sv_live := sv_live s;
          sv_created := sv_created s; sv_gate := sv_gate s; sv_now := sv_now s + Z.max 0 ms;
          sv_inner := sv_inner s |}, 60)
  | ESetInner mode =>
      ({| sv_limit := sv_limit s; sv_inflight := sv_inflight s; sv_live := sv_live s;
          sv_created := sv_created s; sv_gate := sv_gate s; sv_now := sv_now s;
          sv_inner := mode |}, 70)
  | EExtFail => (sv_set s (ctl_fail c dec (sv_limit s)) (sv_inflight s) (sv_live s), 80)
  | EExtSucc =>
      (sv_set s (if thr <? 0 then ctl_fail c dec (sv_limit s) else ctl_succ c (sv_limit s))
              (sv_inflight s) (sv_live s), 81)
  end.

Definition sv_st (c : acfg) (dec : Z -> Z) (thr : Z) (s : svc) (e : sev) : svc :=
  fst (sv_step c dec thr s e).

Definition sv_init (c : acfg) (initial : Z) : svc :=
  {| sv_limit := ctl_init c initial; sv_inflight := 0; sv_live := []; sv_created := [];
     sv_gate := []; sv_now := 0; sv_inner := 0 |}.

(* run, collecting the result codes *)
Fixpoint sv_run (c : acfg) (dec : Z -> Z) (thr : Z) (s : svc) (evs : list sev) : svc * list Z :=
  match evs with
  | [] => (s, [])
  | e :: t =>
      let (s', r) := sv_step c dec thr s e in
      let (s'', rs) := sv_run c dec thr s' t in
      (s'', r :: rs)
  end.

(* the in-flight balance of a history of result codes *)
Definition code_delta (r : Z) : Z :=
  if r =? 20 then 1
  else if (r =? 31) || (r =? 32) || (r =? 35) || (r =? 50) then -1
  else 0.
Fixpoint sumz (l : list Z) : Z := match l with [] => 0 | x :: t => x + sumz t end.

(* ------------------------------------------------------------------------- *)
(* script interface (see harness/src/bin/c13.rs)
   kinds 1..3: [kind; p0..p6; npre; (code arg)*; nthreads; {ncalls; (code arg)*}*; nsched; entry*]
     1 AimdController: initial min max increase_by dec_num dec_den _ ;
       calls 0 record_success, 1 record_failure, 2 record_successes(arg), 3 limit()
     2 Aimd: ... p6 = latency threshold (ns); calls 0 record_success(arg ns), 1 record_failure, 3 limit()
     3 Vegas: initial min max alpha beta; calls 0 record_success(arg ns), 1 record_failure, 3 limit()
   kind 4: [4; initial; min; max; increase_by; dec_num; dec_den; threshold_ms; (op a b)*]
     op 1 poll_ready | 2 call a | 3 poll a | 4 complete a b | 5 drop a | 6 advance a ms
        | 7 inner readiness a | 8 call a with panicking inner.call()
        | 9 algorithm().record_failure() | 10 algorithm().record_success(0) *)
Definition ctl_decode (c : Z * Z) : ct_call :=
  if fst c =? 0 then CtSuccess else if fst c =? 1 then CtFailure
  else if fst c =? 2 then CtSuccesses (snd c) else CtLimit.
Definition aimd_decode (c : Z * Z) : ct_call :=
  if fst c =? 0 then CtLatency (snd c) else if fst c =? 1 then CtFailure else CtLimit.
Definition vg_decode (c : Z * Z) : vg_call :=
  if fst c =? 0 then VgSuccess (snd c) else if fst c =? 1 then VgFailure else VgLimit.

Definition sev_decode (t : Z * Z * Z) : sev :=
  match t with
  | (op, a, b) =>
      if op =? 1 then EReady
      else if op =? 2 then ECall (Z.to_nat a)
      else if op =? 3 then EPoll (Z.to_nat a)
      else if op =? 4 then EComplete (Z.to_nat a) b
      else if op =? 5 then EDrop (Z.to_nat a)
      else if op =? 6 then EAdvance a
      else if op =? 7 then ESetInner a
      else if op =? 9 then EExtFail
      else if op =? 10 then EExtSucc
      else ECallPanic (Z.to_nat a)
  end.

Fixpoint sv_trace (c : acfg) (dec : Z -> Z) (thr : Z) (s : svc) (evs : list sev) : svc * list Z :=
  match evs with
  | [] => (s, [])
  | e :: t =>
      let (s', r) := sv_step c dec thr s e in
      let (s'', tr) := sv_trace c dec thr s' t in
      (s'', r :: sv_inflight s' :: sv_limit s' :: tr)
  end.

(* after the script: every future still alive is dropped, the inner service is made ready
   and a probe caller checks readiness *)
Definition sv_script (c : acfg) (dec : Z -> Z) (thr initial : Z) (evs : list sev) : list Z :=
  let (s1, tr) := sv_trace c dec thr (sv_init c initial) evs in
  let closing := map (fun p => EDrop (fst p)) (sv_live s1) ++ [ESetInner 0] in
  let s2 := fold_left (sv_st c dec thr) closing s1 in
  let (s3, r) := sv_step c dec thr s2 EReady in
  tr ++ [r; sv_inflight s3; sv_limit s3].

Definition MIN_SAMPLES : Z := 10.     (* Vegas::new: min_samples: 10, smoothing: 0.5 *)

Definition run_script (s : list Z) : list Z :=
  let kind := zn s 0 in
  let c := {| a_min := zn s 2; a_max := zn s 3; a_inc := zn s 4 |} in
  let dec := dec_q (zn s 5) (zn s 6) in
  if kind =? 4 then
    sv_script c dec (zn s 7) (zn s 1) (map sev_decode (chunk3 (skipn 8 s)))
  else
    match parse_threads (skipn 8 s) with
    | (pre, ths, sch) =>
        let sched := map (decode_entry (length ths)) sch in
        let snap := fun m : mem => [m LLim] in
        if kind =? 1 then
          run_machine (ct_prog c dec 0) snap (ct_mem c (zn s 1))
                      (map ctl_decode pre) (map (map ctl_decode) ths) sched
        else if kind =? 2 then
          run_machine (ct_prog c dec (zn s 7)) snap (ct_mem c (zn s 1))
                      (map aimd_decode pre) (map (map aimd_decode) ths) sched
        else
          let v := {| v_min := zn s 2; v_max := zn s 3; v_alpha := zn s 4; v_beta := zn s 5;
                      v_min_samples := MIN_SAMPLES |} in
          run_machine (vg_prog v smooth_half qest_q) snap (vg_mem v (zn s 1))
                      (map vg_decode pre) (map (map vg_decode) ths) sched
    end.
