(* Model of tower-resilience-ratelimiter: the three window states of src/limiter.rs
   (FixedWindowState, SlidingLogState, SlidingCounterState), SharedRateLimiter::acquire
   (the repaired loop) and the service's call future (src/lib.rs) at poll granularity.
   Executable; no proofs here.
   Time: instants in whole milliseconds (Z). Waits returned by try_acquire are exact
   rationals of milliseconds (num, den), den > 0: the sliding counter's estimate is not a
   whole number of milliseconds. The sliding counter's f64 weight/estimate arithmetic is modelled by
   exact rational/integer arithmetic. The two are not equal in general (see TRUSTED in
   gen/ratelimiter_common.py: they give the same decisions for the periods that pass the bit-exact
   emulation test counter_agrees, which is all the generators use); bucket rotation is integer
   arithmetic in the code too (fix 0566530) and [rotate] is exact for every period. *)
From TR Require Import Lib.Base.

Inductive wtype := Fixed | SlidingLog | SlidingCounter.

Record cfg := mkCfg {
  wt : wtype;
  limit : Z;          (* limit_for_period *)
  period : Z;         (* refresh_period, ms; [dur_max] = Duration::MAX *)
  timeout : Z;        (* timeout_duration, ms; [dur_max] = Duration::MAX *)
  origin : Z          (* the limiter's creation instant as std::time::Instant sees it: ms since the
                         Instant epoch (the model's clock counts from the creation, instant 0) *)
}.

(* Duration::MAX = u64::MAX s + 999_999_999 ns, rounded up to the next whole ms: larger than every
   whole-ms duration, which is all that comparisons need *)
Definition dur_max : Z := 2 ^ 64 * 1000.
(* the largest whole-ms offset from the epoch that Instant (i64 seconds + nanoseconds) can hold:
   Instant::checked_add fails beyond it *)
Definition instant_max : Z := (2 ^ 63 - 1) * 1000 + 999.

(* a wait: num/den milliseconds *)
Definition wait := (Z * Z)%type.

Inductive acq := AOk (w : option wait)   (* None = Ok(ZERO): a permit was consumed *)
               | AErr.

(* limiter state + ghost history *)
Record lim := mkLim {
  permits : Z; period_start : Z;              (* fixed *)
  rlog : list Z;                              (* sliding log: admission instants, oldest first *)
  prevc : Z; curc : Z; bucket_start : Z;      (* sliding counter *)
  (* ghosts *)
  wins : list (Z * list Z);   (* windows / buckets, newest first: (start instant, admission instants in it, newest first) *)
  adms : list Z            (* all admission instants, newest first *)
}.

Definition new_lim (c : cfg) : lim :=
  mkLim (limit c) 0 [] 0 0 0 [(0, [])] [].

Definition bump_head (now : Z) (l : list (Z * list Z)) : list (Z * list Z) :=
  match l with (s, a) :: t => (s, now :: a) :: t | [] => [] end.

(* ---- FixedWindowState::try_acquire ---- *)
Definition fixed_try (c : cfg) (now : Z) (l : lim) : lim * acq :=
  let l1 :=
    if period c <=? now - period_start l then
      mkLim (limit c) now (rlog l) (prevc l) (curc l) (bucket_start l) ((now, []) :: wins l) (adms l)
    else l in
  if 0 <? permits l1 then
    (mkLim (permits l1 - 1) (period_start l1) (rlog l1) (prevc l1) (curc l1) (bucket_start l1)
           (bump_head now (wins l1)) (now :: adms l1), AOk None)
  else
    let w := Z.max 0 (period c - (now - period_start l1)) in
    if timeout c <? w then (l1, AErr) else (l1, AOk (Some (w, 1))).

(* ---- SlidingLogState::try_acquire ---- *)
Fixpoint prune (c : cfg) (now : Z) (l : list Z) : list Z :=
  match l with
  | ts :: rest => if period c <=? now - ts then prune c now rest else l
  | [] => []
  end.

(* oldest.checked_add(window).map(|x| x.saturating_duration_since(now)): when the expiry is not
   representable as an Instant the slot never frees, wait Duration::MAX (fix 3a55d77; it used
   to be ZERO = "permit consumed") *)
Definition log_wait (c : cfg) (now oldest : Z) : Z :=
  if instant_max <? origin c + oldest + period c then dur_max
  else Z.max 0 (oldest + period c - now).

Definition log_try (c : cfg) (now : Z) (l : lim) : lim * acq :=
  let lg := prune c now (rlog l) in
  if Z.of_nat (length lg) <? limit c then
    (mkLim (permits l) (period_start l) (lg ++ [now]) (prevc l) (curc l) (bucket_start l)
           (wins l) (now :: adms l), AOk None)
  else
    let l1 := mkLim (permits l) (period_start l) lg (prevc l) (curc l) (bucket_start l)
                    (wins l) (adms l) in
    match lg with
    | oldest :: _ =>
      let w := log_wait c now oldest in
      if timeout c <? w then (l1, AErr)
      else if w =? 0 then (l1, AOk None) else (l1, AOk (Some (w, 1)))
    | [] => (l1, AOk None)      (* "should not happen if limit > 0" *)
    end.

(* ---- SlidingCounterState::try_acquire ---- *)
Definition rotate (c : cfg) (now : Z) (l : lim) : lim :=
  let e := now - bucket_start l in
  if period c <=? e then
    if 2 * period c <=? e then
      mkLim (permits l) (period_start l) (rlog l) 0 0 now ((now, []) :: wins l) (adms l)
    else
      mkLim (permits l) (period_start l) (rlog l) (curc l) 0 now ((now, []) :: wins l) (adms l)
  else l.

(* estimate_wait_time, floored at 1 ns = 1/10^6 ms; e = elapsed ms in the bucket *)
Definition one_ns : wait := (1, 1000000).
Definition counter_wait (c : cfg) (e : Z) (l : lim) : wait :=
  let P := period c in
  let p := prevc l in
  if p =? 0 then (if 0 <? P - e then (P - e, 1) else one_ns)
  else
    let m := 10 * (p + curc l - limit c) + 1 in   (* target_ratio = m / (10 p) *)
    if P * m <=? 10 * p * e then one_ns                      (* target <= current ratio: ZERO, floored *)
    else if 10 * p <=? m then (if 0 <? P - e then (P - e, 1) else one_ns)   (* target >= 1 *)
    else (P * m - 10 * p * e, 10 * p).

(* wait > timeout, for wait = num/den ms *)
Definition wait_gt (w : wait) (t : Z) : bool := t * snd w <? fst w.

(* weighted = prev*(1 - e/P) + cur < limit  <=>  prev*(P-e) + cur*P < limit*P; a zero-length
   bucket is always over: elapsed_ratio = 1, weighted = current (fix 5ffed58) *)
Definition counter_has_room (c : cfg) (l : lim) (e : Z) : bool :=
  if period c =? 0 then curc l <? limit c
  else prevc l * (period c - e) + curc l * period c <? limit c * period c.

Definition counter_try (c : cfg) (now : Z) (l0 : lim) : lim * acq :=
  let l := rotate c now l0 in
  let e := Z.min (Z.max 0 (now - bucket_start l)) (period c) in
  if counter_has_room c l e then
    (mkLim (permits l) (period_start l) (rlog l) (prevc l) (curc l + 1) (bucket_start l)
           (bump_head now (wins l)) (now :: adms l), AOk None)
  else
    let w := counter_wait c e l in
    if wait_gt w (timeout c) then (l, AErr) else (l, AOk (Some w)).

Definition try_acquire (c : cfg) (now : Z) (l : lim) : lim * acq :=
  match wt c with
  | Fixed => fixed_try c now l
  | SlidingLog => log_try c now l
  | SlidingCounter => counter_try c now l
  end.

(* ------------------------------------------------------------------------- *)
(* callers *)
Inductive outcome := OOk | OErr | OPanic.

Inductive cst :=
| Created
| Sleeping (start : Z) (until : wait)     (* waiting for a permit; deadline until = num/den ms *)
| Running                                  (* admitted, inner call in flight *)
| Done
| Dropped.

Inductive ev :=
| Poll (i : nat)
| Drop (i : nat)
| Advance (d : Z)
| Complete (i : nat) (o : outcome).

Record st := mkSt {
  now : Z;
  lm : lim;
  cs : nat -> cst;
  gate : nat -> option outcome;
  woken : nat -> bool;
  inflight : Z;
  entered : nat -> Z;          (* ghost: how many times caller i's request reached the inner service *)
  arrival : nat -> option Z    (* ghost: instant of caller i's first poll *)
}.

Definition upd {A} (f : nat -> A) (i : nat) (v : A) : nat -> A :=
  fun j => if Nat.eqb j i then v else f j.

Definition init (c : cfg) : st :=
  mkSt 0 (new_lim c) (fun _ => Created) (fun _ => None) (fun _ => false) 0 (fun _ => 0)
       (fun _ => None).

Record obs := { r : Z; started : bool }.
Definition no_obs : obs := {| r := -1; started := false |}.

(* result codes: 0 pending, 1 Ok, 2 Err(Inner), 3 RateLimited, 5 panicked, 9 nothing to poll *)
Definition poll_running (s : st) (i : nat) (st_now : bool) : st * obs :=
  match gate s i with
  | None => (s, {| r := 0; started := st_now |})
  | Some o =>
    (mkSt (now s) (lm s) (upd (cs s) i Done) (gate s) (woken s) (inflight s - 1) (entered s)
          (arrival s),
     {| r := match o with OOk => 1 | OErr => 2 | OPanic => 5 end; started := st_now |})
  end.

(* one round of SharedRateLimiter::acquire's loop for caller i that arrived at [start] *)
Definition acquire_round (c : cfg) (s : st) (i : nat) (start : Z) : st * obs :=
  let '(l', a) := try_acquire c (now s) (lm s) in
  match a with
  | AOk None =>
    poll_running (mkSt (now s) l' (upd (cs s) i Running) (gate s) (woken s) (inflight s + 1)
                       (upd (entered s) i (entered s i + 1)) (arrival s)) i true
  | AOk (Some w) =>
    (* start.elapsed().saturating_add(wait) > timeout  =>  rejected (fix a8700d2: the sum saturates at
       Duration::MAX instead of panicking; with timeout = Duration::MAX nothing is ever rejected here) *)
    if wait_gt (Z.min (fst w + (now s - start) * snd w) (dur_max * snd w), snd w) (timeout c) then
      (mkSt (now s) l' (upd (cs s) i Done) (gate s) (woken s) (inflight s) (entered s) (arrival s),
       {| r := 3; started := false |})
    else
      (mkSt (now s) l' (upd (cs s) i (Sleeping start (fst w + now s * snd w, snd w)))
            (gate s) (woken s) (inflight s) (entered s) (arrival s),
       {| r := 0; started := false |})
  | AErr =>
    (mkSt (now s) l' (upd (cs s) i Done) (gate s) (woken s) (inflight s) (entered s) (arrival s),
     {| r := 3; started := false |})
  end.

(* deadline num/den reached at instant t (ms)? *)
Definition due (u : wait) (t : Z) : bool := fst u <=? t * snd u.

Definition poll (c : cfg) (s0 : st) (i : nat) : st * obs :=
  let s := mkSt (now s0) (lm s0) (cs s0) (gate s0) (upd (woken s0) i false) (inflight s0)
                (entered s0)
                (match cs s0 i with Created => upd (arrival s0) i (Some (now s0)) | _ => arrival s0 end) in
  match cs s i with
  | Created => acquire_round c s i (now s)
  | Sleeping start u =>
    if due u (now s) then acquire_round c s i start
    else (s, {| r := 0; started := false |})
  | Running => poll_running s i false
  | Done | Dropped => (s, {| r := 9; started := false |})
  end.

Definition drop (s : st) (i : nat) : st :=
  match cs s i with
  | Created | Sleeping _ _ =>
    mkSt (now s) (lm s) (upd (cs s) i Dropped) (gate s) (upd (woken s) i false) (inflight s)
         (entered s) (arrival s)
  | Running =>
    mkSt (now s) (lm s) (upd (cs s) i Dropped) (gate s) (upd (woken s) i false) (inflight s - 1)
         (entered s) (arrival s)
  | Done | Dropped => s
  end.

(* the sleep's timer fires at the first whole millisecond at or after its deadline *)
Definition timer_fires (s : st) (t1 : Z) (j : nat) : bool :=
  match cs s j with
  | Sleeping _ u => negb (due u (now s)) && due u t1
  | _ => false
  end.

Definition advance (s : st) (d : Z) : st :=
  let t1 := now s + Z.max 0 d in
  mkSt t1 (lm s) (cs s) (gate s) (fun j => woken s j || timer_fires s t1 j) (inflight s)
       (entered s) (arrival s).

Definition complete (s : st) (i : nat) (o : outcome) : st :=
  match gate s i with
  | Some _ => s
  | None =>
    mkSt (now s) (lm s) (cs s) (upd (gate s) i (Some o))
         (match cs s i with Running => upd (woken s) i true | _ => woken s end)
         (inflight s) (entered s) (arrival s)
  end.

Definition step (c : cfg) (s : st) (e : ev) : st * obs :=
  match e with
  | Poll i => poll c s i
  | Drop i => (drop s i, no_obs)
  | Advance d => (advance s d, no_obs)
  | Complete i o => (complete s i o, no_obs)
  end.

Definition step_st (c : cfg) (s : st) (e : ev) : st := fst (step c s e).

(* ---- script interface ----
   script = [window type (0 fixed, 1 sliding log, 2 sliding counter); limit; period ms;
             timeout ms; n + 1000 * mode; (op a b)*]   (durations: see dur_of)
     op 1 Poll a | 2 Drop a | 3 Advance a ms | 4 Complete a b (0 ok 1 err 2 panic) | 5 Call a | 6 Jump a ms
   trace = per event [r; started; in-flight; wake mask] *)
Definition outcome_of (z : Z) : outcome :=
  if z =? 0 then OOk else if z =? 1 then OErr else OPanic.

Definition ev_of (t : Z * Z * Z) : option ev :=
  let '(op, a, b) := t in
  (* Z.to_nat only where a is a caller id: the extracted code is strict and a jump may be 10^10 ms *)
  if op =? 1 then Some (Poll (Z.to_nat a)) else
  if op =? 2 then Some (Drop (Z.to_nat a)) else
  if op =? 3 then Some (Advance a) else
  if op =? 4 then Some (Complete (Z.to_nat a) (outcome_of b)) else
  if op =? 5 then Some (Advance 0) else
  if op =? 6 then Some (Advance a) else None.
  (* op 5 = the call future of caller a is created (call()) without being polled: nothing
     happens in call() for this layer, so the model treats it as a no-op.
     op 6 = the clock jumps a ms in ONE step (the driver's op 3 advances 1 ms at a time): the
     same event for the model *)

Fixpoint evs_of (l : list (Z * Z * Z)) : list ev :=
  match l with
  | [] => []
  | t :: rest => match ev_of t with Some e => e :: evs_of rest | None => evs_of rest end
  end.

Definition wake_mask (s : st) (total : nat) : Z :=
  fold_left (fun acc j => if woken s j then acc + 2 ^ Z.of_nat j else acc) (seq 0 total) 0.

Fixpoint run_evs (c : cfg) (n : nat) (s : st) (evs : list ev) : list Z :=
  match evs with
  | [] => []
  | e :: rest =>
    let '(s', o) := step c s e in
    [r o; b2z (started o); inflight s'; wake_mask s' n] ++ run_evs c n s' rest
  end.

(* durations in a script: z < 10^15: z ms; 10^15 <= z < 2*10^15: Duration::MAX;
   z >= 2*10^15: Duration::from_secs(z - 2*10^15) (seconds capped at u64::MAX) *)
Definition dur_of (z : Z) : Z :=
  if 2 * 10 ^ 15 <=? z then Z.min (z - 2 * 10 ^ 15) (2 ^ 64 - 1) * 1000
  else if 10 ^ 15 <=? z then dur_max else z.

(* the driver's virtual CLOCK_MONOTONIC starts at 10^6 s *)
Definition harness_origin : Z := 1000000000.

Definition cfg_of (sc : list Z) : cfg :=
  mkCfg (if zn sc 0 =? 0 then Fixed else if zn sc 0 =? 1 then SlidingLog else SlidingCounter)
        (zn sc 1) (dur_of (zn sc 2)) (dur_of (zn sc 3)) harness_origin.

(* zn sc 4 = n + 1000 * mode; mode (which service values the callers call through) is the driver's
   business: one limiter behind all of them *)
Definition run_script (sc : list Z) : list Z :=
  run_evs (cfg_of sc) (Z.to_nat (zn sc 4 mod 1000)) (init (cfg_of sc)) (evs_of (chunk3 (skipn 5 sc))).
