(* Model of tower-resilience-fallback: FallbackService (src/lib.rs).

   Two layers:
   * [call]: the pure reference function of (strategy, predicate, request, inner outcome,
     backup outcome) with the log of everything the layer invokes, in order: the inner
     service, the predicate, the strategy closure, the backup service;
   * [step]: the step machine the correspondence driver runs: several calls through one
     service value and its clones, futures polled by hand, inner and backup services that
     answer when the script says so (or panic), futures dropped half-way, readiness errors.
     Proof/Fallback.v shows that every completed call of the machine is [call] applied to
     that call's own request and the outcomes delivered to that call.
   No proofs here. *)
From TR Require Import Lib.Base.

Section Fallback.
  Context {Req Res Err : Type}.

  Inductive strategy :=
  | SValue (v : Res)
  | SValueFn (f : unit -> Res)
  | SFromError (f : Err -> Res)
  | SFromRequestError (f : Req -> Err -> Res)
  | SService                    (* backup service: its behaviour is the [backup] argument *)
  | SException (f : Err -> Err).

  Inductive ferr := Inner (e : Err) | FallbackFailed (e : Err).

  (* everything the layer invokes *)
  Inductive event :=
  | EInner (r : Req)              (* inner.call(req) *)
  | EPred (e : Err)               (* handle predicate *)
  | EValueFn                      (* value_fn closure *)
  | EFromError (e : Err)          (* from_error closure *)
  | EFromReqErr (r : Req) (e : Err)
  | EBackup (r : Req)             (* backup service *)
  | EException (e : Err).         (* error transformation *)

  Record result := {
    inner_calls : list Req;      (* requests forwarded to the wrapped service *)
    backup_calls : list Req;     (* requests forwarded to the backup service *)
    fn_log : list event;         (* every invocation, in order *)
    out : Res + ferr
  }.

  Definition pred_events (pred : option (Err -> bool)) (e : Err) : list event :=
    match pred with Some _ => [EPred e] | None => [] end.

  (* [inner] and [backup] are the (deterministic, per call) behaviours of the
     wrapped and backup services. *)
  Definition call (st : strategy) (pred : option (Err -> bool))
             (inner backup : Req -> Res + Err) (req : Req) : result :=
    match inner req with
    | inl r => {| inner_calls := [req]; backup_calls := []; fn_log := [EInner req]; out := inl r |}
    | inr e =>
      let handle := match pred with Some p => p e | None => true end in
      let pre := EInner req :: pred_events pred e in
      if negb handle then
        {| inner_calls := [req]; backup_calls := []; fn_log := pre; out := inr (Inner e) |}
      else
        match st with
        | SValue v => {| inner_calls := [req]; backup_calls := []; fn_log := pre; out := inl v |}
        | SValueFn f => {| inner_calls := [req]; backup_calls := []; fn_log := pre ++ [EValueFn];
                           out := inl (f tt) |}
        | SFromError f => {| inner_calls := [req]; backup_calls := []; fn_log := pre ++ [EFromError e];
                             out := inl (f e) |}
        | SFromRequestError f =>
            {| inner_calls := [req]; backup_calls := []; fn_log := pre ++ [EFromReqErr req e];
               out := inl (f req e) |}
        | SService =>
            match backup req with
            | inl r => {| inner_calls := [req]; backup_calls := [req]; fn_log := pre ++ [EBackup req];
                          out := inl r |}
            | inr be => {| inner_calls := [req]; backup_calls := [req]; fn_log := pre ++ [EBackup req];
                           out := inr (FallbackFailed be) |}
            end
        | SException f =>
            {| inner_calls := [req]; backup_calls := []; fn_log := pre ++ [EException e];
               out := inr (Inner (f e)) |}
        end
    end.

  (* ---- the step machine ---- *)
  Inductive outcome := OOk (r : Res) | OErr (e : Err) | OPanic.

  Inductive phase :=
  | PCreated                          (* call() returned a future; nothing has run *)
  | PWaitInner                        (* first poll done: inner.call(req) made, awaiting it *)
  | PInnerReady (o : outcome)         (* the inner service has answered; the future was woken *)
  | PWaitBackup                       (* backup(req_clone) made, awaiting it *)
  | PBackupReady (o : outcome)
  | PDone (r : Res + ferr)
  | PPanicked
  | PDropped.

  Record callst := {
    c_req : Req;
    c_phase : phase;
    c_inner : option outcome;         (* what the inner service answered to this call *)
    c_backup : option outcome;        (* what the backup service answered to this call *)
    c_log : list event                (* what this call invoked, in order *)
  }.

  Record mstate := {
    m_calls : list callst;
    m_events : list (nat * event);    (* global order *)
    m_ready : list ferr;              (* results of failed poll_ready()s *)
    m_flags : list Z                  (* per op: 1 = it took effect *)
  }.

  Inductive op :=
  | OpCall (req : Req)                (* poll_ready + call on the service or a clone: a new future *)
  | OpPoll (k : nat)
  | OpInnerDone (k : nat) (o : outcome)
  | OpBackupDone (k : nat) (o : outcome)
  | OpDrop (k : nat)
  | OpReadyFail (e : Err)             (* the inner service's poll_ready fails with e *)
  | OpNop.

  Definition init : mstate := {| m_calls := []; m_events := []; m_ready := []; m_flags := [] |}.

  Fixpoint upd {A} (k : nat) (f : A -> A) (l : list A) : list A :=
    match l, k with
    | [], _ => []
    | x :: t, O => f x :: t
    | x :: t, S k' => x :: upd k' f t
    end.

  Definition set_phase (p : phase) (es : list event) (c : callst) : callst :=
    {| c_req := c_req c; c_phase := p; c_inner := c_inner c; c_backup := c_backup c;
       c_log := c_log c ++ es |}.

  (* one poll of a call's future: new phase and the invocations made during this poll *)
  Definition poll_call (st : strategy) (pred : option (Err -> bool)) (c : callst) : phase * list event :=
    let req := c_req c in
    match c_phase c with
    | PCreated => (PWaitInner, [EInner req])
    | PInnerReady (OOk r) => (PDone (inl r), [])
    | PInnerReady OPanic => (PPanicked, [])
    | PInnerReady (OErr e) =>
        let handle := match pred with Some p => p e | None => true end in
        let pe := pred_events pred e in
        if negb handle then (PDone (inr (Inner e)), pe)
        else match st with
             | SValue v => (PDone (inl v), pe)
             | SValueFn f => (PDone (inl (f tt)), pe ++ [EValueFn])
             | SFromError f => (PDone (inl (f e)), pe ++ [EFromError e])
             | SFromRequestError f => (PDone (inl (f req e)), pe ++ [EFromReqErr req e])
             | SService => (PWaitBackup, pe ++ [EBackup req])
             | SException f => (PDone (inr (Inner (f e))), pe ++ [EException e])
             end
    | PBackupReady (OOk r) => (PDone (inl r), [])
    | PBackupReady (OErr be) => (PDone (inr (FallbackFailed be)), [])
    | PBackupReady OPanic => (PPanicked, [])
    | p => (p, [])
    end.

  Definition alive (c : callst) : bool :=
    match c_phase c with PDone _ | PPanicked | PDropped => false | _ => true end.

  Definition flag (b : bool) (s : mstate) : mstate :=
    {| m_calls := m_calls s; m_events := m_events s; m_ready := m_ready s;
       m_flags := m_flags s ++ [b2z b] |}.

  Definition with_calls (cs : list callst) (evs : list (nat * event)) (s : mstate) : mstate :=
    {| m_calls := cs; m_events := m_events s ++ evs; m_ready := m_ready s; m_flags := m_flags s |}.

  Definition step (st : strategy) (pred : option (Err -> bool)) (s : mstate) (o : op) : mstate :=
    match o with
    | OpCall req =>
        flag true (with_calls (m_calls s ++ [{| c_req := req; c_phase := PCreated; c_inner := None;
                                               c_backup := None; c_log := [] |}]) [] s)
    | OpPoll k =>
        match nth_error (m_calls s) k with
        | Some c =>
            if alive c then
              let (p, es) := poll_call st pred c in
              flag true (with_calls (upd k (set_phase p es) (m_calls s)) (map (fun e => (k, e)) es) s)
            else flag false s
        | None => flag false s
        end
    | OpInnerDone k o =>
        match nth_error (m_calls s) k with
        | Some c =>
            match c_phase c with
            | PWaitInner =>
                flag true (with_calls (upd k (fun c => {| c_req := c_req c; c_phase := PInnerReady o;
                                                         c_inner := Some o; c_backup := c_backup c;
                                                         c_log := c_log c |}) (m_calls s)) [] s)
            | _ => flag false s
            end
        | None => flag false s
        end
    | OpBackupDone k o =>
        match nth_error (m_calls s) k with
        | Some c =>
            match c_phase c with
            | PWaitBackup =>
                flag true (with_calls (upd k (fun c => {| c_req := c_req c; c_phase := PBackupReady o;
                                                         c_inner := c_inner c; c_backup := Some o;
                                                         c_log := c_log c |}) (m_calls s)) [] s)
            | _ => flag false s
            end
        | None => flag false s
        end
    | OpDrop k =>
        match nth_error (m_calls s) k with
        | Some c =>
            if alive c then flag true (with_calls (upd k (set_phase PDropped []) (m_calls s)) [] s)
            else flag false s
        | None => flag false s
        end
    | OpReadyFail e =>
        (* poll_ready: Err(FallbackError::Inner(e)); no predicate, no strategy, no call *)
        flag true {| m_calls := m_calls s; m_events := m_events s; m_ready := m_ready s ++ [Inner e];
                     m_flags := m_flags s |}
    | OpNop => flag false s
    end.

  Definition run_ops (st : strategy) (pred : option (Err -> bool)) (ops : list op) : mstate :=
    fold_left (step st pred) ops init.
End Fallback.

Arguments strategy : clear implicits.
Arguments ferr : clear implicits.
Arguments event : clear implicits.
Arguments result : clear implicits.
Arguments outcome : clear implicits.
Arguments phase : clear implicits.
Arguments callst : clear implicits.
Arguments mstate : clear implicits.
Arguments op : clear implicits.

(* ---- script interface (instantiation used by the correspondence check) ----
   script = [strategy; pred_mode; value; req; inner_kind; inner_val; backup_kind; backup_val]
            ++ (op, a, b)*   with op 1 CALL (a: 0 the service, 1 a long-lived clone, 2 a fresh clone;
            b = request), 2 POLL a, 3 INNER_DONE (call a, outcome b), 4 BACKUP_DONE (call a, outcome b),
            5 DROP a, 6 READY_FAIL (a handle, b error); outcome b: b mod 4 = 0 Ok (b / 4), 1 Err (b / 4),
            2,3 panic. Without ops the script is the single call of the header:
            CALL req; POLL; INNER_DONE; POLL; BACKUP_DONE; POLL.
   pred_mode mod 4 selects the predicate; the higher bits select the builder route in the harness (order of
   handle() and the strategy setter, name(), on_event(), a decoy strategy setter or a decoy handle() that is
   overridden, the convenience constructors): every route configures the same layer.
   The concrete closures below are mirrored verbatim in harness/src/bin/c17.rs.
   Responses are instantiated as FUNCTIONS OF THE INDEX OF THE CALL that produced them (Res := Z -> Z), applied
   when the trace is written: every response is a constant function except the value_fn generator's, which in
   the harness returns a different value at each invocation (value + 1 + 100 * the call being polled) — a
   generator whose result is computed once and handed out again is thereby visible. *)
Definition fe (e : Z) : Z := 1000 + 3 * e.
Definition fre (r e : Z) : Z := 2000 + 37 * r + e.
Definition fx (e : Z) : Z := 5000 + 7 * e.
Definition pred_of (m : Z) : option (Z -> bool) :=
  if m =? 0 then None else
  if m =? 1 then Some (fun e => Z.even e) else
  if m =? 2 then Some (fun _ => true) else Some (fun _ => false).

Definition strategy_of (s : list Z) : strategy Z (Z -> Z) Z :=
  let v := zn s 2 in
  match zn s 0 with
  | 0 => SValue (fun _ => v) | 1 => SValueFn (fun _ k => v + 1 + 100 * k) | 2 => SFromError (fun e _ => fe e)
  | 3 => SFromRequestError (fun r e _ => fre r e) | 4 => SService | _ => SException fx
  end.

Definition outcome_of (b : Z) : outcome (Z -> Z) Z :=
  let k := b mod 4 in
  if k =? 0 then OOk (fun _ => b / 4) else if k =? 1 then OErr (b / 4) else OPanic.

Definition op_of (t : Z * Z * Z) : op Z (Z -> Z) Z :=
  let '(o, a, b) := t in
  match o with
  | 1 => OpCall b
  | 2 => if a <? 0 then OpNop else OpPoll (Z.to_nat a)
  | 3 => if a <? 0 then OpNop else OpInnerDone (Z.to_nat a) (outcome_of b)
  | 4 => if a <? 0 then OpNop else OpBackupDone (Z.to_nat a) (outcome_of b)
  | 5 => if a <? 0 then OpNop else OpDrop (Z.to_nat a)
  | 6 => OpReadyFail b
  | _ => OpNop
  end.

Definition default_ops (s : list Z) : list (Z * Z * Z) :=
  let req := zn s 3 in
  let io := if zn s 4 =? 0 then 4 * (zn s 5 + 11 * req) else 4 * zn s 5 + 1 in
  let bo := if zn s 6 =? 0 then 4 * (zn s 7 + 13 * req) else 4 * zn s 7 + 1 in
  [(1, 0, req); (2, 0, 0); (3, 0, io); (2, 0, 0); (4, 0, bo); (2, 0, 0)].

Definition ops_of (s : list Z) : list (op Z (Z -> Z) Z) :=
  let raw := chunk3 (skipn 8 s) in
  map op_of (match raw with [] => default_ops s | _ => raw end).

Definition enc_event (ke : nat * event Z Z) : list Z :=
  let (k, e) := ke in
  Z.of_nat k ::
  match e with
  | EInner r => [0; r; 0] | EPred e => [1; e; 0] | EValueFn => [2; 0; 0] | EFromError e => [3; e; 0]
  | EFromReqErr r e => [4; r; e] | EBackup r => [5; r; 0] | EException e => [6; e; 0]
  end.

Definition enc_ferr (f : ferr Z) : list Z :=
  match f with Inner e => [1; e] | FallbackFailed e => [2; e] end.

Definition enc_call (kc : nat * callst Z (Z -> Z) Z) : list Z :=
  let (k, c) := kc in
  match c_phase c with
  | PDone (inl x) => [0; x (Z.of_nat k)]
  | PDone (inr f) => enc_ferr f
  | PPanicked => [3; 0]
  | PDropped => [4; 0]
  | _ => [5; 0]
  end.

(* trace = [n_calls; (kind, payload)*; n_ready; (kind, payload)*; n_ops; flag*; n_events; (call, kind, a, b)*]
   result kind: 0 Ok, 1 Err(Inner), 2 Err(FallbackFailed), 3 panicked, 4 dropped, 5 not finished *)
Definition run_script (s : list Z) : list Z :=
  let m := run_ops (strategy_of s) (pred_of (zn s 1 mod 4)) (ops_of s) in
  [Z.of_nat (length (m_calls m))] ++ flat_map enc_call (combine (seq 0 (length (m_calls m))) (m_calls m)) ++
  [Z.of_nat (length (m_ready m))] ++ flat_map enc_ferr (m_ready m) ++
  [Z.of_nat (length (m_flags m))] ++ m_flags m ++
  [Z.of_nat (length (m_events m))] ++ flat_map enc_event (m_events m).
