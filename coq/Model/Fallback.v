(* Model of tower-resilience-fallback: FallbackService::call (src/lib.rs).
   A pure function of (strategy, predicate, request, inner outcome, backup outcome).
   No proofs here. *)
From TR Require Import Lib.Base.

Section Fallback.
  Context {Req Res Err : Type}.

  Inductive strategy :=
  | SValue (v : Res)
  | SValueFn (f : unit -> Res)
  | SFromError (f : Err -> Res)
  | SFromRequestError (f : Req -> Err -> Res)
  | SService                    (* backup service: its behaviour is the [backup] argument *)
  | SException (f : Err -> Err).

  Inductive ferr := Inner (e : Err) | FallbackFailed (e : Err).

  Record result := {
    inner_calls : list Req;      (* requests forwarded to the wrapped service *)
    backup_calls : list Req;     (* requests forwarded to the backup service *)
    out : Res + ferr
  }.

  (* [inner] and [backup] are the (deterministic, per call) behaviours of the
     wrapped and backup services. *)
  Definition call (st : strategy) (pred : option (Err -> bool))
             (inner backup : Req -> Res + Err) (req : Req) : result :=
    match inner req with
    | inl r => {| inner_calls := [req]; backup_calls := []; out := inl r |}
    | inr e =>
      let handle := match pred with Some p => p e | None => true end in
      if negb handle then
        {| inner_calls := [req]; backup_calls := []; out := inr (Inner e) |}
      else
        match st with
        | SValue v => {| inner_calls := [req]; backup_calls := []; out := inl v |}
        | SValueFn f => {| inner_calls := [req]; backup_calls := []; out := inl (f tt) |}
        | SFromError f => {| inner_calls := [req]; backup_calls := []; out := inl (f e) |}
        | SFromRequestError f =>
            {| inner_calls := [req]; backup_calls := []; out := inl (f req e) |}
        | SService =>
            match backup req with
            | inl r => {| inner_calls := [req]; backup_calls := [req]; out := inl r |}
            | inr be => {| inner_calls := [req]; backup_calls := [req];
                           out := inr (FallbackFailed be) |}
            end
        | SException f =>
            {| inner_calls := [req]; backup_calls := []; out := inr (Inner (f e)) |}
        end
    end.
End Fallback.

Arguments strategy : clear implicits.
Arguments ferr : clear implicits.
Arguments result : clear implicits.

(* ---- script interface (instantiation used by the correspondence check) ----
   script = [strategy; pred_mode; value; req; inner_kind; inner_val; backup_kind; backup_val]
   The concrete closures below are mirrored verbatim in harness/src/bin/c17.rs. *)
Definition fe (e : Z) : Z := 1000 + 3 * e.
Definition fre (r e : Z) : Z := 2000 + 37 * r + e.
Definition fx (e : Z) : Z := 5000 + 7 * e.
Definition pred_of (m : Z) : option (Z -> bool) :=
  if m =? 0 then None else
  if m =? 1 then Some (fun e => Z.even e) else
  if m =? 2 then Some (fun _ => true) else Some (fun _ => false).

Definition run_script (s : list Z) : list Z :=
  let v := zn s 2 in
  let st : strategy Z Z Z :=
    match zn s 0 with
    | 0 => SValue v | 1 => SValueFn (fun _ => v + 1) | 2 => SFromError fe
    | 3 => SFromRequestError fre | 4 => SService | _ => SException fx
    end in
  let inner (r : Z) : Z + Z :=
    if zn s 4 =? 0 then inl (zn s 5 + 11 * r) else inr (zn s 5) in
  let backup (r : Z) : Z + Z :=
    if zn s 6 =? 0 then inl (zn s 7 + 13 * r) else inr (zn s 7) in
  (* pred_mode / 4 only selects the builder call order in the harness (handle before or after the strategy) *)
  let r := call st (pred_of (zn s 1 mod 4)) inner backup (zn s 3) in
  [Z.of_nat (length (inner_calls r)); hd (-1) (inner_calls r);
   Z.of_nat (length (backup_calls r)); hd (-1) (backup_calls r)] ++
  match out r with
  | inl x => [0; x]
  | inr (Inner e) => [1; e]
  | inr (FallbackFailed e) => [2; e]
  end.
