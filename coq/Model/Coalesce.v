(* Model of tower-resilience-coalesce (src/service.rs: InFlight::{try_join, complete, cancel},
   CoalesceService::call, LeaderRegistration, CoalesceFuture::{poll, drop}) at poll granularity,
   together with the one-message tokio broadcast channel each leader owns.  Executable; no proofs here.

   What the code does:
   * call(req) (synchronously, under the map lock): key = key_extractor(req);
       key in the map  -> subscribe to the sender stored there: CoalesceFuture::Waiting{receiver}
       key not in map  -> insert a fresh broadcast sender under key, evaluate inner.call(req)
                          (the inner call starts NOW), CoalesceFuture::Leading{future, key: Some}.
                          From the insertion to the construction of that future a
                          LeaderRegistration guard is alive: if anything in between panics (the
                          role counter / debug event of features metrics / tracing, inner.call(req))
                          no future exists yet and the guard runs InFlight::cancel(key) while unwinding.
   * poll, Leading: polls the inner future; on Ready(res): clone res (for the waiters), THEN
       key.take() and InFlight::complete(key, clone) = remove the map entry of that key and send on
       the sender found there (then that sender is dropped); returns res.  A panic of the inner
       future, or of that Clone, unwinds through poll with key still Some: the future is then
       dropped, see drop.
   * poll, Waiting: receiver.try_recv(): Ok(res) -> res (try_recv clones the value held by the
       channel: that Clone may panic; the panic unwinds through this waiter's poll only);
       Empty -> wake_by_ref() and Pending (busy wait); Closed -> Err(LeaderCancelled);
       Lagged -> Err(RecvError).
   * drop, Leading with key still Some: InFlight::cancel(key) = remove the map entry of that key
       (its sender is dropped without a message: the channel closes); then the inner future is
       dropped.  drop of a finished leader or of a waiter: nothing.
   The sender of a leader lives only in the map, so "entry removed" = "channel closed
   (after the message, if one was sent)".

   One generalisation beyond the code: the field `busy` selects how a pending waiter arranges to
   be polled again.  busy = true is the code (it wakes itself at once and spins).  busy = false is
   the other discipline the property allows: the waiter's waker is registered with the channel
   and is woken when the channel receives its message or closes.  run_script (what the
   correspondence check executes) runs busy = true; the theorems hold for both values. *)
From TR Require Import Lib.Base.

Inductive outcome := OOk | OErr | OPanic.

Inductive cst :=
| Idle                      (* call() not made yet *)
| Leading (k : nat)         (* CoalesceFuture::Leading, key = Some k, inner call in flight *)
| Waiting (l : nat)         (* CoalesceFuture::Waiting on the channel created by caller l *)
| Done                      (* no future left to poll: resolved, panicked, or call() itself unwound *)
| Dropped.

(* the broadcast channel created by leader l *)
Inductive chst :=
| NoChan
| Open                      (* sender in the map, nothing sent *)
| Sent (o : outcome)        (* one message (clone of the leader's result), sender dropped *)
| Closed.                   (* sender dropped without a message *)

Inductive ev :=
| Call (i : nat) (k : nat)
| Poll (i : nat)
| Drop (i : nat)
| Complete (i : nat) (o : outcome)
| CallPanic (i : nat) (k : nat)   (* call() whose inner.call(), if it is reached, panics *)
| Arm (i : nat)                   (* the next Clone of a value produced by caller i's inner call panics *)
| CallPanicRec (i : nat) (k : nat) (* call() in which the metrics recorder (or tracing subscriber) panics *)
| Advance (d : Z).                (* d milliseconds pass *)

Record st := mkSt {
  cs : nat -> cst;
  reqs : list (nat * nat);         (* in_flight.requests: key -> owner of the sender stored there *)
  chan : nat -> chst;
  inflight : list nat;            (* callers whose inner call exists (made, not finished/dropped) *)
  gate : nat -> option outcome;   (* scripted completion of caller i's inner call *)
  woken : nat -> bool;
  polled : nat -> bool;           (* caller i's future returned Pending at least once (its waker is known) *)
  ckey : nat -> option nat;       (* ghost: the key caller i's request had at call() *)
  bomb : nat -> bool;             (* armed: the next Clone of a value from caller i's inner call panics *)
  busy : bool                     (* waiter discipline, see above; never changes *)
}.

Definition upd {A} (f : nat -> A) (i : nat) (v : A) : nat -> A :=
  fun j => if Nat.eqb j i then v else f j.

Definition remove_id (i : nat) (l : list nat) : list nat :=
  filter (fun j => negb (Nat.eqb j i)) l.

Fixpoint lookup (k : nat) (m : list (nat * nat)) : option nat :=
  match m with
  | [] => None
  | (k', l) :: t => if Nat.eqb k' k then Some l else lookup k t
  end.

Definition remove_key (k : nat) (m : list (nat * nat)) : list (nat * nat) :=
  filter (fun p => negb (Nat.eqb (fst p) k)) m.

Definition init_b (b : bool) : st :=
  {| cs := fun _ => Idle; reqs := []; chan := fun _ => NoChan; inflight := [];
     gate := fun _ => None; woken := fun _ => false; polled := fun _ => false;
     ckey := fun _ => None; bomb := fun _ => false; busy := b |}.
Definition init : st := init_b true.

(* result codes: 0 pending, 1 Ok, 2 Err(Service), 3 Err(LeaderCancelled), 4 Err(RecvError)
   (unreachable), 5 panicked (a poll, or call() itself), 9 nothing to poll; -1 no result.
   val: value carried by Ok / Err(Service): the id of the caller whose inner call produced it *)
Record obs := { r : Z; val : Z }.
Definition no_obs : obs := {| r := -1; val := -1 |}.
Definition code (o : outcome) : Z := match o with OOk => 1 | OErr => 2 | OPanic => 5 end.

(* waiters on l whose waker is registered with l's channel (busy = false only) *)
Definition wake_waiters (s : st) (l : nat) : nat -> bool :=
  fun j => match cs s j with
           | Waiting l' => if Nat.eqb l' l && polled s j then true else woken s j
           | _ => woken s j
           end.

(* InFlight::complete / InFlight::cancel: remove the entry of key k; the sender found there
   sends (Some o) or is just dropped (None) *)
Definition close_key (s : st) (k : nat) (msg : option outcome) : st :=
  match lookup k (reqs s) with
  | Some l =>
    mkSt (cs s) (remove_key k (reqs s))
         (upd (chan s) l (match msg with Some o => Sent o | None => Closed end))
         (inflight s) (gate s) (if busy s then woken s else wake_waiters s l) (polled s) (ckey s)
         (bomb s) (busy s)
  | None => s
  end.

Definition call (s : st) (i k : nat) : st :=
  match cs s i with
  | Idle =>
    match lookup k (reqs s) with
    | Some l =>
      mkSt (upd (cs s) i (Waiting l)) (reqs s) (chan s) (inflight s) (gate s) (woken s)
           (polled s) (upd (ckey s) i (Some k)) (bomb s) (busy s)
    | None =>
      mkSt (upd (cs s) i (Leading k)) ((k, i) :: reqs s) (upd (chan s) i Open)
           (inflight s ++ [i]) (gate s) (woken s) (polled s) (upd (ckey s) i (Some k))
           (bomb s) (busy s)
    end
  | _ => s
  end.

(* call() with an inner service whose call() panics when reached.  A waiter never reaches it.
   A would-be leader: try_join has inserted (k, i); inner.call unwinds; the LeaderRegistration
   guard runs cancel(k) = the entry of k is removed again, its sender dropped without a message.
   No inner call was started and no future exists. *)
Definition call_panic (s : st) (i k : nat) : st * obs :=
  match cs s i with
  | Idle =>
    match lookup k (reqs s) with
    | Some _ => (call s i k, no_obs)
    | None =>
      (mkSt (upd (cs s) i Done) (remove_key k ((k, i) :: reqs s)) (upd (chan s) i Closed)
            (inflight s) (gate s) (woken s) (polled s) (upd (ckey s) i (Some k)) (bomb s) (busy s),
       {| r := 5; val := -1 |})
    end
  | _ => (s, no_obs)
  end.

(* call() in which the role counter / debug event panics (features `metrics`, `tracing`: code of the
   installed recorder / subscriber).  It runs right after try_join in both branches.  Waiter branch:
   the freshly subscribed receiver is dropped by the unwinding; nothing else existed.  Leader
   branch: try_join has inserted (k, i) and the LeaderRegistration guard is already armed (it is
   the first statement of the branch): cancel(k), exactly as for a panicking inner.call() - which
   is not reached: no inner call is made. *)
Definition call_panic_rec (s : st) (i k : nat) : st * obs :=
  match cs s i with
  | Idle =>
    match lookup k (reqs s) with
    | Some _ =>
      (mkSt (upd (cs s) i Done) (reqs s) (chan s) (inflight s) (gate s) (woken s) (polled s)
            (upd (ckey s) i (Some k)) (bomb s) (busy s),
       {| r := 5; val := -1 |})
    | None =>
      (mkSt (upd (cs s) i Done) (remove_key k ((k, i) :: reqs s)) (upd (chan s) i Closed)
            (inflight s) (gate s) (woken s) (polled s) (upd (ckey s) i (Some k)) (bomb s) (busy s),
       {| r := 5; val := -1 |})
    end
  | _ => (s, no_obs)
  end.

Definition poll (s0 : st) (i : nat) : st * obs :=
  let s := mkSt (cs s0) (reqs s0) (chan s0) (inflight s0) (gate s0) (upd (woken s0) i false)
                (polled s0) (ckey s0) (bomb s0) (busy s0) in
  match cs s i with
  | Leading k =>
    match gate s i with
    | None =>
      (* the inner future registers the waker *)
      (mkSt (cs s) (reqs s) (chan s) (inflight s) (gate s) (woken s) (upd (polled s) i true) (ckey s)
            (bomb s) (busy s),
       {| r := 0; val := -1 |})
    | Some OPanic =>
      (* unwinds; the future is dropped with key = Some k *)
      let s1 := close_key s k None in
      (mkSt (upd (cs s1) i Done) (reqs s1) (chan s1) (remove_id i (inflight s1)) (gate s1)
            (woken s1) (polled s1) (ckey s1) (bomb s1) (busy s1),
       {| r := 5; val := -1 |})
    | Some o =>
      if bomb s i then
        (* the inner future returned; cloning its result panics (key not yet taken):
           unwinds; the future is dropped with key = Some k *)
        let s1 := close_key s k None in
        (mkSt (upd (cs s1) i Done) (reqs s1) (chan s1) (remove_id i (inflight s1)) (gate s1)
              (woken s1) (polled s1) (ckey s1) (upd (bomb s1) i false) (busy s1),
         {| r := 5; val := -1 |})
      else
        let s1 := close_key s k (Some o) in
        (mkSt (upd (cs s1) i Done) (reqs s1) (chan s1) (remove_id i (inflight s1)) (gate s1)
              (woken s1) (polled s1) (ckey s1) (bomb s1) (busy s1),
         {| r := code o; val := Z.of_nat i |})
    end
  | Waiting l =>
    match chan s l with
    | Sent o =>
      if bomb s l then
        (* try_recv clones the value in the channel; that Clone panics: this waiter only *)
        (mkSt (upd (cs s) i Done) (reqs s) (chan s) (inflight s) (gate s) (woken s) (polled s) (ckey s)
              (upd (bomb s) l false) (busy s),
         {| r := 5; val := -1 |})
      else
        (mkSt (upd (cs s) i Done) (reqs s) (chan s) (inflight s) (gate s) (woken s) (polled s) (ckey s)
              (bomb s) (busy s),
         {| r := code o; val := Z.of_nat l |})
    | Closed =>
      (mkSt (upd (cs s) i Done) (reqs s) (chan s) (inflight s) (gate s) (woken s) (polled s) (ckey s)
            (bomb s) (busy s),
       {| r := 3; val := -1 |})
    | Open | NoChan =>
      (mkSt (cs s) (reqs s) (chan s) (inflight s) (gate s)
            (if busy s then upd (woken s) i true else woken s) (upd (polled s) i true) (ckey s)
            (bomb s) (busy s),
       {| r := 0; val := -1 |})
    end
  | Idle | Done | Dropped => (s, {| r := 9; val := -1 |})
  end.

Definition drop (s0 : st) (i : nat) : st :=
  let s := mkSt (cs s0) (reqs s0) (chan s0) (inflight s0) (gate s0) (upd (woken s0) i false)
                (polled s0) (ckey s0) (bomb s0) (busy s0) in
  match cs s i with
  | Leading k =>
    let s1 := close_key s k None in
    mkSt (upd (cs s1) i Dropped) (reqs s1) (chan s1) (remove_id i (inflight s1)) (gate s1)
         (woken s1) (polled s1) (ckey s1) (bomb s1) (busy s1)
  | Waiting _ =>
    mkSt (upd (cs s) i Dropped) (reqs s) (chan s) (inflight s) (gate s) (woken s) (polled s) (ckey s)
         (bomb s) (busy s)
  | Idle | Done | Dropped => s
  end.

Definition complete (s : st) (i : nat) (o : outcome) : st :=
  match gate s i with
  | Some _ => s
  | None =>
    mkSt (cs s) (reqs s) (chan s) (inflight s) (upd (gate s) i (Some o))
         (match cs s i with
          | Leading _ => if polled s i then upd (woken s) i true else woken s
          | _ => woken s end) (polled s) (ckey s) (bomb s) (busy s)
  end.

Definition arm (s : st) (i : nat) : st :=
  mkSt (cs s) (reqs s) (chan s) (inflight s) (gate s) (woken s) (polled s) (ckey s)
       (upd (bomb s) i true) (busy s).

Definition step (s : st) (e : ev) : st * obs :=
  match e with
  | Call i k => (call s i k, no_obs)
  | Poll i => poll s i
  | Drop i => (drop s i, no_obs)
  | Complete i o => (complete s i o, no_obs)
  | CallPanic i k => call_panic s i k
  | Arm i => (arm s i, no_obs)
  | CallPanicRec i k => call_panic_rec s i k
  | Advance _ => (s, no_obs)     (* the crate has no timer: time changes nothing *)
  end.

Definition step_st (s : st) (e : ev) : st := fst (step s e).
Definition run_b (b : bool) (evs : list ev) : st := fold_left step_st evs (init_b b).
Definition run (evs : list ev) : st := run_b true evs.

(* ---- script interface ----
   script = [h; (op a b)* ]   callers 0..n-1 with n = h mod 100 (h < 0: none); h / 100 selects how the
                              driver builds and shares the service value (no effect here);
                              events on other callers are skipped
     op 1 = Poll a, 2 = Drop a, 4 = Complete a b (b: 0 ok 1 err 2 panic), 5 = Call a with key b,
     op 6 = Arm a, 7 = CallPanic a with key b, 8 = CallPanicRec a with key b,
     op 3 = Advance b (milliseconds; a is ignored but must name a caller like everywhere else)
   trace = per event [r; val; wake mask; mask of callers whose inner call is in flight;
                      mask of armed Clone panics] *)
Definition outcome_of (z : Z) : outcome :=
  if z =? 0 then OOk else if z =? 1 then OErr else OPanic.

Definition ev_of (n : nat) (t : Z * Z * Z) : option ev :=
  let '(op, a, b) := t in
  let i := Z.to_nat a in
  if negb ((0 <=? a) && (a <? Z.of_nat n)) then None else
  if op =? 1 then Some (Poll i) else
  if op =? 2 then Some (Drop i) else
  if op =? 4 then Some (Complete i (outcome_of b)) else
  if op =? 5 then Some (Call i (Z.to_nat b)) else
  if op =? 6 then Some (Arm i) else
  if op =? 7 then Some (CallPanic i (Z.to_nat b)) else
  if op =? 8 then Some (CallPanicRec i (Z.to_nat b)) else
  if op =? 3 then Some (Advance b) else None.

Fixpoint evs_of (n : nat) (l : list (Z * Z * Z)) : list ev :=
  match l with
  | [] => []
  | t :: rest => match ev_of n t with Some e => e :: evs_of n rest | None => evs_of n rest end
  end.

Definition wake_mask (s : st) (total : nat) : Z :=
  fold_left (fun acc j => if woken s j then acc + 2 ^ Z.of_nat j else acc) (seq 0 total) 0.

Definition bomb_mask (s : st) (total : nat) : Z :=
  fold_left (fun acc j => if bomb s j then acc + 2 ^ Z.of_nat j else acc) (seq 0 total) 0.

Definition flight_mask (s : st) : Z :=
  fold_left (fun acc j => acc + 2 ^ Z.of_nat j) (inflight s) 0.

Definition row (total : nat) (s' : st) (o : obs) : list Z :=
  [r o; val o; wake_mask s' total; flight_mask s'; bomb_mask s' total].

Fixpoint run_evs (total : nat) (s : st) (evs : list ev) : list Z :=
  match evs with
  | [] => []
  | e :: rest =>
    let p := step s e in
    row total (fst p) (snd p) ++ run_evs total (fst p) rest
  end.

Definition callers_of (h : Z) : nat := if h <? 0 then 0%nat else Z.to_nat (h mod 100).

Definition run_script (sc : list Z) : list Z :=
  let n := callers_of (zn sc 0) in
  run_evs n init (evs_of n (chunk3 (skipn 1 sc))).
