(* Model of tower-resilience-coalesce (src/service.rs: InFlight::{try_join, complete, cancel},
   CoalesceService::call, CoalesceFuture::{poll, drop}) at poll granularity, together with the
   one-message tokio broadcast channel each leader owns.  Executable; no proofs here.

   What the code does:
   * call(req) (synchronously, under the map lock): key = key_extractor(req);
       key in the map  -> subscribe to the sender stored there: CoalesceFuture::Waiting{receiver}
       key not in map  -> insert a fresh broadcast sender under key, evaluate inner.call(req)
                          (the inner call starts NOW), CoalesceFuture::Leading{future, key: Some}
   * poll, Leading: polls the inner future; on Ready(res): key.take(), then
       InFlight::complete(key, clone of res) = remove the map entry of that key and send on the
       sender found there (then that sender is dropped); returns res.  A panic of the inner
       future unwinds through poll with key still Some: the future is then dropped, see drop.
   * poll, Waiting: receiver.try_recv(): Ok(res) -> res; Empty -> wake_by_ref() and Pending
       (busy wait); Closed -> Err(LeaderCancelled); Lagged -> Err(RecvError).
   * drop, Leading with key still Some: InFlight::cancel(key) = remove the map entry of that key
       (its sender is dropped without a message: the channel closes); then the inner future is
       dropped.  drop of a finished leader or of a waiter: nothing.
   The sender of a leader lives only in the map, so "entry removed" = "channel closed
   (after the message, if one was sent)". *)
From TR Require Import Lib.Base.

Inductive outcome := OOk | OErr | OPanic.

Inductive cst :=
| Idle                      (* call() not made yet *)
| Leading (k : nat)         (* CoalesceFuture::Leading, key = Some k, inner call in flight *)
| Waiting (l : nat)         (* CoalesceFuture::Waiting on the channel created by caller l *)
| Done
| Dropped.

(* the broadcast channel created by leader l *)
Inductive chst :=
| NoChan
| Open                      (* sender in the map, nothing sent *)
| Sent (o : outcome)        (* one message (clone of the leader's result), sender dropped *)
| Closed.                   (* sender dropped without a message *)

Inductive ev :=
| Call (i : nat) (k : nat)
| Poll (i : nat)
| Drop (i : nat)
| Complete (i : nat) (o : outcome).

Record st := mkSt {
  cs : nat -> cst;
  reqs : list (nat * nat);         (* in_flight.requests: key -> owner of the sender stored there *)
  chan : nat -> chst;
  inflight : list nat;            (* callers whose inner call exists (made, not finished/dropped) *)
  gate : nat -> option outcome;   (* scripted completion of caller i's inner call *)
  woken : nat -> bool;
  polled : nat -> bool;           (* caller i's future has been polled (its waker is registered) *)
  ckey : nat -> option nat        (* ghost: the key caller i's request had at call() *)
}.

Definition upd {A} (f : nat -> A) (i : nat) (v : A) : nat -> A :=
  fun j => if Nat.eqb j i then v else f j.

Definition remove_id (i : nat) (l : list nat) : list nat :=
  filter (fun j => negb (Nat.eqb j i)) l.

Fixpoint lookup (k : nat) (m : list (nat * nat)) : option nat :=
  match m with
  | [] => None
  | (k', l) :: t => if Nat.eqb k' k then Some l else lookup k t
  end.

Definition remove_key (k : nat) (m : list (nat * nat)) : list (nat * nat) :=
  filter (fun p => negb (Nat.eqb (fst p) k)) m.

Definition init : st :=
  {| cs := fun _ => Idle; reqs := []; chan := fun _ => NoChan; inflight := [];
     gate := fun _ => None; woken := fun _ => false; polled := fun _ => false;
     ckey := fun _ => None |}.

(* result codes of a poll: 0 pending, 1 Ok, 2 Err(Service), 3 Err(LeaderCancelled),
   4 Err(RecvError) (unreachable), 5 panicked, 9 nothing to poll; -1 not a poll.
   val: value carried by Ok / Err(Service): the id of the caller whose inner call produced it *)
Record obs := { r : Z; val : Z }.
Definition no_obs : obs := {| r := -1; val := -1 |}.
Definition code (o : outcome) : Z := match o with OOk => 1 | OErr => 2 | OPanic => 5 end.

(* InFlight::complete / InFlight::cancel: remove the entry of key k; the sender found there
   sends (Some o) or is just dropped (None) *)
Definition close_key (s : st) (k : nat) (msg : option outcome) : st :=
  match lookup k (reqs s) with
  | Some l =>
    mkSt (cs s) (remove_key k (reqs s))
         (upd (chan s) l (match msg with Some o => Sent o | None => Closed end))
         (inflight s) (gate s) (woken s) (polled s) (ckey s)
  | None => s
  end.

Definition call (s : st) (i k : nat) : st :=
  match cs s i with
  | Idle =>
    match lookup k (reqs s) with
    | Some l =>
      mkSt (upd (cs s) i (Waiting l)) (reqs s) (chan s) (inflight s) (gate s) (woken s)
           (polled s) (upd (ckey s) i (Some k))
    | None =>
      mkSt (upd (cs s) i (Leading k)) ((k, i) :: reqs s) (upd (chan s) i Open)
           (inflight s ++ [i]) (gate s) (woken s) (polled s) (upd (ckey s) i (Some k))
    end
  | _ => s
  end.

Definition poll (s0 : st) (i : nat) : st * obs :=
  let s := mkSt (cs s0) (reqs s0) (chan s0) (inflight s0) (gate s0) (upd (woken s0) i false)
                (polled s0) (ckey s0) in
  match cs s i with
  | Leading k =>
    match gate s i with
    | None =>
      (* the inner future registers the waker *)
      (mkSt (cs s) (reqs s) (chan s) (inflight s) (gate s) (woken s) (upd (polled s) i true) (ckey s),
       {| r := 0; val := -1 |})
    | Some OPanic =>
      (* unwinds; the future is dropped with key = Some k *)
      let s1 := close_key s k None in
      (mkSt (upd (cs s1) i Done) (reqs s1) (chan s1) (remove_id i (inflight s1)) (gate s1)
            (woken s1) (polled s1) (ckey s1),
       {| r := 5; val := -1 |})
    | Some o =>
      let s1 := close_key s k (Some o) in
      (mkSt (upd (cs s1) i Done) (reqs s1) (chan s1) (remove_id i (inflight s1)) (gate s1)
            (woken s1) (polled s1) (ckey s1),
       {| r := code o; val := Z.of_nat i |})
    end
  | Waiting l =>
    match chan s l with
    | Sent o =>
      (mkSt (upd (cs s) i Done) (reqs s) (chan s) (inflight s) (gate s) (woken s) (polled s) (ckey s),
       {| r := code o; val := Z.of_nat l |})
    | Closed =>
      (mkSt (upd (cs s) i Done) (reqs s) (chan s) (inflight s) (gate s) (woken s) (polled s) (ckey s),
       {| r := 3; val := -1 |})
    | Open | NoChan =>
      (mkSt (cs s) (reqs s) (chan s) (inflight s) (gate s) (upd (woken s) i true) (polled s) (ckey s),
       {| r := 0; val := -1 |})
    end
  | Idle | Done | Dropped => (s, {| r := 9; val := -1 |})
  end.

Definition drop (s0 : st) (i : nat) : st :=
  let s := mkSt (cs s0) (reqs s0) (chan s0) (inflight s0) (gate s0) (upd (woken s0) i false)
                (polled s0) (ckey s0) in
  match cs s i with
  | Leading k =>
    let s1 := close_key s k None in
    mkSt (upd (cs s1) i Dropped) (reqs s1) (chan s1) (remove_id i (inflight s1)) (gate s1)
         (woken s1) (polled s1) (ckey s1)
  | Waiting _ =>
    mkSt (upd (cs s) i Dropped) (reqs s) (chan s) (inflight s) (gate s) (woken s) (polled s) (ckey s)
  | Idle | Done | Dropped => s
  end.

Definition complete (s : st) (i : nat) (o : outcome) : st :=
  match gate s i with
  | Some _ => s
  | None =>
    mkSt (cs s) (reqs s) (chan s) (inflight s) (upd (gate s) i (Some o))
         (match cs s i with
          | Leading _ => if polled s i then upd (woken s) i true else woken s
          | _ => woken s end) (polled s) (ckey s)
  end.

Definition step (s : st) (e : ev) : st * obs :=
  match e with
  | Call i k => (call s i k, no_obs)
  | Poll i => poll s i
  | Drop i => (drop s i, no_obs)
  | Complete i o => (complete s i o, no_obs)
  end.

Definition step_st (s : st) (e : ev) : st := fst (step s e).
Definition run (evs : list ev) : st := fold_left step_st evs init.

(* ---- script interface ----
   script = [n; (op a b)* ]   callers 0..n-1; events on other callers are skipped
     op 1 = Poll a, 2 = Drop a, 4 = Complete a b (b: 0 ok 1 err 2 panic), 5 = Call a with key b
   trace = per event [r; val; wake mask; mask of callers whose inner call is in flight] *)
Definition outcome_of (z : Z) : outcome :=
  if z =? 0 then OOk else if z =? 1 then OErr else OPanic.

Definition ev_of (n : nat) (t : Z * Z * Z) : option ev :=
  let '(op, a, b) := t in
  let i := Z.to_nat a in
  if negb ((0 <=? a) && (a <? Z.of_nat n)) then None else
  if op =? 1 then Some (Poll i) else
  if op =? 2 then Some (Drop i) else
  if op =? 4 then Some (Complete i (outcome_of b)) else
  if op =? 5 then Some (Call i (Z.to_nat b)) else None.

Fixpoint evs_of (n : nat) (l : list (Z * Z * Z)) : list ev :=
  match l with
  | [] => []
  | t :: rest => match ev_of n t with Some e => e :: evs_of n rest | None => evs_of n rest end
  end.

Definition wake_mask (s : st) (total : nat) : Z :=
  fold_left (fun acc j => if woken s j then acc + 2 ^ Z.of_nat j else acc) (seq 0 total) 0.

Definition flight_mask (s : st) : Z :=
  fold_left (fun acc j => acc + 2 ^ Z.of_nat j) (inflight s) 0.

Fixpoint run_evs (total : nat) (s : st) (evs : list ev) : list Z :=
  match evs with
  | [] => []
  | e :: rest =>
    let '(s', o) := step s e in
    [r o; val o; wake_mask s' total; flight_mask s'] ++ run_evs total s' rest
  end.

Definition run_script (sc : list Z) : list Z :=
  let n := Z.to_nat (zn sc 0) in
  run_evs n init (evs_of n (chunk3 (skipn 1 sc))).
