(* Model of crates/tower-resilience-retry/src/budget.rs (TokenBucketBudget, AimdBudget)
   and of the AimdController update functions of crates/tower-resilience-core/src/aimd.rs,
   at the granularity of single atomic operations.

   Part 1: atomic memory and a small-step machine, generic in the "program" of the shared
           object: every API method is a tiny program over Load / Store / Cas / FetchAdd
           with a per-thread program counter that carries the thread's registers.
           [step s (tid, spurious)] executes ONE atomic operation of thread [tid];
           [spurious] makes a compare_exchange_weak fail although the value matches.
   Part 2: the programs of the token bucket (as repaired: deposit = fetch_update, and as
           pinned: deposit = load; store), of the AIMD budget and the controller functions.
   Part 3: sequential specification of the token bucket (for linearizability).
   Part 4: script interface.
   No proofs here. *)
From TR Require Import Lib.Base.

(* ------------------------------------------------------------------------- *)
(* Part 1a: atomic memory. Each location is sequentially consistent by itself
   (all orderings in the code are Relaxed on single locations). *)
(* LTok: a budget's tokens; LLim: the limit of an AimdController / of Vegas; LMin, LSm, LCnt:
   Vegas' min_rtt, smoothed_rtt, sample_count; LInf, LCur: AdaptiveService's in_flight counter
   and its current_limit bookkeeping cell (Model/Adaptive.v) *)
Inductive loc := LTok | LLim | LMin | LSm | LCnt | LInf | LCur.

Definition loc_eqb (a b : loc) : bool :=
  match a, b with
  | LTok, LTok | LLim, LLim | LMin, LMin | LSm, LSm | LCnt, LCnt | LInf, LInf | LCur, LCur => true
  | _, _ => false
  end.

Definition mem := loc -> Z.
Definition mset (m : mem) (l : loc) (v : Z) : mem :=
  fun l' => if loc_eqb l l' then v else m l'.

Inductive aop :=
| OLoad (l : loc)
| OStore (l : loc) (v : Z)
| OCas (l : loc) (e n : Z)         (* compare_exchange(_weak) expected new *)
| OAdd (l : loc) (d : Z).          (* fetch_add *)

(* the names the verification hook reports: load 1, store 2, cas 3, rmw 4 *)
Definition op_code (o : aop) : Z :=
  match o with OLoad _ => 1 | OStore _ _ => 2 | OCas _ _ _ => 3 | OAdd _ _ => 4 end.

Record opres := { o_mem : mem; o_val : Z; o_ok : bool }.

(* [o_val] is the value the operation observed (load: the value; cas: Ok(prev)/Err(actual);
   fetch_add: the previous value) *)
Definition exec (m : mem) (o : aop) (sp : bool) : opres :=
  match o with
  | OLoad l => {| o_mem := m; o_val := m l; o_ok := true |}
  | OStore l v => {| o_mem := mset m l v; o_val := v; o_ok := true |}
  | OCas l e n =>
      if (m l =? e) && negb sp
      then {| o_mem := mset m l n; o_val := m l; o_ok := true |}
      else {| o_mem := m; o_val := m l; o_ok := false |}
  | OAdd l d => {| o_mem := mset m l (m l + d); o_val := m l; o_ok := true |}
  end.

Fixpoint set_nth {A : Type} (n : nat) (x : A) (l : list A) : list A :=
  match l, n with
  | [], _ => []
  | _ :: t, O => x :: t
  | a :: t, S k => a :: set_nth k x t
  end.

(* ------------------------------------------------------------------------- *)
(* Part 1b: the machine *)
Section Machine.
  Context {PC CALL : Type}.

  (* a shared object's methods: entry point, the atomic operation at a program point,
     and the continuation after it (inl next program point | inr return value) *)
  Record prog := {
    p_start : CALL -> PC;
    p_op : PC -> aop;
    p_next : PC -> Z -> bool -> PC + Z
  }.

  Record cur := { c_call : CALL; c_pc : PC; c_first : Z }.

  Record thread := {
    th_calls : list CALL;        (* calls not yet begun *)
    th_cur : option cur;         (* the call in progress *)
    th_steps : Z                 (* atomic operations performed so far *)
  }.

  (* a completed operation: who, what, the value returned to the caller, the instant of
     its first atomic step and of its response (instants = index of the schedule entry) *)
  Record orec := { r_tid : nat; r_call : CALL; r_ret : Z; r_first : Z; r_res : Z }.

  Record state := {
    st_mem : mem;
    st_thr : list thread;
    st_log : list orec;          (* completed operations, newest first *)
    st_clock : Z
  }.

  Context (P : prog).

  Definition begin_op (clock : Z) (t : thread) : option (cur * list CALL) :=
    match th_cur t with
    | Some c => Some (c, th_calls t)
    | None =>
        match th_calls t with
        | [] => None
        | k :: rest => Some ({| c_call := k; c_pc := p_start P k; c_first := clock |}, rest)
        end
    end.

  Definition tick (s : state) : state :=
    {| st_mem := st_mem s; st_thr := st_thr s; st_log := st_log s; st_clock := st_clock s + 1 |}.

  (* one schedule entry: (thread id, spurious-failure flag). Result: new state and the
     kind of atomic operation performed (0: the entry names a finished/unknown thread). *)
  Definition step1 (s : state) (e : nat * bool) : state * Z :=
    match nth_error (st_thr s) (fst e) with
    | None => (tick s, 0)
    | Some t =>
      match begin_op (st_clock s) t with
      | None => (tick s, 0)
      | Some (c, rest) =>
        let o := p_op P (c_pc c) in
        let r := exec (st_mem s) o (snd e) in
        match p_next P (c_pc c) (o_val r) (o_ok r) with
        | inl pc' =>
            ({| st_mem := o_mem r;
                st_thr := set_nth (fst e)
                            {| th_calls := rest;
                               th_cur := Some {| c_call := c_call c; c_pc := pc';
                                                 c_first := c_first c |};
                               th_steps := th_steps t + 1 |} (st_thr s);
                st_log := st_log s;
                st_clock := st_clock s + 1 |}, op_code o)
        | inr ret =>
            ({| st_mem := o_mem r;
                st_thr := set_nth (fst e)
                            {| th_calls := rest; th_cur := None;
                               th_steps := th_steps t + 1 |} (st_thr s);
                st_log := {| r_tid := fst e; r_call := c_call c; r_ret := ret;
                             r_first := c_first c; r_res := st_clock s |} :: st_log s;
                st_clock := st_clock s + 1 |}, op_code o)
        end
      end
    end.

  Definition step (s : state) (e : nat * bool) : state := fst (step1 s e).

  Definition mk_thread (cs : list CALL) : thread :=
    {| th_calls := cs; th_cur := None; th_steps := 0 |}.

  Definition init_state (m : mem) (progs : list (list CALL)) : state :=
    {| st_mem := m; st_thr := map mk_thread progs; st_log := []; st_clock := 0 |}.

  Definition th_finished (t : thread) : bool :=
    match th_cur t, th_calls t with None, [] => true | _, _ => false end.

  Definition quiescent (s : state) : Prop :=
    forall t, In t (st_thr s) -> th_cur t = None.

  (* sum over the threads of a weight of the program point they are at (0 when idle) *)
  Definition wt (w : PC -> Z) (t : thread) : Z :=
    match th_cur t with Some c => w (c_pc c) | None => 0 end.
  Fixpoint wsum (w : PC -> Z) (thr : list thread) : Z :=
    match thr with [] => 0 | t :: r => wt w t + wsum w r end.

  (* let one thread run alone until it has finished its program *)
  Fixpoint drain_thread (fuel : nat) (s : state) (tid : nat) : state :=
    match fuel with
    | O => s
    | S f =>
        match nth_error (st_thr s) tid with
        | Some t => if th_finished t then s else drain_thread f (step s (tid, false)) tid
        | None => s
        end
    end.

  Definition drain (fuel : nat) (n : nat) (s : state) : state :=
    fold_left (drain_thread fuel) (seq 0 n) s.

  (* ---- trace: per entry [operation kind; return value of the call that completed in this
     step, or -1; snapshot] ---- *)
  Fixpoint run_trace (snap : mem -> list Z) (s : state) (sched : list (nat * bool))
    : state * list Z :=
    match sched with
    | [] => (s, [])
    | e :: t =>
        let (s', c) := step1 s e in
        let done := match st_log s' with
                    | r :: _ => if r_res r =? st_clock s then r_ret r else -1
                    | [] => -1
                    end in
        let (s'', tr) := run_trace snap s' t in
        (s'', c :: done :: snap (st_mem s') ++ tr)
    end.

  Definition rets_of (tid : nat) (log : list orec) : list Z :=
    map r_ret (filter (fun r => Nat.eqb (r_tid r) tid) (rev log)).

  Fixpoint thread_traces (log : list orec) (thr : list thread) (tid : nat) : list Z :=
    match thr with
    | [] => []
    | t :: rest => th_steps t :: rets_of tid log ++ thread_traces log rest (S tid)
    end.

  (* prelude (run alone, as thread number [length progs]); then the schedule; then thread 0
     to completion, thread 1 to completion, ...
     trace = return values of the prelude calls ++ per entry [...] ++ per thread [steps;
     return values] ++ final snapshot *)
  Definition run_machine (snap : mem -> list Z) (m0 : mem) (pre : list CALL)
             (progs : list (list CALL)) (sched : list (nat * bool)) : list Z :=
    let n := length progs in
    let fuel := (16 * (1 + length pre + length (concat progs)))%nat in
    let s0 := drain_thread fuel (init_state m0 (progs ++ [pre])) n in
    let (s1, tr) := run_trace snap s0 sched in
    let s2 := drain fuel n s1 in
    rets_of n (st_log s0) ++ tr ++ thread_traces (st_log s2) (firstn n (st_thr s2)) 0
            ++ snap (st_mem s2).
End Machine.

Arguments prog : clear implicits.
Arguments cur : clear implicits.
Arguments thread : clear implicits.
Arguments orec : clear implicits.
Arguments state : clear implicits.

(* ------------------------------------------------------------------------- *)
(* Part 2: programs *)
Definition SCALE : Z := 1000.
Definition U64MAX : Z := 18446744073709551615.
Definition sat_add (a b : Z) : Z := Z.min (a + b) U64MAX.   (* u64/usize saturating_add *)
Definition sat_mul (a b : Z) : Z := Z.min (a * b) U64MAX.   (* saturating_mul *)
Definition sat_sub (a b : Z) : Z := Z.max (a - b) 0.        (* saturating_sub *)

(* ---- token bucket: tokens are scaled by 1000; [maxs] = max_tokens * 1000 ---- *)
Inductive tb_call := TbWithdraw | TbDeposit | TbBalance.

Inductive tb_pc :=
| TwLoad                 (* try_withdraw: let current = tokens.load() *)
| TwCas (cur : Z)        (* compare_exchange_weak(current, current - SCALE) *)
| TdLoad                 (* deposit: fetch_update = load ... *)
| TdCas (prev : Z)       (* ... compare_exchange_weak(prev, min(prev +sat SCALE, max)) loop *)
| TbLoad.                (* balance(): load / SCALE *)

Definition tb_start (c : tb_call) : tb_pc :=
  match c with TbWithdraw => TwLoad | TbDeposit => TdLoad | TbBalance => TbLoad end.

Definition tb_dep (maxs prev : Z) : Z := Z.min (sat_add prev SCALE) maxs.

Definition tb_op (maxs : Z) (pc : tb_pc) : aop :=
  match pc with
  | TwLoad => OLoad LTok
  | TwCas c => OCas LTok c (c - SCALE)
  | TdLoad => OLoad LTok
  | TdCas p => OCas LTok p (tb_dep maxs p)
  | TbLoad => OLoad LTok
  end.

(* return values: try_withdraw 0/1, deposit 2, balance the value *)
Definition tb_next (pc : tb_pc) (v : Z) (ok : bool) : tb_pc + Z :=
  match pc with
  | TwLoad => if v <? SCALE then inr 0 else inl (TwCas v)
  | TwCas _ => if ok then inr 1 else inl TwLoad
  | TdLoad => inl (TdCas v)
  | TdCas _ => if ok then inr 2 else inl (TdCas v)       (* Err(actual) => prev = actual *)
  | TbLoad => inr (v / SCALE)
  end.

Definition tb_prog (maxs : Z) : prog tb_pc tb_call :=
  {| p_start := tb_start; p_op := tb_op maxs; p_next := tb_next |}.

(* memory of a token bucket whose (scaled) balance is [init0] *)
Definition tb_mem0 (init0 : Z) : mem := fun l => match l with LTok => init0 | _ => 0 end.
(* the unclamped, unsaturated start used by the step-level examples: initial * 1000 *)
Definition tb_mem (initial : Z) : mem := tb_mem0 (initial * SCALE).

(* TokenBucketBudget::new(_, max_tokens, initial_tokens) (budget.rs, /repo a863e6a):
     max_tokens = (max_tokens as u64).saturating_mul(1000)
     tokens     = (initial_tokens as u64).saturating_mul(1000).min(max_tokens) *)
Definition tb_maxs (maxt : Z) : Z := sat_mul maxt SCALE.
Definition tb_init (maxt initial : Z) : Z := Z.min (sat_mul initial SCALE) (tb_maxs maxt).
Definition tb_new_prog (maxt : Z) : prog tb_pc tb_call := tb_prog (tb_maxs maxt).
Definition tb_new_mem (maxt initial : Z) : mem := tb_mem0 (tb_init maxt initial).

(* ---- the token bucket as it was on the pinned tree: deposit = load; store ---- *)
Inductive tbp_pc := PwLoad | PwCas (cur : Z) | PdLoad | PdStore (new : Z) | PbLoad.

Definition tbp_start (c : tb_call) : tbp_pc :=
  match c with TbWithdraw => PwLoad | TbDeposit => PdLoad | TbBalance => PbLoad end.
Definition tbp_op (pc : tbp_pc) : aop :=
  match pc with
  | PwLoad => OLoad LTok
  | PwCas c => OCas LTok c (c - SCALE)
  | PdLoad => OLoad LTok
  | PdStore n => OStore LTok n
  | PbLoad => OLoad LTok
  end.
Definition tbp_next (maxs : Z) (pc : tbp_pc) (v : Z) (ok : bool) : tbp_pc + Z :=
  match pc with
  | PwLoad => if v <? SCALE then inr 0 else inl (PwCas v)
  | PwCas _ => if ok then inr 1 else inl PwLoad
  | PdLoad => inl (PdStore (tb_dep maxs v))
  | PdStore _ => inr 2
  | PbLoad => inr (v / SCALE)
  end.
Definition tbp_prog (maxs : Z) : prog tbp_pc tb_call :=
  {| p_start := tbp_start; p_op := tbp_op; p_next := tbp_next maxs |}.

(* ---- AimdController (core/aimd.rs): the closures passed to fetch_update ---- *)
Record acfg := { a_min : Z; a_max : Z; a_inc : Z }.

(* usize::clamp(min, max) (panics when min > max: configurations have min <= max) *)
Definition clampz (lo hi x : Z) : Z := if x <? lo then lo else if hi <? x then hi else x.

Definition ctl_init (c : acfg) (initial : Z) : Z := clampz (a_min c) (a_max c) initial.
Definition ctl_succ (c : acfg) (cur : Z) : Z := Z.min (sat_add cur (a_inc c)) (a_max c).
Definition ctl_succs (c : acfg) (count cur : Z) : Z :=
  Z.min (sat_add cur (sat_mul (a_inc c) count)) (a_max c).
(* [dec x] stands for ((x as f64) * decrease_factor) as usize *)
Definition ctl_fail (c : acfg) (dec : Z -> Z) (cur : Z) : Z :=
  Z.max (Z.min (dec cur) (a_max c)) (a_min c).

(* the instance used by the executable scripts: factor = num/den, exact in binary64 for the
   generated (factor, limit) pairs (see gen/c08.py: checked there with IEEE doubles) *)
(* [r53 x] = (x as f64) for 0 <= x < 2^64: round to nearest, ties to even, to 53 significant
   bits. With it the instance is exact for EVERY limit when the factor is 1 (num = den: the
   value (x as f64) as usize, saturating at usize::MAX -- the reason for the upper clamp in
   record_failure) or 1/2^k (the product by a power of two is exact, the cast truncates); for
   other factors only on the small limits the generator checks with IEEE doubles. *)
Definition r53 (x : Z) : Z :=
  if x <? 2 ^ 53 then x
  else
    let p := 2 ^ (Z.log2 x - 52) in
    let q := x / p in
    let r := x mod p in
    (if (p <? 2 * r) || ((2 * r =? p) && Z.odd q) then q + 1 else q) * p.
Definition dec_q (num den x : Z) : Z :=
  if den =? 0 then 0 else Z.min ((r53 x * num) / den) U64MAX.

(* ---- AIMD budget ---- *)
Record bcfg := { b_ctl : acfg; b_amt : Z; b_w : Z }.

Inductive ab_call := AbWithdraw | AbDeposit | AbBalance | AbMax.

Inductive ab_pc :=
| AwLoad                   (* try_withdraw: current = tokens.load() *)
| AwCas (cur : Z)          (* compare_exchange_weak(current, current - withdraw_amount) *)
| AwFLoad                  (* exhausted: controller.record_failure() = fetch_update: load limit *)
| AwFCas (prev : Z)        (*   cas(prev, clamp(dec prev)) loop; then return false *)
| AdLim                    (* deposit: current_max = controller.limit() *)
| AdLoad (ceil : Z)        (* tokens.fetch_update: load *)
| AdCas (ceil prev : Z)    (*   cas(prev, min(prev +sat amount, current_max)) loop *)
| AdSLoad                  (* controller.record_success(): load limit *)
| AdSCas (prev : Z)        (*   cas(prev, min(prev +sat 1, max)) loop *)
| AbLoadTok                (* balance() *)
| AbLoadLim.               (* current_max() *)

Definition ab_start (c : ab_call) : ab_pc :=
  match c with
  | AbWithdraw => AwLoad | AbDeposit => AdLim | AbBalance => AbLoadTok | AbMax => AbLoadLim
  end.

Definition ab_dep (b : bcfg) (ceil prev : Z) : Z := Z.min (sat_add prev (b_amt b)) ceil.

Definition ab_op (b : bcfg) (dec : Z -> Z) (pc : ab_pc) : aop :=
  match pc with
  | AwLoad => OLoad LTok
  | AwCas c => OCas LTok c (c - b_w b)
  | AwFLoad => OLoad LLim
  | AwFCas p => OCas LLim p (ctl_fail (b_ctl b) dec p)
  | AdLim => OLoad LLim
  | AdLoad _ => OLoad LTok
  | AdCas ceil p => OCas LTok p (ab_dep b ceil p)
  | AdSLoad => OLoad LLim
  | AdSCas p => OCas LLim p (ctl_succ (b_ctl b) p)
  | AbLoadTok => OLoad LTok
  | AbLoadLim => OLoad LLim
  end.

Definition ab_next (b : bcfg) (pc : ab_pc) (v : Z) (ok : bool) : ab_pc + Z :=
  match pc with
  | AwLoad => if v <? b_w b then inl AwFLoad else inl (AwCas v)
  | AwCas _ => if ok then inr 1 else inl AwLoad
  | AwFLoad => inl (AwFCas v)
  | AwFCas _ => if ok then inr 0 else inl (AwFCas v)
  | AdLim => inl (AdLoad v)
  | AdLoad ceil => inl (AdCas ceil v)
  | AdCas ceil _ => if ok then inl AdSLoad else inl (AdCas ceil v)
  | AdSLoad => inl (AdSCas v)
  | AdSCas _ => if ok then inr 2 else inl (AdSCas v)
  | AbLoadTok => inr v
  | AbLoadLim => inr v
  end.

Definition ab_prog (b : bcfg) (dec : Z -> Z) : prog ab_pc ab_call :=
  {| p_start := ab_start; p_op := ab_op b dec; p_next := ab_next b |}.

(* AimdBudget::new: tokens = max_budget, controller initial = max = max_budget, min = min_budget,
   increase_by = 1 *)
Definition ab_cfg (min_budget max_budget amount w : Z) : bcfg :=
  {| b_ctl := {| a_min := min_budget; a_max := max_budget; a_inc := 1 |}; b_amt := amount; b_w := w |}.
Definition ab_mem (b : bcfg) : mem :=
  fun l => match l with
           | LTok => a_max (b_ctl b)
           | LLim => ctl_init (b_ctl b) (a_max (b_ctl b))
           | _ => 0
           end.

(* ------------------------------------------------------------------------- *)
(* Part 3: the token bucket as a sequential object: (return value, new balance) *)
Definition tb_seq (maxs : Z) (bal : Z) (c : tb_call) : Z * Z :=
  match c with
  | TbWithdraw => if bal <? SCALE then (0, bal) else (1, bal - SCALE)
  | TbDeposit => (2, tb_dep maxs bal)
  | TbBalance => (bal / SCALE, bal)
  end.

Fixpoint seq_run {C : Type} (f : Z -> C -> Z * Z) (bal : Z) (cs : list C) : list Z * Z :=
  match cs with
  | [] => ([], bal)
  | c :: t =>
      let (r, b') := f bal c in
      let (rs, bf) := seq_run f b' t in
      (r :: rs, bf)
  end.

(* the token balance of the AIMD budget as a sequential object. The ceiling a deposit is
   capped at is not part of this object: a deposit reads it in an earlier atomic step, and the
   controller may move it meanwhile, so the sequential deposit may cap at ANY ceiling within
   [min_budget, max_budget] (the composite deposit = read ceiling; add tokens; raise ceiling is
   three atomic actions by design).  [ab_seq_step b bal call ret bal'] *)
Inductive ab_seq_step (b : bcfg) : Z -> ab_call -> Z -> Z -> Prop :=
| SW0 bal : bal < b_w b -> ab_seq_step b bal AbWithdraw 0 bal
| SW1 bal : b_w b <= bal -> ab_seq_step b bal AbWithdraw 1 (bal - b_w b)
| SD bal ceil : a_min (b_ctl b) <= ceil <= a_max (b_ctl b) ->
                ab_seq_step b bal AbDeposit 2 (ab_dep b ceil bal)
| SB bal : ab_seq_step b bal AbBalance bal bal.

Inductive ab_seq_run (b : bcfg) : Z -> list (ab_call * Z) -> Z -> Prop :=
| SRnil bal : ab_seq_run b bal [] bal
| SRcons bal c r bal' t bal'' :
    ab_seq_step b bal c r bal' -> ab_seq_run b bal' t bal'' ->
    ab_seq_run b bal ((c, r) :: t) bal''.

(* operations on the token balance (current_max() only reads the controller) *)
Definition tok_op (r : orec ab_call) : bool :=
  match r_call r with AbMax => false | _ => true end.

(* counters over the log of completed operations *)
Fixpoint countz {A : Type} (p : A -> bool) (l : list A) : Z :=
  match l with [] => 0 | x :: t => b2z (p x) + countz p t end.

Definition tb_is_grant (r : orec tb_call) : bool :=
  match r_call r with TbWithdraw => r_ret r =? 1 | _ => false end.
Definition tb_is_deposit (r : orec tb_call) : bool :=
  match r_call r with TbDeposit => true | _ => false end.

Definition ab_is_grant (r : orec ab_call) : bool :=
  match r_call r with AbWithdraw => r_ret r =? 1 | _ => false end.
Definition ab_is_deposit (r : orec ab_call) : bool :=
  match r_call r with AbDeposit => true | _ => false end.
(* a deposit that has already added its tokens but is still updating the ceiling *)
Definition ab_weight (pc : ab_pc) : Z :=
  match pc with AdSLoad | AdSCas _ => 1 | _ => 0 end.

Definition tb_grants (s : state tb_pc tb_call) : Z := countz tb_is_grant (st_log s).
Definition tb_deposits (s : state tb_pc tb_call) : Z := countz tb_is_deposit (st_log s).
Definition ab_grants (s : state ab_pc ab_call) : Z := countz ab_is_grant (st_log s).
Definition ab_deposits (s : state ab_pc ab_call) : Z := countz ab_is_deposit (st_log s).
Definition ab_deposits_in_effect (s : state ab_pc ab_call) : Z := wsum ab_weight (st_thr s).

(* ------------------------------------------------------------------------- *)
(* Part 4: script interface.
   script = [kind; p0..p5; npre; (code arg)*; nthreads; {ncalls; (code arg)*}*; nsched; entry*]
   (see harness/src/bin/c08.rs) *)
Fixpoint take_pairs (n : nat) (l : list Z) : list (Z * Z) * list Z :=
  match n, l with
  | S k, a :: b :: t => let (ps, r) := take_pairs k t in ((a, b) :: ps, r)
  | _, _ => ([], l)
  end.

Fixpoint take_threads (n : nat) (l : list Z) : list (list (Z * Z)) * list Z :=
  match n, l with
  | S k, c :: t =>
      let (ps, r) := take_pairs (Z.to_nat c) t in
      let (ths, r') := take_threads k r in
      (ps :: ths, r')
  | _, _ => ([], l)
  end.

Definition parse_threads (l : list Z) : list (Z * Z) * list (list (Z * Z)) * list Z :=
  match l with
  | npre :: l1 =>
      let (pre, l2) := take_pairs (Z.to_nat npre) l1 in
      match l2 with
      | nth :: l3 =>
          let (ths, l4) := take_threads (Z.to_nat nth) l3 in
          match l4 with
          | ns :: l5 => (pre, ths, firstn (Z.to_nat ns) l5)
          | [] => (pre, ths, [])
          end
      | [] => (pre, [], [])
      end
  | [] => ([], [], [])
  end.

(* entry z: 0 <= z < 1000 thread z; z >= 1000: thread z-1000 with a spurious CAS failure
   (never generated for the correspondence run); negative: nobody *)
Definition decode_entry (n : nat) (z : Z) : nat * bool :=
  if z <? 0 then (S n, false)
  else if z <? 1000 then (Z.to_nat z, false)
  else (Z.to_nat (z - 1000), true).

Definition tb_decode (c : Z * Z) : tb_call :=
  if fst c =? 0 then TbWithdraw else if fst c =? 1 then TbDeposit else TbBalance.
Definition ab_decode (c : Z * Z) : ab_call :=
  if fst c =? 0 then AbWithdraw else if fst c =? 1 then AbDeposit
  else if fst c =? 3 then AbMax else AbBalance.
(* through Arc<dyn RetryBudget> there is no current_max(): code 3 reads the balance *)
Definition abd_decode (c : Z * Z) : ab_call :=
  if fst c =? 0 then AbWithdraw else if fst c =? 1 then AbDeposit else AbBalance.

(* kinds 0 / 1: TokenBucketBudget::new / AimdBudget::new; kinds 2 / 3: the same budgets built
   by RetryBudgetBuilder (token bucket: p2 = 1 means initial_tokens is not set and defaults to
   max_tokens) and used through Arc<dyn RetryBudget> *)
Definition run_script (s : list Z) : list Z :=
  let kind := zn s 0 in
  match parse_threads (skipn 7 s) with
  | (pre, ths, sch) =>
      let sched := map (decode_entry (length ths)) sch in
      if (kind =? 0) || (kind =? 2) then
        let maxt := zn s 1 in
        let initial := if (kind =? 2) && (zn s 3 =? 1) then maxt else zn s 2 in
        run_machine (tb_new_prog maxt) (fun m => [m LTok / SCALE; 0])
                    (tb_new_mem maxt initial) (map tb_decode pre) (map (map tb_decode) ths) sched
      else
        (* AimdBudgetBuilder::build (/repo cf1b0d8): min_budget not set (script: p0 < 0) means the
           default floor 10, or max_budget when that is lower *)
        let min_b := if (kind =? 3) && (zn s 1 <? 0) then Z.min 10 (zn s 2) else zn s 1 in
        let b := ab_cfg min_b (zn s 2) (zn s 3) (zn s 4) in
        if kind =? 3 then
          run_machine (ab_prog b (dec_q (zn s 5) (zn s 6))) (fun m => [m LTok; 0])
                      (ab_mem b) (map abd_decode pre) (map (map abd_decode) ths) sched
        else
          run_machine (ab_prog b (dec_q (zn s 5) (zn s 6))) (fun m => [m LTok; m LLim])
                      (ab_mem b) (map ab_decode pre) (map (map ab_decode) ths) sched
  end.
