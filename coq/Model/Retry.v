(* Model of tower-resilience-retry: Retry::call (src/lib.rs 249-380), RetryPolicy
   (src/policy.rs), MaxAttemptsSource (src/config.rs), TokenBucketBudget (src/budget.rs).
   Two layers sharing the transcription of the loop body ([after_outcome]):
   - [retry_run]: one request as a function of the stream of inner outcomes
     (structural recursion on fuel = max 1 max_attempts - 1);
   - [step]: the call futures of several requests sharing one budget, at poll
     granularity (Poll / Advance / Complete / MakeReady events), with ghost logs.
   Executable; no proofs here.  Time unit: nanoseconds; the timer rounds deadlines up to
   whole milliseconds and every poll has a cooperative budget (Lib/TokioTime.v). *)
From TR Require Import Lib.Base Lib.TokioTime.

Section Retry.
  Context {Res Err : Type}.

  Inductive outcome := Ok (v : Res) | Fail (e : Err).

  (* ---- budget.rs: TokenBucketBudget (tokens : AtomicU64 scaled by 1000) ---- *)
  Definition SCALE : Z := 1000.
  Definition U64MAX : Z := 18446744073709551615.
  Record bucket := mkBucket { tokens : Z; max_tokens : Z }.

  (* TokenBucketBudget::new: both sizes are scaled with saturating_mul and the initial
     balance is capped at the maximum *)
  Definition sat_scale (n : Z) : Z := Z.min (n * SCALE) U64MAX.
  Definition tb_new (max_t init_t : Z) : bucket :=
    {| tokens := Z.min (sat_scale init_t) (sat_scale max_t); max_tokens := sat_scale max_t |}.
  (* try_withdraw: load; if current < SCALE then false else CAS(current - SCALE) *)
  Definition tb_try_withdraw (b : bucket) : bool * bucket :=
    if tokens b <? SCALE then (false, b)
    else (true, {| tokens := tokens b - SCALE; max_tokens := max_tokens b |}).
  (* deposit: fetch_update(|cur| cur.saturating_add(SCALE).min(max_tokens)) *)
  Definition tb_deposit (b : bucket) : bucket :=
    {| tokens := Z.min (Z.min (tokens b + SCALE) U64MAX) (max_tokens b);
       max_tokens := max_tokens b |}.
  Definition tb_balance (b : bucket) : Z := tokens b / SCALE.

  Inductive bop := BDeposit | BWithdraw (granted : bool).

  Definition apply_op (b : bucket) (o : bop) : bucket :=
    match o with
    | BDeposit => tb_deposit b
    | BWithdraw _ => snd (tb_try_withdraw b)
    end.
  Definition apply_ops (b : option bucket) (l : list bop) : option bucket :=
    match b with Some bk => Some (fold_left apply_op l bk) | None => None end.

  (* ---- policy.rs / config.rs ---- *)
  Record cfg := { pred : option (Err -> bool);      (* retry_predicate *)
                  backoff : nat -> Z }.             (* interval_fn.next_interval(attempt), ns *)

  Definition should_retry (c : cfg) (e : Err) : bool :=
    match pred c with Some p => p e | None => true end.

  Inductive why := WOk | WRefused | WMax | WDenied | WNotReady | WFuel.
  Inductive action := AReturn (r : Res + Err) (w : why) | ARetry (delay : Z).

  (* lib.rs 265-372: what the loop does with the result of attempt number [attempt]
     (0-based).  [hb]: a budget is configured; [g]: the answer of budget.try_withdraw()
     if it is asked.  Returns the budget operations issued and the action. *)
  Definition after_outcome (c : cfg) (hb : bool) (max attempt : nat) (o : outcome) (g : bool)
    : list bop * action :=
    match o with
    | Ok v => ((if hb then [BDeposit] else []), AReturn (inl v) WOk)
    | Fail e =>
      if negb (should_retry c e) then ([], AReturn (inr e) WRefused)
      else if (max <=? attempt + 1)%nat then ([], AReturn (inr e) WMax)
      else if hb then
        (if g then ([BWithdraw true], ARetry (backoff c attempt))
         else ([BWithdraw false], AReturn (inr e) WDenied))
      else ([], ARetry (backoff c attempt))
    end.

  (* one inner call: attempt index, instant of service.call, instant its result was
     observed by the retry future, the result *)
  Record call := mkCall { c_idx : nat; c_start : Z; c_end : Z; c_out : outcome }.

  Definition out_res (o : outcome) : Res + Err :=
    match o with Ok v => inl v | Fail e => inr e end.

  (* ---- one request as a function of its outcome stream ----
     inner a  = (time until the result of attempt a is observed, the result)
     ready a  = (extra wait beyond the (rounded) end of the backoff sleep before attempt
                 a >= 1 starts — late poll, exhausted cooperative budget or pending
                 readiness; 0 under prompt polling —, readiness error if any)
     grant a  = answer of the budget to the withdrawal asked after attempt a failed *)
  Record run := mkRun { calls : list call; result : Res + Err; reason : why; ops : list bop }.

  Fixpoint go (c : cfg) (hb : bool) (max : nat) (inner : nat -> Z * outcome)
           (ready : nat -> Z * option Err) (grant : nat -> bool)
           (fuel a : nat) (t : Z) : run :=
    let tf := t + Z.max 0 (fst (inner a)) in
    let o := snd (inner a) in
    let cl := mkCall a t tf o in
    match after_outcome c hb max a o (grant a) with
    | (bo, AReturn r w) => mkRun [cl] r w bo
    | (bo, ARetry d) =>
      match fuel with
      | O => mkRun [cl] (out_res o) WFuel bo          (* unreachable: Proof/Retry.v *)
      | S f =>
        match snd (ready (S a)) with
        | Some e => mkRun [cl] (inr e) WNotReady bo
        | None =>
          let r := go c hb max inner ready grant f (S a)
                      (ceil_ms (tf + Z.max 0 d) + Z.max 0 (fst (ready (S a)))) in
          mkRun (cl :: calls r) (result r) (reason r) (bo ++ ops r)
        end
      end
    end.

  Definition retry_run (c : cfg) (hb : bool) (max : nat) (inner : nat -> Z * outcome)
             (ready : nat -> Z * option Err) (grant : nat -> bool) (t0 : Z) : run :=
    go c hb max inner ready grant (Nat.pred (Nat.max 1 max)) 0%nat t0.

  (* the answers a token bucket owned by this request alone gives: the a-th
     withdrawal (0-based) is granted iff a+1 tokens were there *)
  Definition seq_grant (b : bucket) (a : nat) : bool :=
    (Z.of_nat (S a) * SCALE <=? tokens b).

  (* ---- several requests, one budget, poll granularity ---- *)
  Inductive rdy := ROk | RErr (e : Err) | RGated.
  (* what the wrapped service does for one request: max_attempts of the request,
     k-th call: (gated?, outcome), readiness before the k-th call (k >= 1).
     A gated call waits on a tokio oneshot (completed by the Complete event): its future is
     a tokio resource and takes part in the cooperative budget; an ungated call returns at
     once without touching the runtime. *)
  Record rin := { r_max : nat; r_inner : nat -> bool * outcome; r_ready : nat -> rdy }.

  Inductive phase :=
  | PInit                        (* future created, never polled *)
  | PCalling (avail : bool)      (* service.call(req).await; result available? *)
  | PSleeping (dl : Z)           (* tokio::time::sleep(delay).await *)
  | PReadying (released : bool)  (* poll_fn(|cx| service.poll_ready(cx)).await *)
  | PDone.

  Record rst := mkRst {
    ph : phase;
    attempt : nat;
    cur_start : Z;                     (* instant of the inner call in flight *)
    log : list call;                   (* finished inner calls, newest first *)
    res : option ((Res + Err) * why)   (* what the future returned *)
  }.

  Record st := mkSt {
    now : Z;
    bud : option bucket;
    reqs : nat -> rst;
    woken : nat -> bool;
    oplog : list (nat * bop)           (* ghost: every budget operation, by request, newest first *)
  }.

  Definition upd {A} (f : nat -> A) (i : nat) (v : A) : nat -> A :=
    fun j => if Nat.eqb j i then v else f j.

  Definition init_rst : rst := mkRst PInit 0%nat 0 [] None.
  Definition init (b : option bucket) : st :=
    mkSt 0 b (fun _ => init_rst) (fun _ => false) [].

  Inductive pres := Pending | Ready (x : Res + Err) | Nothing.

  Definition is_some {A} (o : option A) : bool := match o with Some _ => true | None => false end.

  Definition start_call (inp : rin) (t : Z) (r : rst) : rst :=
    mkRst (PCalling (negb (fst (r_inner inp (attempt r))))) (attempt r) t (log r) (res r).

  (* one poll of the call future of a request: runs until it has to wait.
     [coop]: what is left of the cooperative budget of this poll.  The last component
     of the result is true when the poll ended because a tokio resource found the budget
     exhausted: the future has then woken itself (and registered nowhere else). *)
  Fixpoint drive (c : cfg) (inp : rin) (fuel coop : nat) (t : Z) (r : rst) (b : option bucket)
    : rst * option bucket * list bop * pres * bool :=
    match fuel with
    | O => (r, b, [], Pending, false)              (* unreachable: Proof/Retry.v *)
    | S f =>
      match ph r with
      | PInit => drive c inp f coop t (start_call inp t r) b
      | PCalling av =>
        let gated := fst (r_inner inp (attempt r)) in
        if gated && (coop =? 0)%nat then (r, b, [], Pending, true)
        else if negb av then (r, b, [], Pending, false)
        else
          let coop1 := if gated then Nat.pred coop else coop in
          let o := snd (r_inner inp (attempt r)) in
          let cl := mkCall (attempt r) (cur_start r) t o in
          let g := match b with Some bk => fst (tb_try_withdraw bk) | None => true end in
          match after_outcome c (is_some b) (r_max inp) (attempt r) o g with
          | (bo, AReturn x w) =>
            (mkRst PDone (attempt r) (cur_start r) (cl :: log r) (Some (x, w)),
             apply_ops b bo, bo, Ready x, false)
          | (bo, ARetry d) =>
            let '(r', b', bo', p, sw) :=
              drive c inp f coop1 t
                    (mkRst (PSleeping (ceil_ms (t + Z.max 0 d))) (attempt r) (cur_start r)
                           (cl :: log r) (res r)) (apply_ops b bo) in
            (r', b', bo ++ bo', p, sw)
          end
      | PSleeping dl =>
        match coop with
        | O => (r, b, [], Pending, true)
        | S k =>
          if dl <=? t then
            drive c inp f k t (mkRst (PReadying false) (S (attempt r)) (cur_start r) (log r) (res r)) b
          else (r, b, [], Pending, false)
        end
      | PReadying rel =>
        match r_ready inp (attempt r) with
        | ROk => drive c inp f coop t (start_call inp t r) b
        | RErr e =>
          (mkRst PDone (attempt r) (cur_start r) (log r) (Some (inr e, WNotReady)), b, [],
           Ready (inr e), false)
        | RGated => if rel then drive c inp f coop t (start_call inp t r) b
                    else (r, b, [], Pending, false)
        end
      | PDone => (r, b, [], Nothing, false)
      end
    end.

  (* between two completed sleeps a poll makes at most four micro-steps, and it completes
     at most COOP sleeps *)
  Definition poll_fuel : nat := (4 * (COOP + 2))%nat.

  Inductive ev := Poll (i : nat) | Advance (d : Z) | Complete (i : nat) | MakeReady (i : nat).

  Record obs := mkObs { o_res : pres; o_ops : list bop; o_polled : bool; o_self : bool }.
  Definition no_obs : obs := mkObs Pending [] false false.

  Definition timer_fires (s : st) (t1 : Z) (j : nat) : bool :=
    match ph (reqs s j) with
    | PSleeping dl => (now s <? dl) && (dl <=? t1)
    | _ => false
    end.

  (* [pf]: bound on the micro-steps of one poll (never reached when 4 * cp + 3 < pf:
     Proof/Retry.v); [cp]: cooperative budget of one poll.  run_script uses poll_fuel, COOP. *)
  Definition step (c : cfg) (inps : nat -> rin) (pf cp : nat) (s : st) (e : ev) : st * obs :=
    match e with
    | Poll i =>
      let '(r', b', bo, p, sw) := drive c (inps i) pf cp (now s) (reqs s i) (bud s) in
      (mkSt (now s) b' (upd (reqs s) i r') (upd (woken s) i sw)
            (rev (map (pair i) bo) ++ oplog s),
       mkObs p bo true sw)
    | Advance d =>
      let t1 := now s + Z.max 0 d in
      (mkSt t1 (bud s) (reqs s) (fun j => woken s j || timer_fires s t1 j) (oplog s), no_obs)
    | Complete i =>
      let r := reqs s i in
      match ph r with
      | PCalling false =>
        (mkSt (now s) (bud s)
              (upd (reqs s) i (mkRst (PCalling true) (attempt r) (cur_start r) (log r) (res r)))
              (upd (woken s) i true) (oplog s), no_obs)
      | _ => (s, no_obs)
      end
    | MakeReady i =>
      let r := reqs s i in
      match ph r with
      | PReadying false =>
        (mkSt (now s) (bud s)
              (upd (reqs s) i (mkRst (PReadying true) (attempt r) (cur_start r) (log r) (res r)))
              (upd (woken s) i true) (oplog s), no_obs)
      | _ => (s, no_obs)
      end
    end.

  Definition step_st (c : cfg) (inps : nat -> rin) (pf cp : nat) (s : st) (e : ev) : st :=
    fst (step c inps pf cp s e).

  (* inner calls started so far by a request, oldest first: (start, end or -1) *)
  Definition started_calls (r : rst) : list (Z * Z) :=
    map (fun cl => (c_start cl, c_end cl)) (rev' (log r)) ++
    match ph r with PCalling _ => [(cur_start r, -1)] | _ => [] end.
End Retry.

Arguments outcome : clear implicits.
Arguments cfg : clear implicits.
Arguments call : clear implicits.
Arguments run : clear implicits.
Arguments rin : clear implicits.
Arguments rst : clear implicits.
Arguments st : clear implicits.
Arguments rdy : clear implicits.
Arguments pres : clear implicits.
Arguments action : clear implicits.
Arguments obs : clear implicits.

(* ---- script interface (instantiation used by the correspondence check) ----
   script = [ma_mode; ma_fixed; pred_mode; bkind; bmax; binit; nreq; L;
             backoff_0 .. backoff_{L-1};
             nreq blocks [max_i; (okind payload gated ready) x L];
             (op a)* ]
     ma_mode even: max_attempts(ma_fixed), odd: max_attempts_fn(|r| r.max); ma_mode / 2 tells the
       harness how the requests reach the layer (0: one service per request, 1: all through one
       Retry handle, 2: through clones of one handle) — the model does not depend on it
     backoff_k: a duration (Lib/TokioTime.v ns_of: below 2^40 milliseconds, 2^40 + n = n nanoseconds)
     pred_mode mod 4 = 0: none, 1: error flag, 2: error code even, 3: never; pred_mode / 4 <> 0:
       attempts beyond L fail retryably for ever instead of behaving like the all-zero entry
     bkind odd: token bucket (max bmax, initial binit); bkind / 2: builder route, see route_backoff
     (bkind even: no budget)
     okind 0: Ok(payload), 1: Err(code payload, flag true), 2: Err(code payload, flag false)
     gated 0: the inner call returns at once, 1: when the script says Complete
     ready (before attempt k >= 1) 0: Ready(Ok), 1: Ready(Err(100000+payload, true)), 2: Pending until MakeReady
     op 1 = Poll a, 2 = Advance a ms, 3 = Complete a, 4 = MakeReady a
   Attempts beyond L behave like the all-zero entry.  Instants in the trace are milliseconds
   (all instants of a script are whole milliseconds).
   trace = per event [r; payload; wake mask; balance (-1 none); deposits; grants; denials]
           (r: -1 no poll, 0 pending, 1 Ok, 2 Err, 9 nothing to poll)
           ++ per request [number of inner calls; (start, end or -1) per call]
           ++ [0; 0]  (the driver's counters: calls on an instance not polled ready or with a
                       changed request; retries started before a withdrawal was granted) *)
Definition Zerr := (Z * bool)%type.

(* attempts beyond the table: tail = false: the all-zero entry (Ok 0, immediate, ready);
   tail = true: a retryable failure for ever (Err(code k, flag true), immediate, ready) *)
Definition entry (s : list Z) (L : nat) (tail : bool) (base : nat) (k j : nat) : Z :=
  if (k <? L)%nat then zn s (base + 1 + 4 * k + j)
  else if tail then match j with O => 1 | S O => Z.of_nat k | _ => 0 end else 0.

(* how the backoff and max_attempts reach the builder (bkind / 2):
   0 .backoff(FnInterval(table))      1 .fixed_backoff(backoff_0)   2 .exponential_backoff(backoff_0)
   3 nothing (builder default: exponential from 100 ms)
   4 RetryLayer::exponential_backoff() (3 attempts, exponential from 100 ms)
   5 RetryLayer::aggressive() (5, 50 ms)   6 RetryLayer::conservative() (2, 500 ms)
   ExponentialBackoff::new(d) = d * 2^attempt (exact in f64 for the values scripts use) *)
Definition route_backoff (s : list Z) (L : nat) (route : Z) (k : nat) : Z :=
  let d0 := if (0 <? L)%nat then ns_of (zn s 8) else 0 in
  if route =? 1 then d0 else
  if route =? 2 then d0 * 2 ^ Z.of_nat k else
  if (route =? 3) || (route =? 4) then 100 * MS * 2 ^ Z.of_nat k else
  if route =? 5 then 50 * MS * 2 ^ Z.of_nat k else
  if route =? 6 then 500 * MS * 2 ^ Z.of_nat k else
  if (k <? L)%nat then ns_of (zn s (8 + k)) else 0.

Definition route_max (route : Z) (dflt : Z) : Z :=
  if route =? 4 then 3 else if route =? 5 then 5 else if route =? 6 then 2 else dflt.

Definition outcome_of (kind p : Z) : outcome Z Zerr :=
  if kind =? 0 then Ok p else if kind =? 1 then Fail (p, true) else Fail (p, false).

Definition rin_of (s : list Z) (L : nat) (tail : bool) (route ma_mode ma_fixed : Z) (base : nat)
  : rin Z Zerr :=
  {| r_max := Z.to_nat (route_max route (if Z.even ma_mode then ma_fixed else zn s base));
     r_inner := fun k => (negb (entry s L tail base k 2 =? 0),
                          outcome_of (entry s L tail base k 0) (entry s L tail base k 1));
     r_ready := fun k =>
       let m := entry s L tail base k 3 in
       if m =? 0 then ROk else
       if m =? 1 then RErr (100000 + entry s L tail base k 1, true) else RGated |}.

Definition pred_of (m : Z) : option (Zerr -> bool) :=
  if m =? 0 then None else
  if m =? 1 then Some (fun e => snd e) else
  if m =? 2 then Some (fun e => Z.even (fst e)) else Some (fun _ => false).

Definition ev_of (n : nat) (t : Z * Z) : option ev :=
  let '(op, a) := t in
  if op =? 2 then Some (Advance (a * MS)) else
  if (0 <=? a) && (a <? Z.of_nat n) then
    let i := Z.to_nat a in
    if op =? 1 then Some (Poll i) else
    if op =? 3 then Some (Complete i) else
    if op =? 4 then Some (MakeReady i) else None
  else None.

Fixpoint evs_of (n : nat) (l : list (Z * Z)) : list ev :=
  match l with
  | [] => []
  | t :: rest => match ev_of n t with Some e => e :: evs_of n rest | None => evs_of n rest end
  end.

Definition wake_mask (s : st Z Zerr) (n : nat) : Z :=
  fold_left (fun acc j => if woken s j then acc + 2 ^ Z.of_nat j else acc) (seq 0 n) 0.

Definition count_op (f : bop -> bool) (l : list bop) : Z := Z.of_nat (length (filter f l)).

Definition obs_ints (s' : st Z Zerr) (n : nat) (o : obs Z Zerr) : list Z :=
  (if o_polled o then
     match o_res o with
     | Pending => [0; 0]
     | Ready (inl v) => [1; v]
     | Ready (inr e) => [2; fst e]
     | Nothing => [9; 0]
     end
   else [-1; 0]) ++
  [wake_mask s' n;
   match bud s' with Some b => tb_balance b | None => -1 end;
   count_op (fun x => match x with BDeposit => true | _ => false end) (o_ops o);
   count_op (fun x => match x with BWithdraw true => true | _ => false end) (o_ops o);
   count_op (fun x => match x with BWithdraw false => true | _ => false end) (o_ops o)].

Fixpoint run_evs (c : cfg Zerr) (inps : nat -> rin Z Zerr) (n : nat) (s : st Z Zerr)
         (evs : list ev) : list Z * st Z Zerr :=
  match evs with
  | [] => ([], s)
  | e :: rest =>
    let '(s', o) := step c inps poll_fuel COOP s e in
    let '(tr, sf) := run_evs c inps n s' rest in
    (obs_ints s' n o ++ tr, sf)
  end.

Definition calls_ints (r : rst Z Zerr) : list Z :=
  let l := started_calls r in
  Z.of_nat (length l) :: flat_map (fun p => [fst p / MS; if snd p <? 0 then -1 else snd p / MS]) l.

Definition run_script (s : list Z) : list Z :=
  let ma_mode := zn s 0 in
  let ma_fixed := zn s 1 in
  let n := Z.to_nat (zn s 6) in
  let L := Z.to_nat (zn s 7) in
  let route := zn s 3 / 2 in
  let tail := negb (zn s 2 / 4 =? 0) in
  let c := {| pred := pred_of (zn s 2 mod 4);
              backoff := route_backoff s L route |} in
  let b := if Z.even (zn s 3) then None else Some (tb_new (Z.max 0 (zn s 4)) (Z.max 0 (zn s 5))) in
  let blk := (1 + 4 * L)%nat in
  let inps := fun i => rin_of s L tail route ma_mode ma_fixed (8 + L + i * blk) in
  let evs := evs_of n (chunk2 (skipn (8 + L + n * blk) s)) in
  let '(tr, sf) := run_evs c inps n (init b) evs in
  tr ++ flat_map (fun i => calls_ints (reqs sf i)) (seq 0 n) ++ [0; 0].
