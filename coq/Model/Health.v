(* Model of tower-resilience-healthcheck: HealthCheckWrapper (src/wrapper.rs), the counters
   of HealthCheckedContext (src/context.rs) and SelectionStrategy::select (src/selector.rs).

   Per resource: a fold of [apply_result] over the sequence of effective check results
   (a check slower than the timeout counts as Unhealthy). The background task is simulated
   in virtual milliseconds: initial delay, tokio interval with MissedTickBehavior::Skip,
   one spawned check per resource and round, the loop waits for all checks of a round.
   Selection is a pure function of the published statuses and the round-robin cursor of the accessor
   (one cursor for get_healthy, one for get_usable).
   No proofs here. *)
From TR Require Import Lib.Base.

Inductive status := Healthy | Degraded | Unhealthy | Unknown.

Definition status_eqb (a b : status) : bool :=
  match a, b with
  | Healthy, Healthy | Degraded, Degraded | Unhealthy, Unhealthy | Unknown, Unknown => true
  | _, _ => false
  end.
Definition is_healthy (s : status) : bool := match s with Healthy => true | _ => false end.
Definition is_usable (s : status) : bool :=
  match s with Healthy | Degraded => true | _ => false end.

(* ContextState: status, consecutive_failures, consecutive_successes (u64 counters; the
   model uses unbounded Z: 2^64 checks are out of reach) *)
Record rstate := { st : status; cf : Z; cs : Z }.
Definition rinit : rstate := {| st := Unknown; cf := 0; cs := 0 |}.

(* wrapper.rs, "Update consecutive counters and status based on check result" *)
Definition apply_result (fthr sthr : Z) (r : rstate) (res : status) : rstate :=
  match res with
  | Healthy =>        (* record_success(); if consecutive_successes >= success_threshold set Healthy *)
      let n := cs r + 1 in
      {| st := if sthr <=? n then Healthy else st r; cf := 0; cs := n |}
  | Degraded =>       (* record_success(); set_status(Degraded) *)
      {| st := Degraded; cf := 0; cs := cs r + 1 |}
  | Unhealthy =>      (* record_failure(); if consecutive_failures >= failure_threshold set Unhealthy *)
      let n := cf r + 1 in
      {| st := if fthr <=? n then Unhealthy else st r; cf := n; cs := 0 |}
  | Unknown => r      (* "Don't change status on unknown": counters untouched as well *)
  end.

Definition run_results (fthr sthr : Z) (rs : list status) : rstate :=
  fold_left (apply_result fthr sthr) rs rinit.

(* what a check contributes: the checker's answer if it arrives within the timeout
   (tokio::time::timeout polls the check first, so a tie is an answer), else Unhealthy *)
Definition effective (timeout : Z) (answer : status) (delay : Z) : status :=
  if delay <=? 0 then answer else if delay <=? timeout then answer else Unhealthy.

(* ---------------- selection ---------------- *)
Inductive strategy :=
| FirstAvailable
| RoundRobin
| PreferHealthy
| Custom (f : list status -> option nat)
| Random (draw : nat).     (* crate feature "random": usable[rng.random_range(0..usable.len())]; the
                              RNG draw is a parameter (any value), it does not move the cursor *)

Fixpoint position {A} (p : A -> bool) (l : list A) : option nat :=
  match l with
  | [] => None
  | x :: t => if p x then Some O else option_map S (position p t)
  end.

Definition two64 : Z := 2 ^ 64.

(* SelectionStrategy::select on the statuses of the [available] contexts *)
Definition select (s : strategy) (statuses : list status) (cursor : Z) : option nat * Z :=
  match statuses with
  | [] => (None, cursor)
  | _ =>
    match s with
    | FirstAvailable => (position is_usable statuses, cursor)
    | RoundRobin =>
        let usable := filter (fun i => is_usable (nth i statuses Unknown)) (seq 0 (length statuses)) in
        match usable with
        | [] => (None, cursor)
        | _ =>      (* fetch_add(1, Relaxed) wraps at 2^64 *)
            (Some (nth (Z.to_nat (cursor mod Z.of_nat (length usable))) usable O),
             (cursor + 1) mod two64)
        end
    | PreferHealthy =>
        (match position is_healthy statuses with
         | Some i => Some i
         | None => position is_usable statuses
         end, cursor)
    | Custom f => (f statuses, cursor)
    | Random d =>
        let usable := filter (fun i => is_usable (nth i statuses Unknown)) (seq 0 (length statuses)) in
        match usable with
        | [] => (None, cursor)
        | _ => (Some (nth (d mod length usable) usable O), cursor)
        end
    end
  end.

(* get_with_filter: resources are identified by their index in the wrapper's context list *)
Definition available (flt : status -> bool) (rs : list rstate) : list (nat * status) :=
  filter (fun p => flt (snd p)) (combine (seq 0 (length rs)) (map st rs)).

Definition get_with_filter (flt : status -> bool) (s : strategy) (rs : list rstate) (cursor : Z)
  : option nat * Z :=
  let av := available flt rs in
  match av with
  | [] => (None, cursor)
  | _ =>
      let (sel, cursor') := select s (map snd av) cursor in
      (match sel with
       | Some i => option_map fst (nth_error av i)
       | None => None
       end, cursor')
  end.

Definition get_healthy := get_with_filter is_healthy.
Definition get_usable := get_with_filter is_usable.

(* k consecutive calls *)
Fixpoint get_many (flt : status -> bool) (s : strategy) (rs : list rstate) (cursor : Z) (k : nat)
  : list (option nat) * Z :=
  match k with
  | O => ([], cursor)
  | S k' =>
      let (r, c1) := get_with_filter flt s rs cursor in
      let (l, c2) := get_many flt s rs c1 k' in
      (r :: l, c2)
  end.

(* calls through the two accessors: one round-robin cursor per accessor (wrapper.round_robin_counter
   for get_healthy, wrapper.usable_round_robin_counter for get_usable).
   A call = (true for get_healthy / false for get_usable, the published states it sees). *)
Definition flt_of (healthy_only : bool) : status -> bool :=
  if healthy_only then is_healthy else is_usable.
Fixpoint get_calls (s : strategy) (ch cu : Z) (calls : list (bool * list rstate))
  : list (option nat) * (Z * Z) :=
  match calls with
  | [] => ([], (ch, cu))
  | (b, rs) :: t =>
      let (r, c1) := get_with_filter (flt_of b) s rs (if b then ch else cu) in
      let (l, cc) := get_calls s (if b then c1 else ch) (if b then cu else c1) t in
      (r :: l, cc)
  end.
(* statuses at rest *)
Definition get_seq (s : strategy) (rs : list rstate) (ch cu : Z) (ops : list bool) :=
  get_calls s ch cu (map (fun b => (b, rs)) ops).
(* one accessor alone, each call with the published states it sees *)
Fixpoint get_one (flt : status -> bool) (s : strategy) (cursor : Z) (rss : list (list rstate))
  : list (option nat) * Z :=
  match rss with
  | [] => ([], cursor)
  | rs :: t =>
      let (r, c1) := get_with_filter flt s rs cursor in
      let (l, c2) := get_one flt s c1 t in
      (r :: l, c2)
  end.
(* the calls of accessor b among a list of calls, and the picks they got *)
Definition sub_calls (b : bool) (calls : list (bool * list rstate)) : list (list rstate) :=
  map snd (filter (fun p => Bool.eqb (fst p) b) calls).
Definition sub_picks (b : bool) (calls : list (bool * list rstate)) (picks : list (option nat))
  : list (option nat) :=
  map snd (filter (fun p => Bool.eqb (fst (fst p)) b) (combine calls picks)).

(* ---------------- the background task in virtual time ---------------- *)
Record config := {
  fthr : Z; sthr : Z;                 (* failure / success threshold *)
  interval : Z; timeout : Z; init_delay : Z   (* ms *)
}.

(* one monitored resource: published state, the checker's remaining script (answer, delay),
   the check in flight (completion instant, effective result), bookkeeping *)
Record rsim := {
  r_state : rstate;
  r_script : list (status * Z);
  r_pending : option (Z * status);
  r_started : Z;
  r_finished : Z;
  r_hist : list status               (* ghost: effective results applied so far, oldest first *)
}.

Inductive phase :=
| PInit (until : Z)                  (* tokio::time::sleep(initial_delay) *)
| PTick (deadline : Z)               (* interval.tick().await *)
| PRound (next_deadline : Z).        (* for handle in handles { handle.await } *)

Record sim := { now : Z; rsims : list rsim; ph : phase }.

Definition finish (c : config) (r : rsim) (e : status) : rsim :=
  {| r_state := apply_result (fthr c) (sthr c) (r_state r) e;
     r_script := r_script r; r_pending := None;
     r_started := r_started r; r_finished := r_finished r + 1;
     r_hist := r_hist r ++ [e] |}.

(* checks whose answer or timeout is due complete *)
Definition complete_due (c : config) (t : Z) (r : rsim) : rsim :=
  match r_pending r with
  | Some (due, e) => if due <=? t then finish c r e else r
  | None => r
  end.

(* tokio::spawn(async { timeout(config.timeout, checker.check(..)).await ... }) *)
Definition start_check (c : config) (t : Z) (r : rsim) : rsim :=
  let '(answer, delay, rest) :=
    match r_script r with
    | [] => (Healthy, 0, [])
    | (a, d) :: tl => (a, d, tl)
    end in
  let r1 := {| r_state := r_state r; r_script := rest; r_pending := None;
               r_started := r_started r + 1; r_finished := r_finished r; r_hist := r_hist r |} in
  if delay <=? 0 then finish c r1 answer
  else {| r_state := r_state r; r_script := rest;
          r_pending := Some (t + Z.min delay (timeout c), effective (timeout c) answer delay);
          r_started := r_started r + 1; r_finished := r_finished r; r_hist := r_hist r |}.

Definition idle (r : rsim) : bool :=
  match r_pending r with None => true | Some _ => false end.

(* Interval::poll_tick with MissedTickBehavior::Skip, called at [t] for deadline [d] *)
Definition next_deadline (c : config) (d t : Z) : Z :=
  if d + 5 <? t then t + interval c - ((t - d) mod interval c) else d + interval c.

(* everything that happens at instant [now s] without time passing *)
Fixpoint settle (c : config) (fuel : nat) (s : sim) : sim :=
  match fuel with
  | O => s
  | S fuel' =>
      let rs := map (complete_due c (now s)) (rsims s) in
      match ph s with
      | PInit u =>
          if u <=? now s
          then settle c fuel' {| now := now s; rsims := rs; ph := PTick (now s) |}   (* interval(period): first tick at once *)
          else {| now := now s; rsims := rs; ph := PInit u |}
      | PTick d =>
          if d <=? now s
          then settle c fuel' {| now := now s; rsims := map (start_check c (now s)) rs;
                                 ph := PRound (next_deadline c d (now s)) |}
          else {| now := now s; rsims := rs; ph := PTick d |}
      | PRound d' =>
          if forallb idle rs
          then settle c fuel' {| now := now s; rsims := rs; ph := PTick d' |}
          else {| now := now s; rsims := rs; ph := PRound d' |}
      end
  end.

Definition fuel0 : nat := 40.

Definition tick_ms (c : config) (s : sim) : sim :=
  settle c fuel0 {| now := now s + 1; rsims := rsims s; ph := ph s |}.

Fixpoint iter_sim (f : sim -> sim) (n : nat) (s : sim) : sim :=
  match n with O => s | S n' => iter_sim f n' (f s) end.
Definition advance (c : config) (n : nat) (s : sim) : sim := iter_sim (tick_ms c) n s.

(* wrapper.start() at time 0 *)
Definition start (c : config) (scripts : list (list (status * Z))) : sim :=
  settle c fuel0
    {| now := 0;
       rsims := map (fun sc => {| r_state := rinit; r_script := sc; r_pending := None;
                                  r_started := 0; r_finished := 0; r_hist := [] |}) scripts;
       ph := PInit (init_delay c) |}.

(* ---------------- vocabulary of the statements in Props/C18.v (definitions only) ---------------- *)
Definition is_unknown (x : status) : bool := match x with Unknown => true | _ => false end.
Definition is_unhealthy (x : status) : bool := match x with Unhealthy => true | _ => false end.
(* the results that count: Unknown answers are dropped *)
Definition nonunk (rs : list status) : list status := filter (fun x => negb (is_unknown x)) rs.
(* length of the trailing run of elements satisfying p *)
Fixpoint lead (p : status -> bool) (l : list status) : nat :=
  match l with [] => O | x :: t => if p x then S (lead p t) else O end.
Definition trail (p : status -> bool) (l : list status) : nat := lead p (rev l).
(* the last n elements of l all satisfy p *)
Definition all_suffix (p : status -> bool) (n : nat) (l : list status) : Prop :=
  exists pre run, l = pre ++ run /\ length run = n /\ Forall (fun x => p x = true) run.
Definition implies_usable (flt : status -> bool) : Prop := forall s, flt s = true -> is_usable s = true.
(* how often resource i was selected *)
Definition count_sel (i : nat) (l : list (option nat)) : nat :=
  length (filter (fun o => match o with Some j => Nat.eqb j i | None => false end) l).
(* the k-th scripted answer of a checker script, and the effective result of that check *)
Definition answer_at (orig : list (status * Z)) (k : nat) : status * Z := nth k orig (Healthy, 0).
Definition eff_at (c : config) (orig : list (status * Z)) (k : nat) : status :=
  effective (timeout c) (fst (answer_at orig k)) (snd (answer_at orig k)).
(* the wrapper after start() and any sequence of waits (virtual ms) *)
Definition reach (c : config) (scripts : list (list (status * Z))) (waits : list nat) : sim :=
  fold_left (fun s n => advance c n s) waits (start c scripts).

(* The rule the property states for the status published after one more effective check result x.
   [upto] = all effective results so far, x included; [before]/[after] = published status before/after.
   Unhealthy is published iff x is a failure completing a run of failure_threshold failures, Healthy iff
   x is Healthy and completes a run of success_threshold non-failing results (runs are counted among the
   results other than Unknown); Degraded at once; Unknown changes nothing; nothing else changes. *)
Definition flip_rule (f s : Z) (upto : list status) (x before after : status) : Prop :=
  match x with
  | Unknown => after = before
  | Degraded => after = Degraded
  | Unhealthy =>
      (all_suffix is_unhealthy (Z.to_nat f) (nonunk upto) -> after = Unhealthy) /\
      (~ all_suffix is_unhealthy (Z.to_nat f) (nonunk upto) -> after = before)
  | Healthy =>
      (all_suffix is_usable (Z.to_nat s) (nonunk upto) -> after = Healthy) /\
      (~ all_suffix is_usable (Z.to_nat s) (nonunk upto) -> after = before)
  end.
(* the status published after the results rs according to that rule alone (no counters) *)
Inductive published (f s : Z) : list status -> status -> Prop :=
| pub_nil : published f s [] Unknown
| pub_snoc : forall rs x before after,
    published f s rs before -> flip_rule f s (rs ++ [x]) x before after ->
    published f s (rs ++ [x]) after.

(* The callbacks of the crate feature `tracing` (on_check_failed when a check timed out, on_health_change when
   the status changed) only observe: each is handed the state before / the result / the state after and yields
   an outcome (returned, panicked, panicked with a payload whose destructor panics - any value of O) that the
   check task contains (fix 19290c9 for on_check_failed; on_health_change runs after the status is written). *)
Definition run_observed {O} (obs : rstate -> status -> rstate -> list O) (f s : Z) (rs : list status)
  : rstate * list O :=
  fold_left (fun (acc : rstate * list O) x =>
               let r' := apply_result f s (fst acc) x in (r', snd acc ++ obs (fst acc) x r'))
            rs (rinit, []).

(* ---------------- script interface ----------------
   script = [n_res; failure_threshold; success_threshold; interval; timeout; initial_delay; strategy + 16 * route;
             R; n_ev; (status, delay)*R per resource; (op, arg)*n_ev]
   trace: op 0 (advance arg ms, observe): per resource [status; cf; cs; started; finished]
          op 1 / 2 (get_healthy / get_usable arg times): selected resource id or -1 per call *)
Definition status_of (z : Z) : status :=
  if z =? 0 then Healthy else if z =? 1 then Degraded else if z =? 2 then Unhealthy else Unknown.
Definition code (s : status) : Z :=
  match s with Healthy => 0 | Degraded => 1 | Unhealthy => 2 | Unknown => 3 end.

(* the harness's custom selectors *)
Fixpoint last_healthy (l : list status) (i : nat) (acc : option nat) : option nat :=
  match l with
  | [] => acc
  | x :: t => last_healthy t (S i) (if is_healthy x then Some i else acc)
  end.
Definition strategy_of (z : Z) : strategy :=
  if z =? 0 then FirstAvailable else if z =? 1 then RoundRobin else if z =? 2 then PreferHealthy
  else if z =? 3 then Custom (fun l => last_healthy l O None)
  else if z =? 4 then Custom (fun _ => Some 1%nat)
  else if z =? 6 then Random 0   (* the script carries no draws: gen/c18.py compare accepts any eligible pick *)
  else Custom (fun _ => None).

Definition observe (s : sim) : list Z :=
  flat_map (fun r => [code (st (r_state r)); cf (r_state r); cs (r_state r); r_started r; r_finished r])
           (rsims s).

Definition enc_sel (o : option nat) : Z :=
  match o with Some i => Z.of_nat i | None => -1 end.

Fixpoint run_events (c : config) (sg : strategy) (evs : list (Z * Z)) (s : sim) (ch cu : Z) : list Z :=
  match evs with
  | [] => []
  | (op, arg) :: t =>
      if op =? 0 then
        let s' := advance c (Z.to_nat arg) s in
        observe s' ++ run_events c sg t s' ch cu
      else if op =? 1 then
        let (l, ch') := get_many is_healthy sg (map r_state (rsims s)) ch (Z.to_nat arg) in
        map enc_sel l ++ run_events c sg t s ch' cu
      else if op =? 2 then
        let (l, cu') := get_many is_usable sg (map r_state (rsims s)) cu (Z.to_nat arg) in
        map enc_sel l ++ run_events c sg t s ch cu'
      else run_events c sg t s ch cu
  end.

Definition run_script (s : list Z) : list Z :=
  let n := Z.to_nat (zn s 0) in
  let c := {| fthr := zn s 1; sthr := zn s 2; interval := zn s 3; timeout := zn s 4;
              init_delay := zn s 5 |} in
  let r := Z.to_nat (zn s 7) in
  let n_ev := Z.to_nat (zn s 8) in
  let scripts :=
    map (fun i => map (fun k => (status_of (zn s (9 + 2 * (i * r + k))), zn s (9 + 2 * (i * r + k) + 1)))
                      (seq 0 r)) (seq 0 n) in
  let evs := map (fun j => (zn s (9 + 2 * n * r + 2 * j), zn s (9 + 2 * n * r + 2 * j + 1)))
                 (seq 0 n_ev) in
  (* zn s 6 = strategy + 16 * configuration route + 64 * callback behaviour (the route - wrapper setters, HealthCheckConfig::builder()
     + with_config, with_config then setters, setters then with_config - and whether the registered tracing
     callbacks panic must not matter) *)
  run_events c (strategy_of (zn s 6 mod 16)) evs (start c scripts) 0 0.

(* ---------------- vocabulary for trace-level statements (definitions only) ---------------- *)
(* one script event: state of the simulated wrapper and of the two cursors after it, and what it prints *)
Definition ev_step (c : config) (sg : strategy) (sc : sim * (Z * Z)) (e : Z * Z) : sim * (Z * Z) :=
  let (op, arg) := e in
  let rs := map r_state (rsims (fst sc)) in
  if op =? 0 then (advance c (Z.to_nat arg) (fst sc), snd sc)
  else if op =? 1 then
    (fst sc, (snd (get_many is_healthy sg rs (fst (snd sc)) (Z.to_nat arg)), snd (snd sc)))
  else if op =? 2 then
    (fst sc, (fst (snd sc), snd (get_many is_usable sg rs (snd (snd sc)) (Z.to_nat arg))))
  else sc.
Definition ev_out (c : config) (sg : strategy) (sc : sim * (Z * Z)) (e : Z * Z) : list Z :=
  let (op, arg) := e in
  let rs := map r_state (rsims (fst sc)) in
  if op =? 0 then observe (advance c (Z.to_nat arg) (fst sc))
  else if op =? 1 then map enc_sel (fst (get_many is_healthy sg rs (fst (snd sc)) (Z.to_nat arg)))
  else if op =? 2 then map enc_sel (fst (get_many is_usable sg rs (snd (snd sc)) (Z.to_nat arg)))
  else [].
(* the waits (op 0 arguments) of a list of events *)
Definition ev_waits (evs : list (Z * Z)) : list nat :=
  flat_map (fun e => if fst e =? 0 then [Z.to_nat (snd e)] else []) evs.
(* all accessor calls of a list of events, each with the published states it sees *)
Fixpoint ev_calls (c : config) (evs : list (Z * Z)) (s : sim) : list (bool * list rstate) :=
  match evs with
  | [] => []
  | (op, arg) :: t =>
      if op =? 0 then ev_calls c t (advance c (Z.to_nat arg) s)
      else if (op =? 1) || (op =? 2) then
        repeat (op =? 1, map r_state (rsims s)) (Z.to_nat arg) ++ ev_calls c t s
      else ev_calls c t s
  end.
