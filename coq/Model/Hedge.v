(* Model of tower-resilience-hedge (src/lib.rs: Hedge::call + execute_with_hedging,
   src/config.rs: HedgeDelay::get_delay) at poll granularity, together with the tokio
   pieces it is built from: an mpsc channel of (attempt, result), tokio::spawn'ed attempt
   tasks (run eagerly when the harness yields, i.e. right after the event that spawned or
   unblocked them), time::sleep, and a biased select!.  The inner service may apply
   back-pressure to its clones: a hedge attempt task first waits until its own clone is ready
   (scripted), and only then makes its inner call; the primary runs on the instance the caller
   polled ready; a clone's poll_ready may also fail (scripted), in which case the hedge attempt
   reports that error without making an inner call.  Executable; no proofs here.
   Time unit: milliseconds. *)
From TR Require Import Lib.Base.

Inductive outcome := OOk | OErr | OPanic.

Inductive phase :=
| Created      (* call future exists, never polled: nothing has happened yet *)
| Latency      (* inside the latency-mode loop (select! over rx.recv() and delay_fut) *)
| Drain        (* tx dropped, inside `while let Some(..) = rx.recv().await` (parallel mode, max = 1) *)
| Done
| Dropped.

Inductive delay_cfg := Fixed (d : Z) | Immediate | Dynamic (ds : list Z).

(* gated = the inner service's clones are not ready until the script says so (environment,
   not part of HedgeConfig); otherwise every clone is ready at once *)
Record cfg := { maxa : nat; dcfg : delay_cfg; gated : bool }.

(* HedgeDelay::get_delay(k), k >= 1, in ms (a Duration is never negative) *)
Definition delay (c : cfg) (k : nat) : Z :=
  match dcfg c with
  | Fixed d => Z.max 0 d
  | Immediate => 0
  | Dynamic ds => match k with O => 0 | S j => Z.max 0 (nth j ds 0) end
  end.

(* `Some(delay) if delay > ZERO || matches!(config.delay, Dynamic(_))` *)
Definition latency_mode (c : cfg) : bool :=
  match dcfg c with Fixed d => 0 <? d | Immediate => false | Dynamic _ => true end.

(* a message in the channel: (attempt, is_ok, value) *)
Definition item : Type := nat * bool * Z.

Record call := mkCall {
  ph : phase;
  t0 : Z;                     (* ghost: instant of the first poll *)
  sp : nat;                   (* attempt tasks spawned so far = hedges_spawned + 1 (0 before the first poll) *)
  errs : nat;                 (* errors_received *)
  perr : option Z;            (* primary_error *)
  dline : Z;                  (* deadline of delay_fut *)
  queue : list item;          (* contents of the mpsc channel, FIFO *)
  launch : list Z;            (* instant at which attempt task k ran for the first time, at position k *)
  waiting : list nat;         (* hedge tasks suspended in poll_fn(|cx| svc.poll_ready(cx)) *)
  rdy : nat -> bool;          (* scripted readiness of the clone used by hedge attempt k *)
  starts : list (nat * Z);    (* the n-th inner call: (attempt task that made it, instant), at position n *)
  gate : nat -> option outcome;   (* scripted completion of the n-th inner call (may precede its start) *)
  woken : bool;               (* wake flag of the call future's waker *)
  dlog : list (item * Z);     (* ghost: every message sent successfully, with its instant *)
  cons : list item;           (* ghost: messages the call future has taken out of the channel *)
  res : option (Z * Z * Z);   (* ghost: (result code, value, instant) once resolved *)
  rerr : nat -> bool;         (* scripted: poll_ready of the clone used by hedge attempt k returns Err *)
  rfl : list nat              (* ghost: hedge tasks whose clone failed readiness (no inner call), in order *)
}.

Definition init_call (c : cfg) : call :=
  mkCall Created 0 0 0 None 0 [] [] [] (fun _ => negb (gated c)) [] (fun _ => None) false [] [] None
         (fun _ => false) [].

(* value carried by the response / error of the n-th inner call of call i *)
Definition val (i n : nat) : Z := 16 * Z.of_nat i + Z.of_nat n.
(* error returned by poll_ready of the clone used by hedge attempt k of call i *)
Definition rval (i k : nat) : Z := 64 + 16 * Z.of_nat i + Z.of_nat k.

Definition is_some {A} (o : option A) : bool := match o with Some _ => true | None => false end.

(* Drain phase: every sender is gone (the future dropped its own tx; every spawned task has
   run, is not waiting for readiness any more, and has finished, by sending or by panicking) *)
Definition closed (x : call) : bool :=
  Nat.eqb (length (launch x)) (sp x) &&
  match waiting x with [] => true | _ => false end &&
  forallb (fun n => is_some (gate x n)) (seq 0 (length (starts x))).

(* attempt task k, whose inner call is the n-th one, finishes with outcome o: send (k, result)
   unless it panicked; the send fails silently when the receiver is gone *)
Definition finish (i : nat) (now : Z) (x : call) (k n : nat) (o : outcome) : call :=
  match ph x with
  | Latency | Drain =>
    match o with
    | OPanic =>
      (* no message; in the drain phase the last sender going away wakes the receiver *)
      if match ph x with Drain => closed x | _ => false end
      then mkCall (ph x) (t0 x) (sp x) (errs x) (perr x) (dline x) (queue x) (launch x) (waiting x)
                  (rdy x) (starts x) (gate x) true (dlog x) (cons x) (res x) (rerr x) (rfl x)
      else x
    | _ =>
      let m : item := (k, match o with OOk => true | _ => false end, val i n) in
      mkCall (ph x) (t0 x) (sp x) (errs x) (perr x) (dline x) (queue x ++ [m]) (launch x) (waiting x)
             (rdy x) (starts x) (gate x) true (dlog x ++ [(m, now)]) (cons x) (res x) (rerr x) (rfl x)
    end
  | _ => x
  end.

(* attempt task k makes its inner call (the next one, number = length starts) and, if the
   script has completed that call already, gets the result at once *)
Definition call_inner (i : nat) (now : Z) (x : call) (k : nat) : call :=
  let n := length (starts x) in
  let x1 := mkCall (ph x) (t0 x) (sp x) (errs x) (perr x) (dline x) (queue x) (launch x) (waiting x)
                   (rdy x) (starts x ++ [(k, now)]) (gate x) (woken x) (dlog x) (cons x) (res x) (rerr x) (rfl x) in
  match gate x n with
  | Some o => finish i now x1 k n o
  | None => x1
  end.

(* hedge attempt task k (launched, not suspended) gets Err(e) from its clone's poll_ready: it
   makes no inner call and sends (k, Err e); the send fails silently when the receiver is gone *)
Definition fail_ready (i : nat) (now : Z) (x : call) (k : nat) : call :=
  match ph x with
  | Latency | Drain =>
    let m : item := (k, false, rval i k) in
    mkCall (ph x) (t0 x) (sp x) (errs x) (perr x) (dline x) (queue x ++ [m]) (launch x) (waiting x)
           (rdy x) (starts x) (gate x) true (dlog x ++ [(m, now)]) (cons x) (res x) (rerr x) (rfl x ++ [k])
  | _ =>
    mkCall (ph x) (t0 x) (sp x) (errs x) (perr x) (dline x) (queue x) (launch x) (waiting x)
           (rdy x) (starts x) (gate x) (woken x) (dlog x) (cons x) (res x) (rerr x) (rfl x ++ [k])
  end.

(* the next attempt task (number = length launch) runs for the first time: the primary calls
   the instance that was polled ready; a hedge asks its own clone for readiness first: it gives
   up if that fails, and is suspended if the clone is not ready *)
Definition launch_task (i : nat) (now : Z) (x : call) : call :=
  let k := length (launch x) in
  if negb (Nat.eqb k 0) && rerr x k then
    fail_ready i now
      (mkCall (ph x) (t0 x) (sp x) (errs x) (perr x) (dline x) (queue x) (launch x ++ [now]) (waiting x)
              (rdy x) (starts x) (gate x) (woken x) (dlog x) (cons x) (res x) (rerr x) (rfl x)) k
  else if Nat.eqb k 0 || rdy x k then
    call_inner i now
      (mkCall (ph x) (t0 x) (sp x) (errs x) (perr x) (dline x) (queue x) (launch x ++ [now]) (waiting x)
              (rdy x) (starts x) (gate x) (woken x) (dlog x) (cons x) (res x) (rerr x) (rfl x)) k
  else
    mkCall (ph x) (t0 x) (sp x) (errs x) (perr x) (dline x) (queue x) (launch x ++ [now]) (waiting x ++ [k])
           (rdy x) (starts x) (gate x) (woken x) (dlog x) (cons x) (res x) (rerr x) (rfl x).

Fixpoint run_tasks (i : nat) (now : Z) (n : nat) (x : call) : call :=
  match n with O => x | S m => run_tasks i now m (launch_task i now x) end.

Definition mem (k : nat) (l : list nat) : bool := existsb (Nat.eqb k) l.
Definition remove_id (k : nat) (l : list nat) : list nat := filter (fun j => negb (Nat.eqb j k)) l.

(* the script makes the clone of hedge attempt k ready: a task suspended on it resumes and
   makes its inner call (whatever has become of the call future: tasks are detached) *)
Definition ready_call (i : nat) (now : Z) (x : call) (k : nat) : call :=
  if rdy x k then x else
  let x1 := mkCall (ph x) (t0 x) (sp x) (errs x) (perr x) (dline x) (queue x) (launch x)
                   (remove_id k (waiting x)) (fun j => if Nat.eqb j k then true else rdy x j)
                   (starts x) (gate x) (woken x) (dlog x) (cons x) (res x) (rerr x) (rfl x) in
  if mem k (waiting x) then call_inner i now x1 k else x1.

(* the script makes poll_ready of the clone of hedge attempt k fail from now on: a task
   suspended on it resumes and gives up; a task launched later gives up at once; a task that
   has made its inner call already never asks again *)
Definition readyerr_call (i : nat) (now : Z) (x : call) (k : nat) : call :=
  if rerr x k then x else
  let x1 := mkCall (ph x) (t0 x) (sp x) (errs x) (perr x) (dline x) (queue x) (launch x)
                   (remove_id k (waiting x)) (rdy x)
                   (starts x) (gate x) (woken x) (dlog x) (cons x) (res x)
                   (fun j => if Nat.eqb j k then true else rerr x j) (rfl x) in
  if mem k (waiting x) then fail_ready i now x1 k else x1.

(* what the receive side of one poll does with the queued messages *)
Inductive cres :=
| CDone (r v : Z) (cs rest : list item) (e : nat) (pe : option Z)
| CCont (cs : list item) (e : nat) (pe : option Z).

(* latency loop, branch `Some((attempt, result)) = rx.recv()`, repeated while messages are queued *)
Fixpoint consume_lat (mx : nat) (q cs : list item) (e : nat) (pe : option Z) : cres :=
  match q with
  | [] => CCont cs e pe
  | (k, ok, v) :: q' =>
    if ok then CDone 1 v (cs ++ [(k, ok, v)]) q' e pe
    else
      let pe' := if Nat.eqb k 0 then Some v else pe in
      let e' := S e in
      if (mx <=? e')%nat
      then CDone 3 (match pe' with Some x => x | None => v end) (cs ++ [(k, ok, v)]) q' e' pe'
      else consume_lat mx q' (cs ++ [(k, ok, v)]) e' pe'
  end.

(* final loop `while let Some((attempt, result)) = rx.recv().await` *)
Fixpoint consume_drain (q cs : list item) (e : nat) (pe : option Z) : cres :=
  match q with
  | [] => CCont cs e pe
  | (k, ok, v) :: q' =>
    if ok then CDone 1 v (cs ++ [(k, ok, v)]) q' e pe
    else consume_drain q' (cs ++ [(k, ok, v)]) e (match pe with None => Some v | Some _ => pe end)
  end.

(* latency loop, branch `_ = &mut delay_fut, if hedges_spawned + 1 < max_attempts`, repeated
   while the (re-armed) timer is already elapsed; returns (spawned, deadline) *)
Fixpoint fire (c : cfg) (now : Z) (fuel : nat) (s : nat) (dl : Z) : nat * Z :=
  match fuel with
  | O => (s, dl)
  | S f =>
    if (s <? maxa c)%nat && (dl <=? now) then
      if (S s <? maxa c)%nat then fire c now f (S s) (now + delay c (S s)) else (S s, dl)
    else (s, dl)
  end.

Definition resolve (now : Z) (x : call) (r v : Z) (cs rest : list item) (e : nat) (pe : option Z) : call :=
  mkCall Done (t0 x) (sp x) e pe (dline x) rest (launch x) (waiting x) (rdy x) (starts x) (gate x) false
         (dlog x) cs (Some (r, v, now)) (rerr x) (rfl x).

Definition poll_latency (c : cfg) (now : Z) (x : call) : call * Z * Z :=
  match consume_lat (maxa c) (queue x) (cons x) (errs x) (perr x) with
  | CDone r v cs rest e pe => (resolve now x r v cs rest e pe, r, v)
  | CCont cs e pe =>
    let '(s, dl) := fire c now (maxa c) (sp x) (dline x) in
    (mkCall Latency (t0 x) s e pe dl [] (launch x) (waiting x) (rdy x) (starts x) (gate x) false (dlog x) cs (res x) (rerr x) (rfl x), 0, 0)
  end.

Definition poll_drain (now : Z) (x : call) : call * Z * Z :=
  match consume_drain (queue x) (cons x) (errs x) (perr x) with
  | CDone r v cs rest e pe => (resolve now x r v cs rest e pe, r, v)
  | CCont cs e pe =>
    if closed x then
      match pe with
      | Some ev => (resolve now x 3 ev cs [] e pe, 3, ev)
      | None => (resolve now x 5 0 cs [] e pe, 5, 0)   (* `.expect("at least one error should exist")` *)
      end
    else (mkCall Drain (t0 x) (sp x) e pe (dline x) [] (launch x) (waiting x) (rdy x) (starts x) (gate x) false (dlog x) cs (res x) (rerr x) (rfl x), 0, 0)
  end.

(* first poll: spawn the primary, choose the mode *)
Definition begin (c : cfg) (now : Z) (x : call) : call :=
  if (1 <? maxa c)%nat then
    if latency_mode c
    then mkCall Latency now 1 0 None (now + delay c 1) (queue x) (launch x) (waiting x) (rdy x) (starts x) (gate x) false (dlog x) (cons x) (res x) (rerr x) (rfl x)
    else mkCall Drain now (maxa c) 0 None 0 (queue x) (launch x) (waiting x) (rdy x) (starts x) (gate x) false (dlog x) (cons x) (res x) (rerr x) (rfl x)
  else mkCall Drain now 1 0 None 0 (queue x) (launch x) (waiting x) (rdy x) (starts x) (gate x) false (dlog x) (cons x) (res x) (rerr x) (rfl x).

(* result codes: 0 pending, 1 Ok v, 3 Err(AllAttemptsFailed v), 5 panicked, 9 nothing to poll
   (2 would be Err(Inner), which execute_with_hedging never produces) *)
Definition poll_body (c : cfg) (now : Z) (x : call) : call * Z * Z :=
  match ph x with
  | Created =>
    let x1 := begin c now x in
    match ph x1 with Latency => poll_latency c now x1 | _ => poll_drain now x1 end
  | Latency => poll_latency c now x
  | Drain => poll_drain now x
  | Done | Dropped => (x, 9, 0)
  end.

(* one poll of the call future followed by the runtime running the tasks it spawned *)
Definition poll_call (c : cfg) (i : nat) (now : Z) (x : call) : call * Z * Z :=
  let '(x1, r, v) := poll_body c now x in
  (run_tasks i now (sp x1 - length (launch x1)) x1, r, v).

Definition drop_call (x : call) : call :=
  match ph x with
  | Created | Latency | Drain =>
    mkCall Dropped (t0 x) (sp x) (errs x) (perr x) (dline x) (queue x) (launch x) (waiting x) (rdy x)
           (starts x) (gate x) false (dlog x) (cons x) (res x) (rerr x) (rfl x)
  | Done | Dropped => x
  end.

Definition timer_fires (c : cfg) (now t1 : Z) (x : call) : bool :=
  match ph x with
  | Latency => (sp x <? maxa c)%nat && (now <? dline x) && (dline x <=? t1)
  | _ => false
  end.

Definition advance_call (c : cfg) (now t1 : Z) (x : call) : call :=
  mkCall (ph x) (t0 x) (sp x) (errs x) (perr x) (dline x) (queue x) (launch x) (waiting x) (rdy x)
         (starts x) (gate x) (woken x || timer_fires c now t1 x) (dlog x) (cons x) (res x) (rerr x) (rfl x).

Definition complete_call (i : nat) (now : Z) (x : call) (n : nat) (o : outcome) : call :=
  match gate x n with
  | Some _ => x
  | None =>
    let x1 := mkCall (ph x) (t0 x) (sp x) (errs x) (perr x) (dline x) (queue x) (launch x) (waiting x)
                     (rdy x) (starts x) (fun j => if Nat.eqb j n then Some o else gate x j) (woken x)
                     (dlog x) (cons x) (res x) (rerr x) (rfl x) in
    match nth_error (starts x) n with
    | Some (k, _) => finish i now x1 k n o
    | None => x1
    end
  end.

(* ---- the system: any number of independent hedged calls on clones of one service ---- *)
Inductive ev :=
| Poll (i : nat)
| Drop (i : nat)
| Advance (d : Z)
| Complete (i n : nat) (o : outcome)
| Ready (i k : nat)
| ReadyErr (i k : nat).

Record st := mkSt { now : Z; calls : nat -> call }.

Definition upd {A} (f : nat -> A) (i : nat) (v : A) : nat -> A :=
  fun j => if Nat.eqb j i then v else f j.

Definition init (c : cfg) : st := mkSt 0 (fun _ => init_call c).

Record obs := { r : Z; v : Z }.
Definition no_obs : obs := {| r := -1; v := 0 |}.

Definition step (c : cfg) (s : st) (e : ev) : st * obs :=
  match e with
  | Poll i =>
    let '(x, r0, v0) := poll_call c i (now s) (calls s i) in
    (mkSt (now s) (upd (calls s) i x), {| r := r0; v := v0 |})
  | Drop i => (mkSt (now s) (upd (calls s) i (drop_call (calls s i))), no_obs)
  | Advance d =>
    let t1 := now s + Z.max 0 d in
    (mkSt t1 (fun j => advance_call c (now s) t1 (calls s j)), no_obs)
  | Complete i n o => (mkSt (now s) (upd (calls s) i (complete_call i (now s) (calls s i) n o)), no_obs)
  | Ready i k => (mkSt (now s) (upd (calls s) i (ready_call i (now s) (calls s i) k)), no_obs)
  | ReadyErr i k => (mkSt (now s) (upd (calls s) i (readyerr_call i (now s) (calls s i) k)), no_obs)
  end.

Definition step_st (c : cfg) (s : st) (e : ev) : st := fst (step c s e).

(* ---- script interface ----
   script = [max; mode; ncalls; nd; d_1 .. d_nd; (op a b)* ]
     max: 0..16 as given (the builder stores n.max(1)); above 16, and only with a Fixed positive
     delay (else it counts as 16), the configured maximum is that number -- up to usize::MAX: the
     result channel's capacity is capped, so no maximum makes the call panic -- and the model
     runs with min(max, number of script events + 2): with a positive fixed delay a step launches
     at most one attempt (C12_launches_le_events), so that bound is never reached, and below the
     bound the trace does not depend on max (C12_max_irrelevant_below_bound);
     mode mod 4: 0 (or 3) = Fixed d_1, 1 = Immediate, 2 = Dynamic (attempt k -> d_k, 0 beyond nd);
     (mode / 4) mod 2 = 1: gated readiness of clones;
     (mode / 8) mod 4: how the harness shares Hedge values between the calls (no effect here:
     hedged calls are independent of each other);
     (mode / 32) mod 2 = 1: the d_k are microseconds (the timer has millisecond resolution and
     rounds up: d us behave as ceil(d / 1000) ms on whole-millisecond instants), else milliseconds;
     d_k >= 10^18 = Duration::MAX (kept as 10^18 ms);
     op 1 = Poll a, 2 = Drop a, 3 = Advance a ms, 4 = Complete (a / 16) (a mod 16) b (b: 0 ok 1 err 2 panic),
     5 = Ready (a / 16) (a mod 16), 6 = ReadyErr (a / 16) (a mod 16),
     7 = the inner call (a / 16) (a mod 16) panics, synchronously inside inner.call() if it has not
     been made yet: for the attempt task that makes it, that is Complete .. panic,
     8 = Create a: Hedge::call() is made now, the future is not polled (nothing happens before
     the first poll: an Advance 0)
   trace = per event [r; v; ns; nl; wake mask; in-flight; now]
     ns = (inner calls started in this event by call i) * 32^i, nl = same for hedge tasks launched *)
Definition clamp (lo hi z : Z) : Z := Z.max lo (Z.min hi z).

Definition outcome_of (z : Z) : outcome :=
  if z =? 0 then OOk else if z =? 1 then OErr else OPanic.

Definition ev_of (ncalls : nat) (t : Z * Z * Z) : option ev :=
  let '(op, a, b) := t in
  let i := Z.to_nat a in
  if op =? 1 then (if (0 <=? a) && (i <? ncalls)%nat then Some (Poll i) else None) else
  if op =? 2 then (if (0 <=? a) && (i <? ncalls)%nat then Some (Drop i) else None) else
  if op =? 3 then Some (Advance (clamp 0 100000 a)) else
  if op =? 4 then
    (if (0 <=? a) && (Z.to_nat (a / 16) <? ncalls)%nat
     then Some (Complete (Z.to_nat (a / 16)) (Z.to_nat (a mod 16)) (outcome_of b)) else None) else
  if op =? 5 then
    (if (0 <=? a) && (Z.to_nat (a / 16) <? ncalls)%nat
     then Some (Ready (Z.to_nat (a / 16)) (Z.to_nat (a mod 16))) else None) else
  if op =? 6 then
    (if (0 <=? a) && (Z.to_nat (a / 16) <? ncalls)%nat
     then Some (ReadyErr (Z.to_nat (a / 16)) (Z.to_nat (a mod 16))) else None) else
  if op =? 7 then
    (if (0 <=? a) && (Z.to_nat (a / 16) <? ncalls)%nat
     then Some (Complete (Z.to_nat (a / 16)) (Z.to_nat (a mod 16)) OPanic) else None) else
  if op =? 8 then (if (0 <=? a) && (i <? ncalls)%nat then Some (Advance 0) else None)
  else None.

Fixpoint evs_of (ncalls : nat) (l : list (Z * Z * Z)) : list ev :=
  match l with
  | [] => []
  | t :: rest => match ev_of ncalls t with Some e => e :: evs_of ncalls rest | None => evs_of ncalls rest end
  end.

Definition alive (x : call) : bool :=
  match ph x with Created | Latency | Drain => true | _ => false end.

Definition wake_mask (s : st) (total : nat) : Z :=
  fold_left (fun acc j => if alive (calls s j) && woken (calls s j) then acc + 2 ^ Z.of_nat j else acc)
            (seq 0 total) 0.

Definition inflight_call (x : call) : nat :=
  length (filter (fun k => negb (is_some (gate x k))) (seq 0 (length (starts x)))).

Definition inflight (s : st) (total : nat) : Z :=
  fold_left (fun acc j => acc + Z.of_nat (inflight_call (calls s j))) (seq 0 total) 0.

Definition new_starts (s s' : st) (total : nat) : Z :=
  fold_left (fun acc j => acc + Z.of_nat (length (starts (calls s' j)) - length (starts (calls s j)))
                                * 32 ^ Z.of_nat j) (seq 0 total) 0.

(* hedge tasks (k >= 1) launched in this event *)
Definition new_launches (s s' : st) (total : nat) : Z :=
  fold_left (fun acc j => acc + Z.of_nat (length (tl (launch (calls s' j))) - length (tl (launch (calls s j))))
                                * 32 ^ Z.of_nat j) (seq 0 total) 0.

Fixpoint run_evs (c : cfg) (total : nat) (s : st) (evs : list ev) : list Z :=
  match evs with
  | [] => []
  | e :: rest =>
    let '(s', o) := step c s e in
    [r o; v o; new_starts s s' total; new_launches s s' total; wake_mask s' total; inflight s' total; now s']
      ++ run_evs c total s' rest
  end.

Definition dmax : Z := 10 ^ 18.

(* a scripted delay in milliseconds: Duration::MAX stays 10^18; microseconds are rounded up *)
Definition ms_of (micros : bool) (d : Z) : Z :=
  let d := clamp 0 dmax d in
  if dmax <=? d then dmax else if micros then (d + 999) / 1000 else d.

Definition cfg_of (sc : list Z) : cfg :=
  let nd := Z.to_nat (clamp 0 16 (zn sc 3)) in
  let mode := clamp 0 63 (zn sc 1) in
  let ds := map (ms_of ((mode / 32) mod 2 =? 1)) (firstn nd (skipn 4 sc)) in
  let fixed_pos := negb (mode mod 4 =? 1) && negb (mode mod 4 =? 2) && (0 <? nth 0 ds 0) in
  let nev := Z.of_nat (length (chunk3 (skipn (4 + nd) sc))) in
  {| maxa := if (16 <? zn sc 0) && fixed_pos
             then Z.to_nat (Z.min (zn sc 0) (nev + 2))
             else Nat.max 1 (Z.to_nat (clamp 0 16 (zn sc 0)));     (* builder: n.max(1) *)
     dcfg := let m := mode mod 4 in
             if m =? 1 then Immediate
             else if m =? 2 then Dynamic ds
             else Fixed (nth 0 ds 0);
     gated := (mode / 4) mod 2 =? 1 |}.

Definition run_script (sc : list Z) : list Z :=
  let c := cfg_of sc in
  let ncalls := Z.to_nat (clamp 0 4 (zn sc 2)) in
  let nd := Z.to_nat (clamp 0 16 (zn sc 3)) in
  run_evs c ncalls (init c) (evs_of ncalls (chunk3 (skipn (4 + nd) sc))).
