(* Model of tower-resilience-chaos: the decision block of Chaos::call (src/service.rs,
   first poll of the call future) and the ErrorInjector implementations (src/config.rs).

   The model does NOT model StdRng. It is a function of (config, draw stream): the stream is
   the sequence of values the implementation's verification hook logged (log_draw), in
   order. Floating point: a rate / a roll is an IEEE-754 binary64 given by its bit pattern;
   every finite binary64 is an integer multiple of 2^-1074, so [f64_val] decodes it to that
   integer and comparisons are exact integer comparisons (no floating-point axioms).
   No proofs here. *)
From TR Require Import Lib.Base.

(* ---- binary64 decoding: value in units of 2^-1074; None = NaN; infinities = +-2^2100 ---- *)
Definition f64_inf : Z := 2 ^ 2100.
Definition f64_one : Z := 2 ^ 1074.                (* 1.0 = 2^52 * 2^(1023-1) units *)
Definition f64_val (b : Z) : option Z :=
  let b := b mod 2 ^ 64 in
  let neg := 2 ^ 63 <=? b in
  let e := (b / 2 ^ 52) mod 2 ^ 11 in
  let m := b mod 2 ^ 52 in
  let sgn (x : Z) := if neg then - x else x in
  if e =? 2047 then (if m =? 0 then Some (sgn f64_inf) else None)
  else if e =? 0 then Some (sgn m)
  else Some (sgn ((2 ^ 52 + m) * 2 ^ (e - 1))).

(* Rust comparison operators on f64: false as soon as one side is NaN *)
Definition flt (a b : option Z) : bool :=
  match a, b with Some x, Some y => x <? y | _, _ => false end.
Definition fgt (a b : option Z) : bool := flt b a.
Definition fge (a b : option Z) : bool :=
  match a, b with Some x, Some y => y <=? x | _, _ => false end.
(* f64::clamp(0.0, 1.0): NaN stays NaN, -0.0 stays -0.0 (= 0 here) *)
Definition clamp01 (a : option Z) : option Z :=
  match a with
  | None => None
  | Some x => Some (if x <? 0 then 0 else if f64_one <? x then f64_one else x)
  end.

(* ---- configuration as the service sees it ---- *)
Record config := {
  custom : bool;            (* CustomErrorFn (true) or NoErrorInjection (false) *)
  erate : option Z;         (* error_injector.error_rate(): 0.0 for NoErrorInjection *)
  lrate : option Z;         (* latency_rate *)
  min_ms : Z;               (* min_latency.as_millis() *)
  max_ms : Z                (* max_latency.as_millis() *)
}.

(* the builder: error_fn(..).error_rate(r) and latency_rate(r) clamp; bounds given in
   microseconds are truncated to whole milliseconds by as_millis() *)
Definition mk_config (inj ebits lbits min_us max_us : Z) : config :=
  {| custom := negb (inj =? 0);
     erate := if inj =? 0 then Some 0 else clamp01 (f64_val ebits);
     lrate := clamp01 (f64_val lbits);
     min_ms := min_us / 1000;
     max_ms := max_us / 1000 |}.

(* ---- the decision block ---- *)
Record decision := {
  d_kinds : list Z;         (* hook log of this request: 0 error roll, 1 latency roll, 2 delay *)
  d_bits : list Z;          (* the stream entries consumed, in order *)
  d_err : bool;             (* error injected *)
  d_delay : option Z;       (* Some d: latency of d ms injected *)
  d_range : option Z        (* Some z: z was drawn by rng.random_range(min_ms..=max_ms) *)
}.

(* next stream entry; an exhausted stream yields 0 (and the echoed draw count then
   exceeds the implementation's, which the correspondence check reports) *)
Definition next (st : list Z) : Z * list Z :=
  match st with [] => (0, []) | x :: t => (x, t) end.

Definition decide (c : config) (st : list Z) : decision * list Z :=
  (* if config.error_injector.error_rate() > 0.0 { error_roll = rng.random(); log_draw(0, ..) } *)
  let '(eroll, st1, k1, b1) :=
    if fgt (erate c) (Some 0)
    then let (x, r) := next st in (f64_val x, r, [0], [x])
    else (Some f64_one, st, [], []) in
  (* inject_error(&req, error_roll): CustomErrorFn: roll < rate; NoErrorInjection: None *)
  let err := custom c && flt eroll (erate c) in
  (* if config.latency_rate > 0.0 && error_roll >= error_rate() *)
  if fgt (lrate c) (Some 0) && fge eroll (erate c) then
    let (y, st2) := next st1 in
    (* should_inject_latency = latency_roll < config.latency_rate *)
    if flt (f64_val y) (lrate c) then
      (* delay_ms = if max_ms > min_ms { random_range(min_ms..=max_ms) } else { min_ms };
         log_draw(2, delay_ms) in both cases *)
      let (z, st3) := next st2 in
      let ranged := min_ms c <? max_ms c in
      ({| d_kinds := k1 ++ [1; 2]; d_bits := b1 ++ [y; z]; d_err := err;
          d_delay := Some (if ranged then z else min_ms c);
          d_range := if ranged then Some z else None |}, st3)
    else
      ({| d_kinds := k1 ++ [1]; d_bits := b1 ++ [y]; d_err := err;
          d_delay := None; d_range := None |}, st2)
  else
    ({| d_kinds := k1; d_bits := b1; d_err := err; d_delay := None; d_range := None |}, st1).

(* ---- one request through the layer ---- *)
Record request := { q_gap : Z; q_ik : Z; q_iv : Z }.   (* inner outcome: kind 0 Ok / 1 Err, value *)

Record outcome := {
  o_dec : decision;
  o_ev_err : Z; o_ev_lat : Z; o_ev_pass : Z;     (* listener events emitted at the first poll *)
  o_inner : bool;                                 (* inner service called (within the run) *)
  o_t_issue : Z;
  o_t_inner : Z;                                  (* -1: not called *)
  o_res_kind : Z; o_res_val : Z;                  (* 0 Ok v, 1 Err v, -1 still pending *)
  o_t_done : Z
}.

Definition err_fn (req : Z) : Z := req + 7000.    (* the harness's error_fn *)

(* request [i] issued (call + first poll) at [t]; the run ends at [t_end] *)
Definition handle (c : config) (t_end i t : Z) (q : request) (st : list Z) : outcome * list Z :=
  let (d, rest) := decide c st in
  if d_err d then
    (* return Err(err) before inner.call *)
    ({| o_dec := d; o_ev_err := 1; o_ev_lat := 0; o_ev_pass := 0; o_inner := false;
        o_t_issue := t; o_t_inner := -1; o_res_kind := 1; o_res_val := err_fn i;
        o_t_done := t |}, rest)
  else
    let lat := match d_delay d with Some x => x | None => 0 end in
    let has_lat := match d_delay d with Some _ => true | None => false end in
    let ti := t + lat in                          (* tokio::time::sleep(latency_duration) *)
    if ti <=? t_end then
      ({| o_dec := d; o_ev_err := 0; o_ev_lat := b2z has_lat; o_ev_pass := b2z (negb has_lat);
          o_inner := true; o_t_issue := t; o_t_inner := ti;
          o_res_kind := (if q_ik q =? 0 then 0 else 1); o_res_val := q_iv q;   (* inner's result, unchanged *)
          o_t_done := ti |}, rest)
    else
      ({| o_dec := d; o_ev_err := 0; o_ev_lat := b2z has_lat; o_ev_pass := b2z (negb has_lat);
          o_inner := false; o_t_issue := t; o_t_inner := -1; o_res_kind := -1; o_res_val := 0;
          o_t_done := -1 |}, rest).

(* requests in order; request i is issued gap_i ms after request i-1 (requests overlap) *)
Fixpoint run (c : config) (t_end i t : Z) (qs : list request) (st : list Z) : list outcome * list Z :=
  match qs with
  | [] => ([], st)
  | q :: qs' =>
      let t' := t + Z.max 0 (q_gap q) in
      let (o, st') := handle c t_end i t' q st in
      let (os, st'') := run c t_end (i + 1) t' qs' st' in
      (o :: os, st'')
  end.

(* time spanned by the gaps of a request list *)
Definition total_gap (qs : list request) : Z :=
  fold_right (fun q a => Z.max 0 (q_gap q) + a) 0 qs.

(* the decisions of the first n requests as a function of (config, stream) alone *)
Fixpoint decisions (c : config) (n : nat) (st : list Z) : list decision * list Z :=
  match n with
  | O => ([], st)
  | S n' =>
      let (d, st') := decide c st in
      let (ds, st'') := decisions c n' st' in
      (d :: ds, st'')
  end.

(* ---- script interface ----
   script = [inj_kind; error_rate bits; latency_rate bits; min_latency us; max_latency us; seed;
             tail_ms; n; (gap_ms, inner_kind, inner_val)*n] ++ oracle (the logged draw values)
   trace  = [1; per request 14 ints; number of draws consumed; the draws consumed] *)
Definition pad3 (l : list Z) : list Z :=
  [nth 0 l (-1); nth 1 l (-1); nth 2 l (-1)].

Definition enc (o : outcome) : list Z :=
  let d := o_dec o in
  [Z.of_nat (length (d_kinds d))] ++ pad3 (d_kinds d) ++
  [o_ev_err o; o_ev_lat o; o_ev_pass o;
   match d_delay d with Some x => x | None => -1 end;
   b2z (o_inner o); o_t_issue o; o_t_inner o; o_res_kind o; o_res_val o; o_t_done o].

Definition requests_of (s : list Z) (n : nat) : list request :=
  map (fun i => {| q_gap := zn s (8 + 3 * i); q_ik := zn s (8 + 3 * i + 1);
                   q_iv := zn s (8 + 3 * i + 2) |}) (seq 0 n).

Definition run_script (s : list Z) : list Z :=
  let c := mk_config (zn s 0) (zn s 1) (zn s 2) (zn s 3) (zn s 4) in
  let n := Z.to_nat (zn s 7) in
  let qs := requests_of s n in
  let t_end := fold_left (fun a q => a + Z.max 0 (q_gap q)) qs 0 + Z.max 0 (zn s 6) in
  let oracle := skipn (8 + 3 * n) s in
  let (os, _) := run c t_end 0 0 qs oracle in
  let bits := flat_map (fun o => d_bits (o_dec o)) os in
  [1] ++ flat_map enc os ++ [Z.of_nat (length bits)] ++ bits.
