(* Model of tower-resilience-chaos: the decision block of Chaos::call (src/service.rs,
   first poll of the call future) and the ErrorInjector implementations (src/config.rs).

   The model does NOT model StdRng. It is a function of (config, draw stream): the stream is
   the sequence of values the implementation's verification hook logged (log_draw), in
   order. Floating point: a rate / a roll is an IEEE-754 binary64 given by its bit pattern;
   every finite binary64 is an integer multiple of 2^-1074, so [f64_val] decodes it to that
   integer and comparisons are exact integer comparisons (no floating-point axioms).

   The decision block runs at the FIRST POLL of the future returned by call(), not inside
   call(): a run is therefore a list of first-poll events ([run_polls]); a future that is
   never polled consumes nothing. [run] (requests polled as soon as they are created) is
   the special case used before the poll order was scriptable; Proof/Chaos.v shows it is
   [run_polls] on the immediate schedule.
   No proofs here. *)
From TR Require Import Lib.Base.

(* ---- binary64 decoding: value in units of 2^-1074; None = NaN; infinities = +-2^2100 ---- *)
Definition f64_inf : Z := 2 ^ 2100.
Definition f64_one : Z := 2 ^ 1074.                (* 1.0 = 2^52 * 2^(1023-1) units *)
Definition f64_val (b : Z) : option Z :=
  let b := b mod 2 ^ 64 in
  let neg := 2 ^ 63 <=? b in
  let e := (b / 2 ^ 52) mod 2 ^ 11 in
  let m := b mod 2 ^ 52 in
  let sgn (x : Z) := if neg then - x else x in
  if e =? 2047 then (if m =? 0 then Some (sgn f64_inf) else None)
  else if e =? 0 then Some (sgn m)
  else Some (sgn ((2 ^ 52 + m) * 2 ^ (e - 1))).

(* Rust comparison operators on f64: false as soon as one side is NaN *)
Definition flt (a b : option Z) : bool :=
  match a, b with Some x, Some y => x <? y | _, _ => false end.
Definition fgt (a b : option Z) : bool := flt b a.
Definition fge (a b : option Z) : bool :=
  match a, b with Some x, Some y => y <=? x | _, _ => false end.
(* f64::clamp(0.0, 1.0): NaN stays NaN, -0.0 stays -0.0 (= 0 here) *)
Definition clamp01 (a : option Z) : option Z :=
  match a with
  | None => None
  | Some x => Some (if x <? 0 then 0 else if f64_one <? x then f64_one else x)
  end.

(* ---- configuration as the service sees it ---- *)
Record config := {
  custom : bool;            (* CustomErrorFn (true) or NoErrorInjection (false) *)
  erate : option Z;         (* error_injector.error_rate(): 0.0 for NoErrorInjection *)
  lrate : option Z;         (* latency_rate *)
  min_ms : Z;               (* min_latency.as_millis() saturated at u64::MAX *)
  max_ms : Z                (* max_latency.as_millis() saturated at u64::MAX *)
}.

(* A latency bound of the script: v < 2^64 is a Duration of v microseconds; v >= 2^64 is a
   Duration of (v - 2^64) nanoseconds (so that bounds beyond u64 milliseconds can be written).
   [dur_floor_ms] is Duration::as_millis() (u128, truncating sub-millisecond parts);
   [dur_ms] is what the service computes: `u64::try_from(as_millis()).unwrap_or(u64::MAX)`,
   i.e. the truncation SATURATED at u64::MAX ms (fix 37727a1; before it the cast wrapped). *)
Definition u64_max : Z := 2 ^ 64 - 1.
Definition dur_floor_ms (v : Z) : Z :=
  if v <? 2 ^ 64 then Z.max 0 v / 1000 else (v - 2 ^ 64) / 1000000.
Definition dur_ms (v : Z) : Z := Z.min (dur_floor_ms v) u64_max.

(* ---- the builder, as far as the error injector goes (src/config.rs) ----
   Three builder types: ChaosConfigBuilder<NoErrorInjection> [BNone], ChaosConfigBuilderWithRate
   [BWithRate r] (after error_rate() on the former; it has no error_rate() of its own and cannot be
   built) and ChaosConfigBuilder<CustomErrorFn<F>> [BCustom r]. error_rate(r) clamps r;
   error_fn(f) builds CustomErrorFn::new(f, rate) — which clamps again — with the rate configured
   so far: 0.0 on BNone, the stored rate on BWithRate, and (fix 7904406: ConfiguredErrorRate) the
   injector's rate on BCustom. Before that fix a second error_fn reset the rate to 0.0. *)
Inductive bop := BRate (r : option Z) | BFn.
Inductive bstate := BNone | BWithRate (r : option Z) | BCustom (r : option Z).
Definition bstep (b : bstate) (o : bop) : bstate :=
  match b, o with
  | BNone, BRate r => BWithRate (clamp01 r)
  | BNone, BFn => BCustom (clamp01 (Some 0))
  | BWithRate _, BRate r => BWithRate (clamp01 r)      (* no such method: never produced by a route *)
  | BWithRate r0, BFn => BCustom (clamp01 r0)
  | BCustom _, BRate r => BCustom (clamp01 r)
  | BCustom r0, BFn => BCustom (clamp01 r0)
  end.
Definition build (ops : list bop) : bstate := fold_left bstep ops BNone.
Definition brate (b : bstate) : option Z :=
  match b with BNone => Some 0 | BWithRate r => r | BCustom r => r end.
Definition bcustom (b : bstate) : bool := match b with BCustom _ => true | _ => false end.

(* the error_rate()/error_fn() calls of the harness's builder routes (harness/src/bin/c19.rs), in
   order; [r] is the script's error rate, 1/2 and 1/4 are values a route sets first and overwrites *)
Definition route_ops (route : Z) (r : option Z) : list bop :=
  let half := Some (2 ^ 1073) in
  let quarter := Some (2 ^ 1072) in
  match route with
  | 0 => [BFn; BRate r]
  | 1 => [BRate r; BFn]
  | 2 => [BRate r; BFn]
  | 3 => [BFn; BRate r]
  | 4 => [BRate r; BFn]
  | 5 => [BRate half; BFn; BRate r]
  | 6 => [BFn; BRate r]
  | 7 => [BRate r; BFn]
  | 8 => [BRate r; BFn; BFn]                          (* the error function replaced *)
  | 9 => [BFn; BRate r; BFn]
  | 10 => [BFn; BFn; BRate r]
  | 11 => [BRate half; BFn; BRate r; BFn; BFn]
  | 12 => [BRate quarter; BFn; BFn; BRate r]
  | 13 => [BFn; BRate r; BFn; BFn]
  | 14 => [BRate r; BFn; BFn]
  | _ => [BFn; BRate r; BFn]
  end.

(* bit 0 of [flags] selects the injector kind, bits 1-4 the builder route; rates are clamped by the
   setters; the other setters (latency rate, bounds, seed, name, listeners) are last-wins on every
   builder type and reach the configuration unchanged whatever their position *)
Definition mk_config (flags ebits lbits minv maxv : Z) : config :=
  let inj := flags mod 2 in
  let b := build (if inj =? 0 then [] else route_ops ((flags / 2) mod 16) (f64_val ebits)) in
  {| custom := bcustom b;
     erate := brate b;
     lrate := clamp01 (f64_val lbits);
     min_ms := dur_ms minv;
     max_ms := dur_ms maxv |}.

(* ---- the decision block ---- *)
Record decision := {
  d_kinds : list Z;         (* hook log of this request: 0 error roll, 1 latency roll, 2 delay *)
  d_bits : list Z;          (* the stream entries consumed, in order *)
  d_err : bool;             (* error injected *)
  d_delay : option Z;       (* Some d: latency of d ms injected *)
  d_range : option Z        (* Some z: z was drawn by rng.random_range(min_ms..=max_ms) *)
}.

(* next stream entry; an exhausted stream yields 0 (and the echoed draw count then
   exceeds the implementation's, which the correspondence check reports) *)
Definition next (st : list Z) : Z * list Z :=
  match st with [] => (0, []) | x :: t => (x, t) end.

Definition decide (c : config) (st : list Z) : decision * list Z :=
  (* if config.error_injector.error_rate() > 0.0 { error_roll = rng.random(); log_draw(0, ..) } *)
  let '(eroll, st1, k1, b1) :=
    if fgt (erate c) (Some 0)
    then let (x, r) := next st in (f64_val x, r, [0], [x])
    else (Some f64_one, st, [], []) in
  (* inject_error(&req, error_roll): CustomErrorFn: roll < rate; NoErrorInjection: None *)
  let err := custom c && flt eroll (erate c) in
  (* if config.latency_rate > 0.0 && error_roll >= error_rate() *)
  if fgt (lrate c) (Some 0) && fge eroll (erate c) then
    let (y, st2) := next st1 in
    (* should_inject_latency = latency_roll < config.latency_rate *)
    if flt (f64_val y) (lrate c) then
      (* delay_ms = if max_ms > min_ms { random_range(min_ms..=max_ms) } else { min_ms };
         log_draw(2, delay_ms) in both cases *)
      let (z, st3) := next st2 in
      let ranged := min_ms c <? max_ms c in
      ({| d_kinds := k1 ++ [1; 2]; d_bits := b1 ++ [y; z]; d_err := err;
          d_delay := Some (if ranged then z else min_ms c);
          d_range := if ranged then Some z else None |}, st3)
    else
      ({| d_kinds := k1 ++ [1]; d_bits := b1 ++ [y]; d_err := err;
          d_delay := None; d_range := None |}, st2)
  else
    ({| d_kinds := k1; d_bits := b1; d_err := err; d_delay := None; d_range := None |}, st1).

(* ---- one request through the layer ----
   q_ik: bit 0 = inner outcome kind (0 Ok / 1 Err); bits 1-2 = when the harness first polls the
   future (0 at once, 1 deferred until after the next request polled at once, 2/3 dropped
   without ever being polled); bits 3.. = milliseconds the inner service takes to answer *)
Record request := { q_gap : Z; q_ik : Z; q_iv : Z }.
Definition q_kind (q : request) : Z := if (q_ik q) mod 2 =? 0 then 0 else 1.
Definition q_mode (q : request) : Z := (q_ik q / 2) mod 4.
Definition q_lat (q : request) : Z := Z.max 0 (q_ik q / 8).

Record outcome := {
  o_dec : decision;
  o_ev_err : Z; o_ev_lat : Z; o_ev_pass : Z;     (* listener events emitted at the first poll *)
  o_inner : bool;                                 (* inner service called (within the run) *)
  o_t_issue : Z;                                  (* instant of the first poll *)
  o_t_inner : Z;                                  (* -1: not called *)
  o_res_kind : Z; o_res_val : Z;                  (* 0 Ok v, 1 Err v, -1 still pending *)
  o_t_done : Z
}.

Definition err_fn (req : Z) : Z := req + 7000.    (* the harness's error_fn *)

(* request [i] first polled at [t]; the run ends at [t_end] *)
Definition handle (c : config) (t_end i t : Z) (q : request) (st : list Z) : outcome * list Z :=
  let (d, rest) := decide c st in
  if d_err d then
    (* return Err(err) before inner.call *)
    ({| o_dec := d; o_ev_err := 1; o_ev_lat := 0; o_ev_pass := 0; o_inner := false;
        o_t_issue := t; o_t_inner := -1; o_res_kind := 1; o_res_val := err_fn i;
        o_t_done := t |}, rest)
  else
    let lat := match d_delay d with Some x => x | None => 0 end in
    let has_lat := match d_delay d with Some _ => true | None => false end in
    let ti := t + lat in                          (* tokio::time::sleep(latency_duration) *)
    if ti <=? t_end then
      if ti + q_lat q <=? t_end then
        ({| o_dec := d; o_ev_err := 0; o_ev_lat := b2z has_lat; o_ev_pass := b2z (negb has_lat);
            o_inner := true; o_t_issue := t; o_t_inner := ti;
            o_res_kind := q_kind q; o_res_val := q_iv q;   (* inner's result, unchanged *)
            o_t_done := ti + q_lat q |}, rest)
      else
        (* the inner service was called and has not answered when the run ends *)
        ({| o_dec := d; o_ev_err := 0; o_ev_lat := b2z has_lat; o_ev_pass := b2z (negb has_lat);
            o_inner := true; o_t_issue := t; o_t_inner := ti; o_res_kind := -1; o_res_val := 0;
            o_t_done := -1 |}, rest)
    else
      (* still sleeping when the run ends; the PassedThrough event is emitted after the sleep *)
      ({| o_dec := d; o_ev_err := 0; o_ev_lat := b2z has_lat; o_ev_pass := b2z (negb has_lat);
          o_inner := false; o_t_issue := t; o_t_inner := -1; o_res_kind := -1; o_res_val := 0;
          o_t_done := -1 |}, rest).

(* ---- runs as lists of first polls ---- *)
Record pev := { p_idx : Z; p_call : Z; p_poll : Z; p_req : request }.

Fixpoint run_polls (c : config) (t_end : Z) (ps : list pev) (st : list Z)
  : list (pev * outcome) * list Z :=
  match ps with
  | [] => ([], st)
  | p :: ps' =>
      let (o, st') := handle c t_end (p_idx p) (p_poll p) (p_req p) st in
      let (os, st'') := run_polls c t_end ps' st' in
      ((p, o) :: os, st'')
  end.

(* call() instants: request i is created gap_i ms after request i-1 (requests overlap) *)
Fixpoint calls (i t : Z) (qs : list request) : list pev :=
  match qs with
  | [] => []
  | q :: qs' =>
      let t' := t + Z.max 0 (q_gap q) in
      {| p_idx := i; p_call := t'; p_poll := -1; p_req := q |} :: calls (i + 1) t' qs'
  end.

Definition at_poll (t : Z) (p : pev) : pev :=
  {| p_idx := p_idx p; p_call := p_call p; p_poll := t; p_req := p_req p |}.

(* the harness's polling discipline: a request of mode 0 is polled when created and, right after
   it, every deferred request (most recent first); mode 1 is deferred; modes 2/3 are dropped
   unpolled; what is still deferred after the last call() is polled then (most recent first) *)
Fixpoint polls (cs : list pev) (defer : list pev) (t_last : Z) : list pev :=
  match cs with
  | [] => map (at_poll t_last) defer
  | p :: cs' =>
      let m := q_mode (p_req p) in
      if m =? 0 then at_poll (p_call p) p :: map (at_poll (p_call p)) defer ++ polls cs' [] (p_call p)
      else if m =? 1 then polls cs' (p :: defer) (p_call p)
      else polls cs' defer (p_call p)
  end.

(* requests in order, each polled as soon as it is created *)
Fixpoint run (c : config) (t_end i t : Z) (qs : list request) (st : list Z) : list outcome * list Z :=
  match qs with
  | [] => ([], st)
  | q :: qs' =>
      let t' := t + Z.max 0 (q_gap q) in
      let (o, st') := handle c t_end i t' q st in
      let (os, st'') := run c t_end (i + 1) t' qs' st' in
      (o :: os, st'')
  end.

(* time spanned by the gaps of a request list *)
Definition total_gap (qs : list request) : Z :=
  fold_right (fun q a => Z.max 0 (q_gap q) + a) 0 qs.

(* the decisions of the first n polled requests as a function of (config, stream) alone *)
Fixpoint decisions (c : config) (n : nat) (st : list Z) : list decision * list Z :=
  match n with
  | O => ([], st)
  | S n' =>
      let (d, st') := decide c st in
      let (ds, st'') := decisions c n' st' in
      (d :: ds, st'')
  end.

(* ---- script interface ----
   script = [flags; error_rate bits; latency_rate bits; min_latency; max_latency; seed;
             tail_ms; n; (gap_ms, ik, inner_val)*n] ++ oracle (the logged draw values)
   trace  = [7; per request 15 ints; number of draws consumed; the draws consumed;
             n; per request the first 8 ints again: the second service of the same layer value] *)
Definition pad3 (l : list Z) : list Z :=
  [nth 0 l (-1); nth 1 l (-1); nth 2 l (-1)].

Definition enc (p : pev) (o : outcome) : list Z :=
  let d := o_dec o in
  [Z.of_nat (length (d_kinds d))] ++ pad3 (d_kinds d) ++
  [o_ev_err o; o_ev_lat o; o_ev_pass o;
   match d_delay d with Some x => x | None => -1 end;
   b2z (o_inner o); p_call p; o_t_issue o; o_t_inner o; o_res_kind o; o_res_val o; o_t_done o].

(* a future that was dropped without being polled *)
Definition enc_unpolled (p : pev) : list Z :=
  [0; -1; -1; -1; 0; 0; 0; -1; 0; p_call p; -1; -1; -1; 0; -1].

Definition enc_call (os : list (pev * outcome)) (p : pev) : list Z :=
  match find (fun po => p_idx (fst po) =? p_idx p) os with
  | Some po => enc (fst po) (snd po)
  | None => enc_unpolled p
  end.

Definition requests_of (s : list Z) (n : nat) : list request :=
  map (fun i => {| q_gap := zn s (8 + 3 * i); q_ik := zn s (8 + 3 * i + 1);
                   q_iv := zn s (8 + 3 * i + 2) |}) (seq 0 n).

Definition run_script (s : list Z) : list Z :=
  let c := mk_config (zn s 0) (zn s 1) (zn s 2) (zn s 3) (zn s 4) in
  let n := Z.to_nat (zn s 7) in
  let qs := requests_of s n in
  let t_end := fold_left (fun a q => a + Z.max 0 (q_gap q)) qs 0 + Z.max 0 (zn s 6) in
  let oracle := skipn (8 + 3 * n) s in
  let cs := calls 0 0 qs in
  let (os, _) := run_polls c t_end (polls cs [] 0) oracle in
  let bits := flat_map (fun po => d_bits (o_dec (snd po))) os in
  [7] ++ flat_map (enc_call os) cs ++ [Z.of_nat (length bits)] ++ bits ++
  (* a second service built from the SAME layer value (layer.layer() once more), driven like the
     first one afterwards: the crate seeds one generator per service from the configuration, so it
     makes the decisions of a fresh generator, i.e. the first service's (draw log, events, delay) *)
  [Z.of_nat (length cs)] ++ flat_map (fun p => firstn 8 (enc_call os p)) cs.
