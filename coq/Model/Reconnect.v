(* Model of tower-resilience-reconnect: ReconnectService::call and ReconnectFuture::poll
   (src/service.rs), ReconnectConfig::should_reconnect / max_attempts / retry_on_reconnect
   (src/config.rs), ReconnectPolicy::delay_for_attempt (src/policy.rs, attempt starts at 1),
   ReconnectState (src/state.rs: connected / disconnected / reconnecting).
   Two layers sharing the transcription of the Calling arm of poll ([after_outcome]):
   - [reconnect_run]: one request as a function of the stream of inner outcomes
     (structural recursion on fuel: with max_attempts = None the run need not end);
   - [step]: the futures of several requests sharing the published state, at poll
     granularity (Call / Poll / Advance / Complete / MakeReady events), with ghost logs.
   [attempt] is a nat here and a u32 in the code: the model is the code for fewer than
   2^32 reconnectable failures of one request.
   Executable; no proofs here.  Time unit: milliseconds. *)
From TR Require Import Lib.Base.

Section Reconnect.
  Context {Res Err : Type}.

  Inductive outcome := Ok (v : Res) | Fail (e : Err).

  (* state.rs: encode_state *)
  Inductive cstate := Connected | Disconnected | Reconnecting.

  (* service.rs: ReconnectError *)
  Inductive rerr :=
  | MaxAttemptsExceeded (attempts : nat) (e : Err)
  | ConnectionFailed (e : Err)
  | ConnectionFailedNoRetry (e : Err)
  | ServiceError (e : Err).

  Record cfg := {
    pred : option (Err -> bool);          (* reconnect_predicate *)
    max_attempts : option nat;            (* Option<u32> *)
    policy : nat -> option Z;             (* delay_for_attempt, ms *)
    retry_on_reconnect : bool
  }.

  Definition should_reconnect (c : cfg) (e : Err) : bool :=
    match pred c with Some p => p e | None => true end.

  Definition exceeded (c : cfg) (a : nat) : bool :=
    match max_attempts c with Some m => (m <? a)%nat | None => false end.

  Inductive action := AReturn (x : Res + rerr) | ARetry (delay : Z) (e : Err).

  (* service.rs, Phase::Calling arm: what poll does with the result of the inner call
     made when [attempt] reconnectable failures had been seen.  Returns the values
     written to the published state (in order) and the action. *)
  Definition after_outcome (c : cfg) (attempt : nat) (o : outcome) : list cstate * action :=
    match o with
    | Ok v => ([Connected], AReturn (inl v))
    | Fail e =>
      if negb (should_reconnect c e) then ([], AReturn (inr (ServiceError e)))
      else
        let a := S attempt in
        if exceeded c a then ([Disconnected], AReturn (inr (MaxAttemptsExceeded a e)))
        else match policy c a with
             | Some d => ([Disconnected; Reconnecting], ARetry d e)
             | None => ([Disconnected], AReturn (inr (ConnectionFailed e)))
             end
    end.

  (* Phase::Sleeping arm once the sleep is over *)
  Definition after_sleep (c : cfg) (e : Err) : option (list cstate * (Res + rerr)) :=
    if retry_on_reconnect c then None
    else Some ([Connected], inr (ConnectionFailedNoRetry e)).

  Record call := mkCall { c_idx : nat; c_start : Z; c_end : Z; c_out : outcome }.

  (* ---- one request as a function of its outcome stream ----
     inner k = (time until the result of the k-th inner call is observed, the result)
     ready k = (extra wait beyond the delay before call k >= 1 starts, readiness error) *)
  Record run := mkRun {
    calls : list call;
    result : option (Res + rerr);          (* None: fuel exhausted, still reconnecting *)
    writes : list cstate                   (* values written to the published state *)
  }.

  Fixpoint go (c : cfg) (inner : nat -> Z * outcome) (ready : nat -> Z * option Err)
           (fuel a : nat) (t : Z) : run :=
    let tf := t + Z.max 0 (fst (inner a)) in
    let o := snd (inner a) in
    let cl := mkCall a t tf o in
    match after_outcome c a o with
    | (ws, AReturn x) => mkRun [cl] (Some x) ws
    | (ws, ARetry d e) =>
      match after_sleep c e with
      | Some (ws', x) => mkRun [cl] (Some x) (ws ++ ws')
      | None =>
        match snd (ready (S a)) with
        | Some e' => mkRun [cl] (Some (inr (ServiceError e'))) ws
        | None =>
          match fuel with
          | O => mkRun [cl] None ws
          | S f =>
            let r := go c inner ready f (S a)
                        (tf + Z.max 0 d + Z.max 0 (fst (ready (S a)))) in
            mkRun (cl :: calls r) (result r) (ws ++ writes r)
          end
        end
      end
    end.

  Definition reconnect_run (c : cfg) (inner : nat -> Z * outcome)
             (ready : nat -> Z * option Err) (fuel : nat) (t0 : Z) : run :=
    go c inner ready fuel 0%nat t0.

  (* ---- several requests, one published state, poll granularity ---- *)
  Inductive rdy := ROk | RErr (e : Err) | RGated.
  Record rin := { r_inner : nat -> bool * outcome; r_ready : nat -> rdy }.

  Inductive phase :=
  | PInit                        (* service.call(req) not yet made *)
  | PCalling (avail : bool)      (* Phase::Calling; result of the inner call available? *)
  | PSleeping (dl : Z)           (* Phase::Sleeping *)
  | PReadying (released : bool)  (* Phase::Readying *)
  | PDone.                       (* Phase::Failed, or returned Ok *)

  Record rst := mkRst {
    ph : phase;
    attempt : nat;
    last_error : option Err;
    cur_start : Z;
    log : list call;                   (* finished inner calls, newest first *)
    res : option (Res + rerr)
  }.

  Record st := mkSt {
    now : Z;
    cs : cstate;                       (* ReconnectState.state() *)
    reqs : nat -> rst;
    woken : nat -> bool;
    polled : nat -> bool;              (* the future has been polled (a waker is registered) *)
    writer : option nat                (* ghost: request that wrote the state last *)
  }.

  Definition upd {A} (f : nat -> A) (i : nat) (v : A) : nat -> A :=
    fun j => if Nat.eqb j i then v else f j.

  Definition init_rst : rst := mkRst PInit 0%nat None 0 [] None.
  Definition init : st :=
    mkSt 0 Disconnected (fun _ => init_rst) (fun _ => false) (fun _ => false) None.

  Inductive pres := Pending | Ready (x : Res + rerr) | Nothing.

  Definition start_call (inp : rin) (t : Z) (r : rst) : rst :=
    mkRst (PCalling (negb (fst (r_inner inp (attempt r))))) (attempt r) (last_error r) t
          (log r) (res r).

  (* one poll of a ReconnectFuture: runs until it has to wait; returns the state writes *)
  Fixpoint drive (c : cfg) (inp : rin) (fuel : nat) (t : Z) (r : rst)
    : rst * list cstate * pres :=
    match fuel with
    | O => (r, [], Pending)
    | S f =>
      match ph r with
      | PInit => drive c inp f t (start_call inp t r)
      | PCalling false => (r, [], Pending)
      | PCalling true =>
        let o := snd (r_inner inp (attempt r)) in
        let cl := mkCall (attempt r) (cur_start r) t o in
        match after_outcome c (attempt r) o with
        | (ws, AReturn x) =>
          (mkRst PDone (attempt r) None (cur_start r) (cl :: log r) (Some x), ws, Ready x)
        | (ws, ARetry d e) =>
          let '(r', ws', p) :=
            drive c inp f t (mkRst (PSleeping (t + Z.max 0 d)) (S (attempt r)) (Some e)
                                   (cur_start r) (cl :: log r) (res r)) in
          (r', ws ++ ws', p)
        end
      | PSleeping dl =>
        if dl <=? t then
          match last_error r with
          | None => (r, [], Pending)                        (* unreachable *)
          | Some e =>
            match after_sleep c e with
            | None => drive c inp f t (mkRst (PReadying false) (attempt r) (last_error r)
                                             (cur_start r) (log r) (res r))
            | Some (ws, x) =>
              (mkRst PDone (attempt r) None (cur_start r) (log r) (Some x), ws, Ready x)
            end
          end
        else (r, [], Pending)
      | PReadying rel =>
        match r_ready inp (attempt r) with
        | ROk => drive c inp f t (start_call inp t r)
        | RErr e =>
          (mkRst PDone (attempt r) (last_error r) (cur_start r) (log r)
                 (Some (inr (ServiceError e))), [], Ready (inr (ServiceError e)))
        | RGated => if rel then drive c inp f t (start_call inp t r) else (r, [], Pending)
        end
      | PDone => (r, [], Nothing)
      end
    end.

  Inductive ev := Poll (i : nat) | Advance (d : Z) | Complete (i : nat) | MakeReady (i : nat)
                | CallEv (i : nat).

  Record obs := mkObs { o_res : pres; o_polled : bool }.
  Definition no_obs : obs := mkObs Pending false.

  Definition timer_fires (s : st) (t1 : Z) (j : nat) : bool :=
    match ph (reqs s j) with
    | PSleeping dl => (now s <? dl) && (dl <=? t1)
    | _ => false
    end.

  (* [pf]: bound on the micro-steps of one poll (unbounded in the code) *)
  Definition step (c : cfg) (inps : nat -> rin) (pf : nat) (s : st) (e : ev) : st * obs :=
    match e with
    | Poll i =>
      let '(r', ws, p) := drive c (inps i) pf (now s) (reqs s i) in
      (mkSt (now s) (last ws (cs s)) (upd (reqs s) i r') (upd (woken s) i false)
            (upd (polled s) i true) (match ws with [] => writer s | _ => Some i end),
       mkObs p true)
    | CallEv i =>
      let r := reqs s i in
      match ph r with
      | PInit => (mkSt (now s) (cs s) (upd (reqs s) i (start_call (inps i) (now s) r))
                       (woken s) (polled s) (writer s), no_obs)
      | _ => (s, no_obs)
      end
    | Advance d =>
      let t1 := now s + Z.max 0 d in
      (mkSt t1 (cs s) (reqs s) (fun j => woken s j || timer_fires s t1 j) (polled s) (writer s),
       no_obs)
    | Complete i =>
      let r := reqs s i in
      match ph r with
      | PCalling false =>
        (mkSt (now s) (cs s)
              (upd (reqs s) i (mkRst (PCalling true) (attempt r) (last_error r) (cur_start r)
                                     (log r) (res r)))
              (if polled s i then upd (woken s) i true else woken s) (polled s) (writer s), no_obs)
      | _ => (s, no_obs)
      end
    | MakeReady i =>
      let r := reqs s i in
      match ph r with
      | PReadying false =>
        (mkSt (now s) (cs s)
              (upd (reqs s) i (mkRst (PReadying true) (attempt r) (last_error r) (cur_start r)
                                     (log r) (res r)))
              (upd (woken s) i true) (polled s) (writer s), no_obs)
      | _ => (s, no_obs)
      end
    end.

  Definition step_st (c : cfg) (inps : nat -> rin) (pf : nat) (s : st) (e : ev) : st :=
    fst (step c inps pf s e).

  Definition started_calls (r : rst) : list (Z * Z) :=
    map (fun cl => (c_start cl, c_end cl)) (rev (log r)) ++
    match ph r with PCalling _ => [(cur_start r, -1)] | _ => [] end.
End Reconnect.

Arguments outcome : clear implicits.
Arguments rerr : clear implicits.
Arguments cfg : clear implicits.
Arguments call : clear implicits.
Arguments run : clear implicits.
Arguments rin : clear implicits.
Arguments rst : clear implicits.
Arguments st : clear implicits.
Arguments rdy : clear implicits.
Arguments pres : clear implicits.
Arguments action : clear implicits.
Arguments obs : clear implicits.

(* ---- script interface (instantiation used by the correspondence check) ----
   script = [has_max; max; pred_mode; policy; p1; p2; retry; nreq; L;
             delay_0 .. delay_{L-1};                       (Custom policy: delay for attempt k)
             nreq blocks [(okind payload gated ready) x L];
             (op a)* ]
     has_max 0: unlimited_attempts, 1: max_attempts(max)
     pred_mode 0: none, 1: error flag, 2: error code even, 3: never
     policy 0: None, 1: Fixed(p1 ms), 2: Custom(table), 3: exponential(p1 ms, max p2 ms)
     okind 0: Ok(payload), 1: Err(code payload, flag true), 2: Err(code payload, flag false)
     gated 0: the inner call returns at once, 1: when the script says Complete
     ready (before call k >= 1) 0: Ready(Ok), 1: Ready(Err(100000+payload)), 2: Pending until MakeReady
     op 1 = Poll a (calls the service first if not yet done), 2 = Advance a ms, 3 = Complete a,
        4 = MakeReady a, 5 = Call a (service.call without polling the future)
   Calls beyond L behave like the all-zero entry.
   trace = per event [r; kind; payload; attempts; wake mask; published state (0 connected,
             1 disconnected, 2 reconnecting); inner calls started so far; finished so far]
           r: -1 no poll, 0 pending, 1 Ok, 2 Err, 9 nothing to poll
           kind (r = 2): 1 MaxAttemptsExceeded, 2 ConnectionFailed, 3 ConnectionFailedNoRetry, 4 ServiceError
           ++ per request [number of inner calls; (start, end or -1) per call] ++ [0] *)
Definition Zerr := (Z * bool)%type.

Definition entry (s : list Z) (L : nat) (base : nat) (k j : nat) : Z :=
  if (k <? L)%nat then zn s (base + 4 * k + j) else 0.

Definition outcome_of (kind p : Z) : outcome Z Zerr :=
  if kind =? 0 then Ok p else if kind =? 1 then Fail (p, true) else Fail (p, false).

Definition rin_of (s : list Z) (L : nat) (base : nat) : rin Z Zerr :=
  {| r_inner := fun k => (negb (entry s L base k 2 =? 0),
                          outcome_of (entry s L base k 0) (entry s L base k 1));
     r_ready := fun k =>
       let m := entry s L base k 3 in
       if m =? 0 then ROk else
       if m =? 1 then RErr (100000 + entry s L base k 1, true) else RGated |}.

Definition pred_of (m : Z) : option (Zerr -> bool) :=
  if m =? 0 then None else
  if m =? 1 then Some (fun e => snd e) else
  if m =? 2 then Some (fun e => Z.even (fst e)) else Some (fun _ => false).

Definition policy_of (s : list Z) (L : nat) (kind p1 p2 : Z) (a : nat) : option Z :=
  if kind =? 0 then None else
  if kind =? 1 then Some (Z.max 0 p1) else
  if kind =? 2 then Some (if (a <? L)%nat then Z.max 0 (zn s (9 + a)) else 0) else
  Some (Z.min (Z.max 0 p1 * 2 ^ Z.of_nat a) (Z.max 0 p2)).

Definition ev_of (n : nat) (t : Z * Z) : option ev :=
  let '(op, a) := t in
  let i := Z.to_nat a in
  let okid := (0 <=? a) && (i <? n)%nat in
  if op =? 1 then (if okid then Some (Poll i) else None) else
  if op =? 2 then Some (Advance a) else
  if op =? 3 then (if okid then Some (Complete i) else None) else
  if op =? 4 then (if okid then Some (MakeReady i) else None) else
  if op =? 5 then (if okid then Some (CallEv i) else None) else None.

Fixpoint evs_of (n : nat) (l : list (Z * Z)) : list ev :=
  match l with
  | [] => []
  | t :: rest => match ev_of n t with Some e => e :: evs_of n rest | None => evs_of n rest end
  end.

Definition wake_mask (s : st Z Zerr) (n : nat) : Z :=
  fold_left (fun acc j => if woken s j then acc + 2 ^ Z.of_nat j else acc) (seq 0 n) 0.

Definition cs_code (x : cstate) : Z :=
  match x with Connected => 0 | Disconnected => 1 | Reconnecting => 2 end.

Definition obs_ints (s' : st Z Zerr) (n : nat) (o : obs Z Zerr) : list Z :=
  (if o_polled o then
     match o_res o with
     | Pending => [0; 0; 0; 0]
     | Ready (inl v) => [1; 0; v; 0]
     | Ready (inr (MaxAttemptsExceeded a e)) => [2; 1; fst e; Z.of_nat a]
     | Ready (inr (ConnectionFailed e)) => [2; 2; fst e; 0]
     | Ready (inr (ConnectionFailedNoRetry e)) => [2; 3; fst e; 0]
     | Ready (inr (ServiceError e)) => [2; 4; fst e; 0]
     | Nothing => [9; 0; 0; 0]
     end
   else [-1; 0; 0; 0]) ++
  [wake_mask s' n; cs_code (cs s');
   fold_left (fun acc j => acc + Z.of_nat (length (started_calls (reqs s' j)))) (seq 0 n) 0;
   fold_left (fun acc j => acc + Z.of_nat (length (log (reqs s' j)))) (seq 0 n) 0].

Fixpoint run_evs (c : cfg Zerr) (inps : nat -> rin Z Zerr) (pf n : nat) (s : st Z Zerr)
         (evs : list ev) : list Z * st Z Zerr :=
  match evs with
  | [] => ([], s)
  | e :: rest =>
    let '(s', o) := step c inps pf s e in
    let '(tr, sf) := run_evs c inps pf n s' rest in
    (obs_ints s' n o ++ tr, sf)
  end.

Definition calls_ints (r : rst Z Zerr) : list Z :=
  let l := started_calls r in
  Z.of_nat (length l) :: flat_map (fun p => [fst p; snd p]) l.

Definition run_script (s : list Z) : list Z :=
  let n := Z.to_nat (zn s 7) in
  let L := Z.to_nat (zn s 8) in
  let c := {| pred := pred_of (zn s 2);
              max_attempts := if zn s 0 =? 0 then None else Some (Z.to_nat (zn s 1));
              policy := policy_of s L (zn s 3) (zn s 4) (zn s 5);
              retry_on_reconnect := negb (zn s 6 =? 0) |} in
  let blk := (4 * L)%nat in
  let inps := fun i => rin_of s L (9 + L + i * blk) in
  let evs := evs_of n (chunk2 (skipn (9 + L + n * blk) s)) in
  let '(tr, sf) := run_evs c inps (4 * (L + 2) + 4) n init evs in
  tr ++ flat_map (fun i => calls_ints (reqs sf i)) (seq 0 n) ++ [0].
