(* Model of tower-resilience-reconnect: ReconnectService::call and ReconnectFuture::poll
   (src/service.rs), ReconnectConfig::should_reconnect / max_attempts / retry_on_reconnect
   (src/config.rs), ReconnectPolicy::delay_for_attempt (src/policy.rs, attempt starts at 1),
   ReconnectState (src/state.rs: connected / disconnected / reconnecting).
   Two layers sharing the transcription of the Calling arm of poll ([after_outcome]):
   - [reconnect_run]: one request as a function of the stream of inner outcomes
     (structural recursion on fuel: with max_attempts = None the run need not end);
   - [step]: the futures of several requests sharing the published state, at poll
     granularity (Call / Poll / Advance / Complete / MakeReady events), with ghost logs.
   [attempt] is a nat here (the true number of connection failures counted); the code keeps
   min(attempt, u32::MAX) in a u32 ([sat32]) and treats a count that no longer fits as
   exceeding every max_attempts ([exceeded], service.rs: counted = attempt.checked_add(1)).
   Executable; no proofs here.  Time unit: nanoseconds; the timer rounds deadlines up to
   whole milliseconds and every poll has a cooperative budget (Lib/TokioTime.v). *)
From TR Require Import Lib.Base Lib.TokioTime.

Section Reconnect.
  Context {Res Err : Type}.

  Inductive outcome := Ok (v : Res) | Fail (e : Err).

  (* state.rs: encode_state *)
  Inductive cstate := Connected | Disconnected | Reconnecting.

  (* service.rs: ReconnectError *)
  Inductive rerr :=
  | MaxAttemptsExceeded (attempts : nat) (e : Err)
  | ConnectionFailed (e : Err)
  | ConnectionFailedNoRetry (e : Err)
  | ServiceError (e : Err).

  Record cfg := {
    pred : option (Err -> bool);          (* reconnect_predicate *)
    max_attempts : option nat;            (* Option<u32> *)
    policy : nat -> option Z;             (* delay_for_attempt, ns *)
    retry_on_reconnect : bool
  }.

  Definition should_reconnect (c : cfg) (e : Err) : bool :=
    match pred c with Some p => p e | None => true end.

  (* the u32 the code stores when [n] failures have been counted: attempt.checked_add(1)
     .unwrap_or(u32::MAX), i.e. min(n, u32::MAX) *)
  Definition U32MAX : Z := 4294967295.
  Definition sat32 (n : nat) : nat := if Z.of_nat n <=? U32MAX then n else Z.to_nat U32MAX.

  (* [a] = number of failures counted including this one.  counted = Some a if it fits a u32,
     None otherwise; exceeded iff counted.map_or(true, |k| k > max) *)
  Definition exceeded (c : cfg) (a : nat) : bool :=
    match max_attempts c with
    | Some m => if Z.of_nat a <=? U32MAX then (m <? a)%nat else true
    | None => false
    end.

  (* policy.delay_for_attempt(attempt as usize) on the stored (saturated) counter *)
  Definition delay_at (c : cfg) (a : nat) : option Z := policy c (sat32 a).

  Inductive action := AReturn (x : Res + rerr) | ARetry (delay : Z) (e : Err).

  (* service.rs, Phase::Calling arm: what poll does with the result of the inner call
     made when [attempt] reconnectable failures had been seen.  Returns the values
     written to the published state (in order) and the action. *)
  Definition after_outcome (c : cfg) (attempt : nat) (o : outcome) : list cstate * action :=
    match o with
    | Ok v => ([Connected], AReturn (inl v))
    | Fail e =>
      if negb (should_reconnect c e) then ([], AReturn (inr (ServiceError e)))
      else
        let a := S attempt in
        if exceeded c a then ([Disconnected], AReturn (inr (MaxAttemptsExceeded (sat32 a) e)))
        else match delay_at c a with
             | Some d => ([Disconnected; Reconnecting], ARetry d e)
             | None => ([Disconnected], AReturn (inr (ConnectionFailed e)))
             end
    end.

  (* Phase::Sleeping arm once the sleep is over *)
  Definition after_sleep (c : cfg) (e : Err) : option (list cstate * (Res + rerr)) :=
    if retry_on_reconnect c then None
    else Some ([Connected], inr (ConnectionFailedNoRetry e)).

  Record call := mkCall { c_idx : nat; c_start : Z; c_end : Z; c_out : outcome }.

  (* ---- one request as a function of its outcome stream ----
     inner k = (time until the result of the k-th inner call is observed, the result)
     ready k = (extra wait beyond the (rounded) end of the delay before call k >= 1 starts
                — late poll, exhausted cooperative budget, pending readiness —, readiness error) *)
  Record run := mkRun {
    calls : list call;
    result : option (Res + rerr);          (* None: fuel exhausted, still reconnecting *)
    writes : list cstate                   (* values written to the published state *)
  }.

  Fixpoint go (c : cfg) (inner : nat -> Z * outcome) (ready : nat -> Z * option Err)
           (fuel a : nat) (t : Z) : run :=
    let tf := t + Z.max 0 (fst (inner a)) in
    let o := snd (inner a) in
    let cl := mkCall a t tf o in
    match after_outcome c a o with
    | (ws, AReturn x) => mkRun [cl] (Some x) ws
    | (ws, ARetry d e) =>
      match after_sleep c e with
      | Some (ws', x) => mkRun [cl] (Some x) (ws ++ ws')
      | None =>
        match snd (ready (S a)) with
        | Some e' => mkRun [cl] (Some (inr (ServiceError e'))) ws
        | None =>
          match fuel with
          | O => mkRun [cl] None ws
          | S f =>
            let r := go c inner ready f (S a)
                        (ceil_ms (tf + Z.max 0 d) + Z.max 0 (fst (ready (S a)))) in
            mkRun (cl :: calls r) (result r) (ws ++ writes r)
          end
        end
      end
    end.

  Definition reconnect_run (c : cfg) (inner : nat -> Z * outcome)
             (ready : nat -> Z * option Err) (fuel : nat) (t0 : Z) : run :=
    go c inner ready fuel 0%nat t0.

  (* ---- several requests, one published state, poll granularity ---- *)
  Inductive rdy := ROk | RErr (e : Err) | RGated.
  (* k-th call: (gated?, outcome); readiness before the k-th call (k >= 1).  A gated call
     waits on a tokio oneshot (completed by the Complete event) and so takes part in the
     cooperative budget; an ungated call returns at once without touching the runtime. *)
  Record rin := { r_inner : nat -> bool * outcome; r_ready : nat -> rdy }.

  Inductive phase :=
  | PInit                        (* service.call(req) not yet made *)
  | PCalling (avail : bool)      (* Phase::Calling; result of the inner call available? *)
  | PSleeping (dl : Z)           (* Phase::Sleeping *)
  | PReadying (released : bool)  (* Phase::Readying *)
  | PDone.                       (* Phase::Failed, or returned Ok *)

  Record rst := mkRst {
    ph : phase;
    attempt : nat;
    last_error : option Err;
    cur_start : Z;
    log : list call;                   (* finished inner calls, newest first *)
    res : option (Res + rerr)
  }.

  Record st := mkSt {
    now : Z;
    cs : cstate;                       (* ReconnectState.state() *)
    reqs : nat -> rst;
    woken : nat -> bool;
    polled : nat -> bool;              (* the future has been polled (a waker is registered) *)
    writer : option nat;               (* ghost: request that wrote the state last *)
    wlog : list (nat * cstate)         (* ghost: every write of the state, by request, newest first *)
  }.

  Definition upd {A} (f : nat -> A) (i : nat) (v : A) : nat -> A :=
    fun j => if Nat.eqb j i then v else f j.

  Definition init_rst : rst := mkRst PInit 0%nat None 0 [] None.
  Definition init : st :=
    mkSt 0 Disconnected (fun _ => init_rst) (fun _ => false) (fun _ => false) None [].

  Inductive pres := Pending | Ready (x : Res + rerr) | Nothing.

  Definition start_call (inp : rin) (t : Z) (r : rst) : rst :=
    mkRst (PCalling (negb (fst (r_inner inp (attempt r))))) (attempt r) (last_error r) t
          (log r) (res r).

  (* one poll of a ReconnectFuture: runs until it has to wait; returns the state writes.
     [coop]: what is left of the cooperative budget of this poll.  The last component of
     the result is true when the poll ended because a tokio resource found the budget
     exhausted: the future has then woken itself (and registered nowhere else). *)
  Fixpoint drive (c : cfg) (inp : rin) (fuel coop : nat) (t : Z) (r : rst)
    : rst * list cstate * pres * bool :=
    match fuel with
    | O => (r, [], Pending, false)                           (* unreachable: Proof/Reconnect.v *)
    | S f =>
      match ph r with
      | PInit => drive c inp f coop t (start_call inp t r)
      | PCalling av =>
        let gated := fst (r_inner inp (attempt r)) in
        if gated && (coop =? 0)%nat then (r, [], Pending, true)
        else if negb av then (r, [], Pending, false)
        else
          let coop1 := if gated then Nat.pred coop else coop in
          let o := snd (r_inner inp (attempt r)) in
          let cl := mkCall (attempt r) (cur_start r) t o in
          match after_outcome c (attempt r) o with
          | (ws, AReturn x) =>
            (mkRst PDone (attempt r) None (cur_start r) (cl :: log r) (Some x), ws, Ready x, false)
          | (ws, ARetry d e) =>
            let '(r', ws', p, sw) :=
              drive c inp f coop1 t
                    (mkRst (PSleeping (ceil_ms (t + Z.max 0 d))) (S (attempt r)) (Some e)
                           (cur_start r) (cl :: log r) (res r)) in
            (r', ws ++ ws', p, sw)
          end
      | PSleeping dl =>
        match coop with
        | O => (r, [], Pending, true)
        | S k =>
          if dl <=? t then
            match last_error r with
            | None => (r, [], Pending, false)                  (* unreachable *)
            | Some e =>
              match after_sleep c e with
              | None => drive c inp f k t (mkRst (PReadying false) (attempt r) (last_error r)
                                                 (cur_start r) (log r) (res r))
              | Some (ws, x) =>
                (mkRst PDone (attempt r) None (cur_start r) (log r) (Some x), ws, Ready x, false)
              end
            end
          else (r, [], Pending, false)
        end
      | PReadying rel =>
        match r_ready inp (attempt r) with
        | ROk => drive c inp f coop t (start_call inp t r)
        | RErr e =>
          (mkRst PDone (attempt r) (last_error r) (cur_start r) (log r)
                 (Some (inr (ServiceError e))), [], Ready (inr (ServiceError e)), false)
        | RGated => if rel then drive c inp f coop t (start_call inp t r)
                    else (r, [], Pending, false)
        end
      | PDone => (r, [], Nothing, false)
      end
    end.

  (* between two completed sleeps a poll makes at most four micro-steps, and it completes
     at most COOP sleeps *)
  Definition poll_fuel : nat := (4 * (COOP + 2))%nat.

  Inductive ev := Poll (i : nat) | Advance (d : Z) | Complete (i : nat) | MakeReady (i : nat)
                | CallEv (i : nat).

  (* what one event shows: result of the poll, self-wake, the values the poll wrote to the
     published state (in order) and the attempt counter it started from *)
  Record obs := mkObs { o_res : pres; o_polled : bool; o_self : bool;
                        o_ws : list cstate; o_att0 : nat }.
  Definition no_obs : obs := mkObs Pending false false [] 0%nat.

  Definition timer_fires (s : st) (t1 : Z) (j : nat) : bool :=
    match ph (reqs s j) with
    | PSleeping dl => (now s <? dl) && (dl <=? t1)
    | _ => false
    end.

  (* [pf]: bound on the micro-steps of one poll (never reached when 4 * cp + 3 < pf:
     Proof/Reconnect.v); [cp]: cooperative budget of one poll.  run_script uses poll_fuel, COOP. *)
  Definition step (c : cfg) (inps : nat -> rin) (pf cp : nat) (s : st) (e : ev) : st * obs :=
    match e with
    | Poll i =>
      let '(r', ws, p, sw) := drive c (inps i) pf cp (now s) (reqs s i) in
      (mkSt (now s) (last ws (cs s)) (upd (reqs s) i r') (upd (woken s) i sw)
            (upd (polled s) i true) (match ws with [] => writer s | _ => Some i end)
            (rev (map (pair i) ws) ++ wlog s),
       mkObs p true sw ws (attempt (reqs s i)))
    | CallEv i =>
      let r := reqs s i in
      match ph r with
      | PInit => (mkSt (now s) (cs s) (upd (reqs s) i (start_call (inps i) (now s) r))
                       (woken s) (polled s) (writer s) (wlog s), no_obs)
      | _ => (s, no_obs)
      end
    | Advance d =>
      let t1 := now s + Z.max 0 d in
      (mkSt t1 (cs s) (reqs s) (fun j => woken s j || timer_fires s t1 j) (polled s) (writer s)
            (wlog s), no_obs)
    | Complete i =>
      let r := reqs s i in
      match ph r with
      | PCalling false =>
        (mkSt (now s) (cs s)
              (upd (reqs s) i (mkRst (PCalling true) (attempt r) (last_error r) (cur_start r)
                                     (log r) (res r)))
              (if polled s i then upd (woken s) i true else woken s) (polled s) (writer s)
              (wlog s), no_obs)
      | _ => (s, no_obs)
      end
    | MakeReady i =>
      let r := reqs s i in
      match ph r with
      | PReadying false =>
        (mkSt (now s) (cs s)
              (upd (reqs s) i (mkRst (PReadying true) (attempt r) (last_error r) (cur_start r)
                                     (log r) (res r)))
              (upd (woken s) i true) (polled s) (writer s) (wlog s), no_obs)
      | _ => (s, no_obs)
      end
    end.

  Definition step_st (c : cfg) (inps : nat -> rin) (pf cp : nat) (s : st) (e : ev) : st :=
    fst (step c inps pf cp s e).

  Definition started_calls (r : rst) : list (Z * Z) :=
    map (fun cl => (c_start cl, c_end cl)) (rev' (log r)) ++
    match ph r with PCalling _ => [(cur_start r, -1)] | _ => [] end.
End Reconnect.

Arguments outcome : clear implicits.
Arguments rerr : clear implicits.
Arguments cfg : clear implicits.
Arguments call : clear implicits.
Arguments run : clear implicits.
Arguments rin : clear implicits.
Arguments rst : clear implicits.
Arguments st : clear implicits.
Arguments rdy : clear implicits.
Arguments pres : clear implicits.
Arguments action : clear implicits.
Arguments obs : clear implicits.

(* ---- script interface (instantiation used by the correspondence check) ----
   script = [has_max; max; pred_mode; policy; p1; p2; retry; nreq; L;
             delay_0 .. delay_{L-1};                       (Custom policy: delay for attempt k)
             nreq blocks [(okind payload gated ready) x L];
             (op a)* ]
     has_max even: unlimited_attempts, odd: max_attempts(max); has_max / 2 tells the harness how
       the requests reach the layer (0: one service per request, 1: all through one
       ReconnectService, 2: through clones of one service) — the model does not depend on it
     p1 (Fixed), delay_k (Custom): durations (Lib/TokioTime.v ns_of: below 2^40 milliseconds,
       2^40 + n = n nanoseconds); exponential: p1, p2 in whole milliseconds
     pred_mode 0: none, 1: error flag, 2: error code even, 3: never
     policy 0: None, 1: Fixed(p1 ms), 2: Custom(table), 3: exponential(p1 ms, max p2 ms)
     okind 0: Ok(payload), 1: Err(code payload, flag true), 2: Err(code payload, flag false)
     gated 0: the inner call returns at once, 1: when the script says Complete
     ready (before call k >= 1) 0: Ready(Ok), 1: Ready(Err(100000+payload)), 2: Pending until MakeReady
     op 1 = Poll a (calls the service first if not yet done), 2 = Advance a ms, 3 = Complete a,
        4 = MakeReady a, 5 = Call a (service.call without polling the future)
     retry: bit 0 = retry_on_reconnect; retry / 2 <> 0: calls beyond L fail with a connection
       failure for ever (Err(code k, flag true), immediate, ready) instead of the all-zero entry
   Calls beyond L behave like the all-zero entry (unless retry / 2 <> 0).  Instants in the trace are milliseconds
   (all instants of a script are whole milliseconds).
   trace = per event [r; kind; payload; attempts; wake mask; published state (0 connected,
             1 disconnected, 2 reconnecting); inner calls started so far; finished so far;
             hash of the `to` states passed to on_state_change during the event, in order;
             hash of the attempt numbers passed to on_reconnect during the event, in order]
           r: -1 no poll, 0 pending, 1 Ok, 2 Err, 9 nothing to poll
           kind (r = 2): 1 MaxAttemptsExceeded, 2 ConnectionFailed, 3 ConnectionFailedNoRetry, 4 ServiceError
           ++ per request [number of inner calls; (start, end or -1) per call] ++ [0] *)
Definition Zerr := (Z * bool)%type.

(* calls beyond the table: tail = false: the all-zero entry (Ok 0, immediate, ready);
   tail = true: a connection failure for ever (Err(code k, flag true), immediate, ready) *)
Definition entry (s : list Z) (L : nat) (tail : bool) (base : nat) (k j : nat) : Z :=
  if (k <? L)%nat then zn s (base + 4 * k + j)
  else if tail then match j with O => 1 | S O => Z.of_nat k | _ => 0 end else 0.

Definition outcome_of (kind p : Z) : outcome Z Zerr :=
  if kind =? 0 then Ok p else if kind =? 1 then Fail (p, true) else Fail (p, false).

Definition rin_of (s : list Z) (L : nat) (tail : bool) (base : nat) : rin Z Zerr :=
  {| r_inner := fun k => (negb (entry s L tail base k 2 =? 0),
                          outcome_of (entry s L tail base k 0) (entry s L tail base k 1));
     r_ready := fun k =>
       let m := entry s L tail base k 3 in
       if m =? 0 then ROk else
       if m =? 1 then RErr (100000 + entry s L tail base k 1, true) else RGated |}.

Definition pred_of (m : Z) : option (Zerr -> bool) :=
  if m =? 0 then None else
  if m =? 1 then Some (fun e => snd e) else
  if m =? 2 then Some (fun e => Z.even (fst e)) else Some (fun _ => false).

Definition policy_of (s : list Z) (L : nat) (kind p1 p2 : Z) (a : nat) : option Z :=
  if kind =? 0 then None else
  if kind =? 1 then Some (ns_of p1) else
  if kind =? 2 then Some (if (a <? L)%nat then ns_of (zn s (9 + a)) else 0) else
  Some (Z.min (Z.max 0 p1 * 2 ^ Z.of_nat a) (Z.max 0 p2) * MS).

Definition ev_of (n : nat) (t : Z * Z) : option ev :=
  let '(op, a) := t in
  if op =? 2 then Some (Advance (a * MS)) else
  if (0 <=? a) && (a <? Z.of_nat n) then
    let i := Z.to_nat a in
    if op =? 1 then Some (Poll i) else
    if op =? 3 then Some (Complete i) else
    if op =? 4 then Some (MakeReady i) else
    if op =? 5 then Some (CallEv i) else None
  else None.

Fixpoint evs_of (n : nat) (l : list (Z * Z)) : list ev :=
  match l with
  | [] => []
  | t :: rest => match ev_of n t with Some e => e :: evs_of n rest | None => evs_of n rest end
  end.

Definition wake_mask (s : st Z Zerr) (n : nat) : Z :=
  fold_left (fun acc j => if woken s j then acc + 2 ^ Z.of_nat j else acc) (seq 0 n) 0.

Definition cs_code (x : cstate) : Z :=
  match x with Connected => 0 | Disconnected => 1 | Reconnecting => 2 end.

(* the callbacks (crate feature `tracing`): on_state_change(from, to) after every write of the
   published state except the mark_connected of ConnectionFailedNoRetry; on_reconnect(attempt)
   after every mark_reconnecting.  The attempt counter grows with every mark_disconnected. *)
Definition HP : Z := 1000000007.
Definition cb_states (o : obs Z Zerr) : list cstate :=
  match o_res o with
  | Ready (inr (ConnectionFailedNoRetry _)) => removelast (o_ws o)
  | _ => o_ws o
  end.
Definition cb_hash (l : list cstate) : Z :=
  fold_left (fun h x => (h * 5 + cs_code x + 1) mod HP) l 0.
Definition rc_hash (a0 : nat) (l : list cstate) : Z :=
  fst (fold_left (fun (ha : Z * Z) x =>
                    match x with
                    | Disconnected => (fst ha, snd ha + 1)
                    | Reconnecting => ((fst ha * 1000003 + snd ha) mod HP, snd ha)
                    | Connected => ha
                    end) l (0, Z.of_nat a0)).

Definition obs_ints (s' : st Z Zerr) (n : nat) (o : obs Z Zerr) : list Z :=
  (if o_polled o then
     match o_res o with
     | Pending => [0; 0; 0; 0]
     | Ready (inl v) => [1; 0; v; 0]
     | Ready (inr (MaxAttemptsExceeded a e)) => [2; 1; fst e; Z.of_nat a]
     | Ready (inr (ConnectionFailed e)) => [2; 2; fst e; 0]
     | Ready (inr (ConnectionFailedNoRetry e)) => [2; 3; fst e; 0]
     | Ready (inr (ServiceError e)) => [2; 4; fst e; 0]
     | Nothing => [9; 0; 0; 0]
     end
   else [-1; 0; 0; 0]) ++
  [wake_mask s' n; cs_code (cs s');
   fold_left (fun acc j => acc + Z.of_nat (length (log (reqs s' j))) +
                           match ph (reqs s' j) with PCalling _ => 1 | _ => 0 end) (seq 0 n) 0;
   fold_left (fun acc j => acc + Z.of_nat (length (log (reqs s' j)))) (seq 0 n) 0;
   cb_hash (cb_states o); rc_hash (o_att0 o) (o_ws o)].

Fixpoint run_evs (c : cfg Zerr) (inps : nat -> rin Z Zerr) (n : nat) (s : st Z Zerr)
         (evs : list ev) : list Z * st Z Zerr :=
  match evs with
  | [] => ([], s)
  | e :: rest =>
    let '(s', o) := step c inps poll_fuel COOP s e in
    let '(tr, sf) := run_evs c inps n s' rest in
    (obs_ints s' n o ++ tr, sf)
  end.

Definition calls_ints (r : rst Z Zerr) : list Z :=
  let l := started_calls r in
  Z.of_nat (length l) :: flat_map (fun p => [fst p / MS; if snd p <? 0 then -1 else snd p / MS]) l.

Definition run_script (s : list Z) : list Z :=
  let n := Z.to_nat (zn s 7) in
  let L := Z.to_nat (zn s 8) in
  let c := {| pred := pred_of (zn s 2);
              max_attempts := if Z.even (zn s 0) then None else Some (Z.to_nat (zn s 1));
              policy := policy_of s L (zn s 3) (zn s 4) (zn s 5);
              retry_on_reconnect := Z.odd (zn s 6) |} in
  let tail := negb (zn s 6 / 2 =? 0) in
  let blk := (4 * L)%nat in
  let inps := fun i => rin_of s L tail (9 + L + i * blk) in
  let evs := evs_of n (chunk2 (skipn (9 + L + n * blk) s)) in
  let '(tr, sf) := run_evs c inps n init evs in
  tr ++ flat_map (fun i => calls_ints (reqs sf i)) (seq 0 n) ++ [0].
