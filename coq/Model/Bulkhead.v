(* Model of tower-resilience-bulkhead (src/service.rs, Bulkhead::call) at poll
   granularity, together with tokio's fair batch semaphore and time::timeout.
   Executable; no proofs here.  Time unit: nanoseconds (instants and max_wait).
   Timer resolution: tokio's timer wheel works in whole milliseconds since the start of the
   runtime; a sleep whose deadline is not on a millisecond tick fires at the NEXT tick
   (Lib/TokioTime.v: ceil_ms), and a freshly registered sleep is elapsed at once only if that
   tick has been reached.  On whole-millisecond instants and waits ceil_ms is the identity. *)
From TR Require Import Lib.Base Lib.TokioTime.

Inductive outcome := OOk | OErr | OPanic.

Inductive cst :=
| Created                      (* future exists (or will), never polled *)
| Waiting (dl : option Z)      (* queued on (or granted by) the semaphore; timer deadline *)
| Running                      (* holds a permit, inner call in flight *)
| Done
| Dropped.

Inductive ev :=
| Poll (i : nat)
| Drop (i : nat)
| Advance (d : Z)
| Complete (i : nat) (o : outcome).

Record cfg := { cap : nat; max_wait : option Z }.

Record st := mkSt {
  now : Z;
  free : nat;                 (* permits in the semaphore's counter *)
  queue : list nat;           (* waiters not yet handed a permit, FIFO *)
  granted : list nat;         (* waiters handed a permit by a release, not yet polled *)
  running : list nat;         (* callers whose inner call is in flight *)
  cs : nat -> cst;
  gate : nat -> option outcome;   (* scripted completion of caller i's inner call *)
  woken : nat -> bool;            (* wake flag of caller i's waker *)
  entered : nat -> bool;          (* ghost: caller i's request reached the inner service *)
  arrival : nat -> option Z       (* ghost: instant of caller i's first poll *)
}.

Definition upd {A} (f : nat -> A) (i : nat) (v : A) : nat -> A :=
  fun j => if Nat.eqb j i then v else f j.

Definition remove_id (i : nat) (l : list nat) : list nat :=
  filter (fun j => negb (Nat.eqb j i)) l.

Definition mem (i : nat) (l : list nat) : bool := existsb (Nat.eqb i) l.

Definition init (c : cfg) : st :=
  {| now := 0; free := cap c; queue := []; granted := []; running := [];
     cs := fun _ => Created; gate := fun _ => None; woken := fun _ => false;
     entered := fun _ => false; arrival := fun _ => None |}.

(* a permit is given back: head of the queue gets it (and is woken), else the counter *)
Definition release (s : st) : st :=
  match queue s with
  | h :: q => mkSt (now s) (free s) q (granted s ++ [h]) (running s) (cs s) (gate s)
                   (upd (woken s) h true) (entered s) (arrival s)
  | [] => mkSt (now s) (S (free s)) (queue s) (granted s) (running s) (cs s) (gate s)
               (woken s) (entered s) (arrival s)
  end.

(* observation of one event: result code, inner call started in this poll?,
   in-flight count seen by the inner service when it was started *)
Record obs := { r : Z; started : bool; seen : Z }.
Definition no_obs : obs := {| r := -1; started := false; seen := 0 |}.

(* result codes of a poll: 0 pending, 1 Ok, 2 Err(Inner), 3 Err(Timeout), 5 panicked,
   9 nothing to poll (finished or dropped); 4 would be BulkheadFull (unreachable) *)

(* caller i holds a permit and has just called the inner service (or is polled again) *)
Definition poll_running (s : st) (i : nat) (st_now : bool) (seen_now : Z) : st * obs :=
  match gate s i with
  | None => (s, {| r := 0; started := st_now; seen := seen_now |})
  | Some o =>
    let s1 := mkSt (now s) (free s) (queue s) (granted s) (remove_id i (running s))
                   (upd (cs s) i Done) (gate s) (woken s) (entered s) (arrival s) in
    (release s1,
     {| r := match o with OOk => 1 | OErr => 2 | OPanic => 5 end;
        started := st_now; seen := seen_now |})
  end.

Definition start (s : st) (i : nat) : st * obs :=
  let s1 := mkSt (now s) (free s) (queue s) (granted s) (i :: running s)
                 (upd (cs s) i Running) (gate s) (woken s) (upd (entered s) i true) (arrival s) in
  poll_running s1 i true (Z.of_nat (length (running s1))).

Definition poll (c : cfg) (s0 : st) (i : nat) : st * obs :=
  let s := mkSt (now s0) (free s0) (queue s0) (granted s0) (running s0) (cs s0) (gate s0)
                (upd (woken s0) i false) (entered s0)
                (match cs s0 i with Created => upd (arrival s0) i (Some (now s0)) | _ => arrival s0 end) in
  match cs s i with
  | Created =>
    match free s with
    | S f => start (mkSt (now s) f (queue s) (granted s) (running s) (cs s) (gate s)
                         (woken s) (entered s) (arrival s)) i
    | O =>
      match max_wait c with
      | Some w =>
        (* time::timeout(w, acquire): the acquire is queued, the Sleep's deadline is now + w,
           rounded up to the timer tick; if that tick has been reached the Sleep is elapsed in
           this very poll (w = 0 on a tick: reject_when_full) and the acquire is dropped again *)
        let d := ceil_ms (now s + w) in
        if d <=? now s then
          (mkSt (now s) (free s) (queue s) (granted s) (running s) (upd (cs s) i Done)
                (gate s) (woken s) (entered s) (arrival s),
           {| r := 3; started := false; seen := 0 |})
        else
          (mkSt (now s) (free s) (queue s ++ [i]) (granted s) (running s)
                (upd (cs s) i (Waiting (Some d))) (gate s) (woken s) (entered s) (arrival s),
           {| r := 0; started := false; seen := 0 |})
      | None =>
          (mkSt (now s) (free s) (queue s ++ [i]) (granted s) (running s)
                (upd (cs s) i (Waiting None)) (gate s) (woken s) (entered s) (arrival s),
           {| r := 0; started := false; seen := 0 |})
      end
    end
  | Waiting dl =>
    if mem i (granted s) then
      start (mkSt (now s) (free s) (queue s) (remove_id i (granted s)) (running s) (cs s)
                  (gate s) (woken s) (entered s) (arrival s)) i
    else
      match dl with
      | Some d =>
        if d <=? now s then
          (mkSt (now s) (free s) (remove_id i (queue s)) (granted s) (running s)
                (upd (cs s) i Done) (gate s) (woken s) (entered s) (arrival s),
           {| r := 3; started := false; seen := 0 |})
        else (s, {| r := 0; started := false; seen := 0 |})
      | None => (s, {| r := 0; started := false; seen := 0 |})
      end
  | Running => poll_running s i false 0
  | Done | Dropped => (s, {| r := 9; started := false; seen := 0 |})
  end.

Definition drop (s0 : st) (i : nat) : st :=
  let s := mkSt (now s0) (free s0) (queue s0) (granted s0) (running s0) (cs s0) (gate s0)
                (upd (woken s0) i false) (entered s0) (arrival s0) in
  match cs s i with
  | Created =>
    mkSt (now s) (free s) (queue s) (granted s) (running s) (upd (cs s) i Dropped) (gate s)
         (woken s) (entered s) (arrival s)
  | Waiting _ =>
    if mem i (granted s) then
      release (mkSt (now s) (free s) (queue s) (remove_id i (granted s)) (running s)
                    (upd (cs s) i Dropped) (gate s) (woken s) (entered s) (arrival s))
    else
      mkSt (now s) (free s) (remove_id i (queue s)) (granted s) (running s)
           (upd (cs s) i Dropped) (gate s) (woken s) (entered s) (arrival s)
  | Running =>
    release (mkSt (now s) (free s) (queue s) (granted s) (remove_id i (running s))
                  (upd (cs s) i Dropped) (gate s) (woken s) (entered s) (arrival s))
  | Done | Dropped => s
  end.

Definition timer_fires (s : st) (t1 : Z) (j : nat) : bool :=
  match cs s j with
  | Waiting (Some d) => (now s <? d) && (d <=? t1)
  | _ => false
  end.

Definition advance (s : st) (d : Z) : st :=
  let t1 := now s + Z.max 0 d in
  mkSt t1 (free s) (queue s) (granted s) (running s) (cs s) (gate s)
       (fun j => woken s j || timer_fires s t1 j) (entered s) (arrival s).

Definition complete (s : st) (i : nat) (o : outcome) : st :=
  match gate s i with
  | Some _ => s
  | None =>
    mkSt (now s) (free s) (queue s) (granted s) (running s) (cs s) (upd (gate s) i (Some o))
         (match cs s i with Running => upd (woken s) i true | _ => woken s end) (entered s) (arrival s)
  end.

Definition step (c : cfg) (s : st) (e : ev) : st * obs :=
  match e with
  | Poll i => poll c s i
  | Drop i => (drop s i, no_obs)
  | Advance d => (advance s d, no_obs)
  | Complete i o => (complete s i o, no_obs)
  end.

Definition step_st (c : cfg) (s : st) (e : ev) : st := fst (step c s e).

(* ---- script interface ----
   script = [cap; max_wait (-1 = none, else a duration); nf; (op a b)* ]
     durations (max_wait, Advance amounts) use Lib/TokioTime.ns_of: a value below 2^40 is in
       milliseconds, 2^40 + k is k nanoseconds (the sub-millisecond class)
     nf = n + 1000 * flags: n = number of scripted callers (ids 0..n-1); the flags select the
       builder route, the service handle each caller goes through and listener registration in
       the driver (harness/src/bin/c01.rs) -- none of them exists in this model: every route
       yields the configuration (cap, max_wait) and every handle shares the one semaphore.
     op 1 = Poll a, 2 = Drop a, 3 = Advance a ms, 4 = Complete a b (b: 0 ok 1 err, else panic;
       3 = the inner service panics synchronously inside its call(), which is the same
       observable behaviour as a response future that panics in its first poll),
     5 = call() without a poll (nothing happens in call() for this layer: no-op),
     6 = call() for every caller still without a future, then every service handle is dropped (no-op).
     Events of ops 1, 2, 4, 5 whose caller id is outside 0..n-1 are ignored (no trace row).
   After the scripted events every caller 0..n-1 is dropped and cap+1 fresh callers
   n..n+cap are polled once each (capacity probe, C07); PROBE_BIG of them for a sentinel capacity.
   trace = per event [r; inner calls started in this poll; seen; wake mask over the first 120
                      callers; in-flight count; id+1 of the request whose inner call started] *)
Definition outcome_of (z : Z) : outcome :=
  if z =? 0 then OOk else if z =? 1 then OErr else OPanic.

Definition ev_of (n : nat) (t : Z * Z * Z) : option ev :=
  let '(op, a, b) := t in
  if op =? 3 then Some (Advance (ns_of a)) else
  if op =? 6 then Some (Advance 0) else
  if negb ((0 <=? a) && (a <? Z.of_nat n)) then None else
  (* only now is [a] known to be a small caller id (extraction is strict: no Z.to_nat before) *)
  if op =? 1 then Some (Poll (Z.to_nat a)) else
  if op =? 2 then Some (Drop (Z.to_nat a)) else
  if op =? 4 then Some (Complete (Z.to_nat a) (outcome_of b)) else
  if op =? 5 then Some (Advance 0) else None.
  (* op 5 = the call future of caller a is created (call()) without being polled: nothing
     happens in call() for this layer, so the model treats it as a no-op.
     op 6 = the driver creates the call future of every caller that has none yet (scripted and
     probe callers) and then drops EVERY service handle: the call futures own their
     Arc<Semaphore> and keep working, so this is a no-op as well *)

Fixpoint evs_of (n : nat) (l : list (Z * Z * Z)) : list ev :=
  match l with
  | [] => []
  | t :: rest => match ev_of n t with Some e => e :: evs_of n rest | None => evs_of n rest end
  end.

Definition wake_mask (s : st) (total : nat) : Z :=
  fold_left (fun acc j => if woken s j then acc + 2 ^ Z.of_nat j else acc) (seq 0 total) 0.

(* the request whose inner call was started by this event (id + 1; 0 = none) *)
Definition started_id (e : ev) (o : obs) : Z :=
  match e with
  | Poll i => if started o then Z.of_nat i + 1 else 0
  | _ => 0
  end.

Fixpoint run_evs (c : cfg) (total : nat) (s : st) (evs : list ev) : list Z :=
  match evs with
  | [] => []
  | e :: rest =>
    let '(s', o) := step c s e in
    [r o; b2z (started o); seen o; wake_mask s' total; Z.of_nat (length (running s'));
     started_id e o]
      ++ run_evs c total s' rest
  end.

(* Capacity sentinel: a first script field >= 10^15 stands for a max_concurrent_calls at or above
   tokio's Semaphore::MAX_PERMITS = usize::MAX >> 3 (10^15 = usize::MAX, 10^15+1 = MAX_PERMITS+1,
   10^15+2 = MAX_PERMITS): Bulkhead::new clamps the capacity to MAX_PERMITS (fix 40a6972).  Such a
   capacity cannot be written as a (unary) nat in an executable model; a script has at most 999
   scripted callers and, for these scripts, PROBE_BIG probe callers, and a bulkhead whose capacity
   is at least the number of callers that ever exist never refuses anybody, so run_script uses
   BIG_CAP (> 999 + PROBE_BIG) for it.  The theorems are for every cap, MAX_PERMITS included. *)
Definition CAP_SENTINEL : Z := 1000000000000000.
Definition BIG_CAP : nat := 2000.
Definition PROBE_BIG : nat := 8.

Definition cfg_of (sc : list Z) : cfg :=
  {| cap := if CAP_SENTINEL <=? zn sc 0 then BIG_CAP else Z.to_nat (zn sc 0);
     max_wait := if zn sc 1 <? 0 then None else Some (ns_of (zn sc 1)) |}.

Definition callers_of (sc : list Z) : nat := Z.to_nat (zn sc 2 mod 1000).

Definition script_evs (sc : list Z) : list ev := evs_of (callers_of sc) (chunk3 (skipn 3 sc)).

(* number of fresh callers polled by the capacity probe: cap + 1, or PROBE_BIG for a sentinel capacity *)
Definition probe_len (sc : list Z) : nat :=
  if CAP_SENTINEL <=? zn sc 0 then PROBE_BIG else (cap (cfg_of sc) + 1)%nat.

Definition probe_evs (n k : nat) : list ev :=
  map Drop (seq 0 n) ++ map Poll (seq n k).

Definition run_script (sc : list Z) : list Z :=
  let c := cfg_of sc in
  let n := callers_of sc in
  run_evs c (Nat.min (n + probe_len sc) 120) (init c) (script_evs sc ++ probe_evs n (probe_len sc)).
