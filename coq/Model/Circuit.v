(* Model of tower-resilience-circuitbreaker: Circuit (src/circuit.rs) transcribed
   field for field, and the service level (src/lib.rs, both call bodies) at poll
   granularity. Executable; no proofs here. Time unit: milliseconds. *)
From TR Require Import Lib.Base.
From RecordUpdate Require Import RecordUpdate.

Inductive cstate := Closed | Open | HalfOpen.

Definition cstate_eqb (a b : cstate) : bool :=
  match a, b with
  | Closed, Closed | Open, Open | HalfOpen, HalfOpen => true
  | _, _ => false
  end.

Record cfg := mkCfg {
  time_based : bool;
  wsize : Z;              (* sliding_window_size *)
  wdur : Z;               (* sliding_window_duration (time-based) *)
  minc : Z;               (* minimum_number_of_calls *)
  fnum : Z; fden : Z;     (* failure_rate_threshold = fnum / fden *)
  slow_on : bool;         (* slow_call_duration_threshold is set *)
  slow_thr : Z;           (* ... its value *)
  snum : Z; sden : Z;     (* slow_call_rate_threshold = snum / sden *)
  wait_open : Z;          (* wait_duration_in_open *)
  permitted : Z;          (* permitted_calls_in_half_open *)
  has_fallback : bool
}.

Record circuit := mkCircuit {
  state : cstate;
  state_atomic : cstate;        (* the lock-free mirror *)
  last_change : Z;
  fc : Z; sc : Z; tc : Z; slowc : Z;      (* failure / success / total / slow counts *)
  records : list (Z * bool * bool);       (* time-based: (timestamp, is_failure, is_slow), oldest first *)
  cwin : list (bool * bool);              (* count-based: (is_failure, is_slow), oldest first *)
  rsc : Z;                                (* recorded_since_change *)
  hos : Z;                                (* half_open_successes *)
  phase : Z;                              (* Trials.phase *)
  admitted : Z                            (* Trials.admitted *)
}.
#[export] Instance eta_circuit : Settable _ :=
  settable! mkCircuit <state; state_atomic; last_change; fc; sc; tc; slowc; records; cwin;
                       rsc; hos; phase; admitted>.

Definition new_circuit : circuit :=
  mkCircuit Closed Closed 0 0 0 0 0 [] [] 0 0 0 0.

Definition clear_window (c : circuit) : circuit :=
  c <| fc := 0 |> <| sc := 0 |> <| tc := 0 |> <| slowc := 0 |> <| records := [] |>
    <| cwin := [] |> <| rsc := 0 |> <| hos := 0 |>.

Definition transition_to (now : Z) (s : cstate) (c : circuit) : circuit :=
  if cstate_eqb (state c) s then c
  else clear_window (c <| state := s |> <| state_atomic := s |> <| last_change := now |>)
         <| phase := phase c + 1 |> <| admitted := 0 |>.

(* rate >= threshold, as exact rational comparison: cnt/total >= num/den
   (agrees with the binary64 quotient comparison of the code for the small counts and
   small-denominator thresholds used; see DESIGN.md trusted base) *)
Definition rate_ge (cnt total num den : Z) : bool := num * total <=? cnt * den.

Fixpoint drop_old (now dur : Z) (l : list (Z * bool * bool)) : list (Z * bool * bool) :=
  match l with
  | (ts, f, s) :: rest => if dur <? now - ts then drop_old now dur rest else l
  | [] => []
  end.

Definition cleanup_old_records (now : Z) (cf : cfg) (c : circuit) : circuit :=
  c <| records := drop_old now (wdur cf) (records c) |>.

Definition count_fail (l : list (Z * bool * bool)) : Z :=
  Z.of_nat (length (filter (fun r => snd (fst r)) l)).
Definition count_slow (l : list (Z * bool * bool)) : Z :=
  Z.of_nat (length (filter (fun r => snd r) l)).

(* (total, failures, successes, slow) *)
Definition time_based_stats (c : circuit) : Z * Z * Z * Z :=
  let t := Z.of_nat (length (records c)) in
  let f := count_fail (records c) in
  (t, f, t - f, count_slow (records c)).

Fixpoint slide_loop (fuel : nat) (n : Z) (c : circuit) : circuit :=
  match fuel with
  | O => c
  | S k =>
    if n <? Z.of_nat (length (cwin c)) then
      match cwin c with
      | (oldf, olds) :: rest =>
        let c1 := c <| cwin := rest |> in
        let c2 := if oldf then c1 <| fc := fc c1 - 1 |> else c1 <| sc := sc c1 - 1 |> in
        let c3 := if olds then c2 <| slowc := slowc c2 - 1 |> else c2 in
        slide_loop k n (c3 <| tc := tc c3 - 1 |>)
      | [] => c
      end
    else c
  end.

Definition slide_count_window (cf : cfg) (is_failure is_slow : bool) (c : circuit) : circuit :=
  let c1 := c <| rsc := rsc c + 1 |> <| cwin := cwin c ++ [(is_failure, is_slow)] |> in
  match state c1 with
  | HalfOpen => c1
  | _ => slide_loop (length (cwin c1)) (Z.max (wsize cf) 1) c1
  end.

Definition evaluate_window (now : Z) (cf : cfg) (c0 : circuit) : circuit :=
  let c := if time_based cf then cleanup_old_records now cf c0 else c0 in
  let '(total, failures, _, slow) :=
    if time_based cf then time_based_stats c else (tc c, fc c, sc c, slowc c) in
  let recorded := if time_based cf then total else rsc c in
  if recorded <? minc cf then c
  else if negb (time_based cf) && (recorded <? wsize cf) then c
  else
    let should_open := rate_ge failures total (fnum cf) (fden cf)
                       || (slow_on cf && rate_ge slow total (snum cf) (sden cf)) in
    if should_open then transition_to now Open c else c.

Definition record (now : Z) (cf : cfg) (is_failure : bool) (duration : Z) (c0 : circuit) : circuit :=
  let is_slow := slow_on cf && (slow_thr cf <=? duration) in
  let c1 :=
    if time_based cf then
      (cleanup_old_records now cf c0) <| records ::= fun l => l ++ [(now, is_failure, is_slow)] |>
    else
      let c := if is_failure then c0 <| fc := fc c0 + 1 |> else c0 <| sc := sc c0 + 1 |> in
      let c := c <| tc := tc c + 1 |> in
      let c := if is_slow then c <| slowc := slowc c + 1 |> else c in
      slide_count_window cf is_failure is_slow c in
  match state c1 with
  | HalfOpen =>
    if is_failure then transition_to now Open c1
    else
      let c2 := c1 <| hos := hos c1 + 1 |> in
      if permitted cf <=? hos c2 then transition_to now Closed c2 else c2
  | _ => evaluate_window now cf c1
  end.

(* returns (circuit', permitted?) *)
Definition try_acquire (now : Z) (cf : cfg) (c : circuit) : circuit * bool :=
  match state c with
  | Closed => (c, true)
  | Open =>
    if wait_open cf <=? now - last_change c then
      ((transition_to now HalfOpen c) <| admitted := 1 |>, true)
    else (c, false)
  | HalfOpen =>
    if admitted c <? permitted cf then (c <| admitted := admitted c + 1 |>, true)
    else (c, false)
  end.

Definition force_open (now : Z) (c : circuit) := transition_to now Open c.
Definition force_closed (now : Z) (c : circuit) := transition_to now Closed c.
Definition reset (now : Z) (c : circuit) := clear_window (transition_to now Closed c).

(* metrics(): (state, total, failures, successes, slow) *)
Definition metrics (cf : cfg) (c : circuit) : cstate * Z * Z * Z * Z :=
  if time_based cf then
    let '(t, f, s, sl) := time_based_stats c in (state c, t, f, s, sl)
  else (state c, tc c, fc c, sc c, slowc c).

(* ------------------------------------------------------------------------- *)
(* Service level *)
Inductive outcome := OOk (fail : bool) | OErr (fail : bool) | OPanic | OCPanic.
  (* fail = what the failure classifier says about this result;
     OPanic  = the inner call panics;
     OCPanic = the inner call returns a result on which the failure classifier panics
               (lib.rs: classify() runs after trial.recorded() and before the record_success/record_failure call) *)

Inductive cst :=
| Created
| Running (start : Z) (trial : option Z)   (* inner call in flight; trial guard holds its phase *)
| Done
| Dropped.

Inductive ev :=
| Poll (i : nat)
| Drop (i : nat)
| Advance (d : Z)
| Complete (i : nat) (o : outcome)
| ForceOpen | ForceClosed | Reset.

Record st := mkSt {
  now : Z;
  circ : circuit;
  cs : nat -> cst;
  gate : nat -> option outcome;
  woken : nat -> bool;
  inflight : Z;                  (* inner calls in flight *)
  gstarts : Z;                   (* ghost: trial calls started in the current phase *)
  ghand : Z                      (* ghost: trial slots handed back (cancelled trials) in the current phase *)
}.
#[export] Instance eta_st : Settable _ :=
  settable! mkSt <now; circ; cs; gate; woken; inflight; gstarts; ghand>.

(* ghost bookkeeping: the counters restart whenever the circuit's phase changed *)
Definition gsync (old_phase : Z) (s : st) : st :=
  if phase (circ s) =? old_phase then s else s <| gstarts := 0 |> <| ghand := 0 |>.
Definition ghandback (tr : option Z) (s : st) : st :=
  match tr with
  | Some p => if p =? phase (circ s) then s <| ghand := ghand s + 1 |> else s
  | None => s
  end.

Definition upd {A} (f : nat -> A) (i : nat) (v : A) : nat -> A :=
  fun j => if Nat.eqb j i then v else f j.

Definition init : st :=
  mkSt 0 new_circuit (fun _ => Created) (fun _ => None) (fun _ => false) 0 0 0.

Record obs := { r : Z; started : bool }.
Definition no_obs : obs := {| r := -1; started := false |}.

(* dropping an unrecorded trial guard gives the slot back if the phase is unchanged *)
Definition drop_trial (tr : option Z) (c : circuit) : circuit :=
  match tr with
  | Some p => if p =? phase c then c <| admitted := Z.max 0 (admitted c - 1) |> else c
  | None => c
  end.

(* result codes: 0 pending, 1 Ok, 2 Err(Inner), 3 Err(OpenCircuit), 4 fallback response,
   5 panicked, 9 nothing to poll *)
Definition poll_running (cf : cfg) (s : st) (i : nat) (start : Z) (tr : option Z) (st_now : bool)
  : st * obs :=
  match gate s i with
  | None => (s, {| r := 0; started := st_now |})
  | Some OPanic =>
    (* the poll panics; the executor drops the future: inner dropped, guard dropped unrecorded *)
    ((ghandback tr s) <| cs := upd (cs s) i Done |> <| inflight := inflight s - 1 |>
       <| circ := drop_trial tr (circ s) |>,
     {| r := 5; started := st_now |})
  | Some OCPanic =>
    (* the inner call has completed; the classifier panics after trial.recorded(): the guard is
       dropped as recorded (no hand-back) and nothing is recorded in the circuit *)
    (s <| cs := upd (cs s) i Done |> <| inflight := inflight s - 1 |>,
     {| r := 5; started := st_now |})
  | Some (OOk f) =>
    (gsync (phase (circ s))
       (s <| cs := upd (cs s) i Done |> <| inflight := inflight s - 1 |>
          <| circ := record (now s) cf f (now s - start) (circ s) |>),
     {| r := 1; started := st_now |})
  | Some (OErr f) =>
    (gsync (phase (circ s))
       (s <| cs := upd (cs s) i Done |> <| inflight := inflight s - 1 |>
          <| circ := record (now s) cf f (now s - start) (circ s) |>),
     {| r := 2; started := st_now |})
  end.

Definition poll (cf : cfg) (s0 : st) (i : nat) : st * obs :=
  let s := s0 <| woken := upd (woken s0) i false |> in
  match cs s i with
  | Created =>
    let '(c', ok) := try_acquire (now s) cf (circ s) in
    if ok then
      let tr := match state c' with HalfOpen => Some (phase c') | _ => None end in
      let s1 := gsync (phase (circ s))
                  (s <| circ := c' |> <| cs := upd (cs s) i (Running (now s) tr) |>
                     <| inflight := inflight s + 1 |>) in
      let s2 := match tr with Some _ => s1 <| gstarts := gstarts s1 + 1 |> | None => s1 end in
      poll_running cf s2 i (now s) tr true
    else
      (s <| circ := c' |> <| cs := upd (cs s) i Done |>,
       {| r := if has_fallback cf then 4 else 3; started := false |})
  | Running start tr => poll_running cf s i start tr false
  | Done | Dropped => (s, {| r := 9; started := false |})
  end.

Definition drop (s0 : st) (i : nat) : st :=
  let s := s0 <| woken := upd (woken s0) i false |> in
  match cs s i with
  | Created => s <| cs := upd (cs s) i Dropped |>
  | Running _ tr =>
    (ghandback tr s) <| cs := upd (cs s) i Dropped |> <| inflight := inflight s - 1 |>
      <| circ := drop_trial tr (circ s) |>
  | Done | Dropped => s
  end.

Definition complete (s : st) (i : nat) (o : outcome) : st :=
  match gate s i with
  | Some _ => s
  | None =>
    s <| gate := upd (gate s) i (Some o) |>
      <| woken := match cs s i with Running _ _ => upd (woken s) i true | _ => woken s end |>
  end.

Definition step (cf : cfg) (s : st) (e : ev) : st * obs :=
  match e with
  | Poll i => poll cf s i
  | Drop i => (drop s i, no_obs)
  | Advance d => (s <| now := now s + Z.max 0 d |>, no_obs)
  | Complete i o => (complete s i o, no_obs)
  | ForceOpen => (gsync (phase (circ s)) (s <| circ := force_open (now s) (circ s) |>), no_obs)
  | ForceClosed => (gsync (phase (circ s)) (s <| circ := force_closed (now s) (circ s) |>), no_obs)
  | Reset => (gsync (phase (circ s)) (s <| circ := reset (now s) (circ s) |>), no_obs)
  end.

Definition step_st (cf : cfg) (s : st) (e : ev) : st := fst (step cf s e).

(* ---- script interface ----
   script = [time_based; wsize; wdur; minc; fnum; fden; slow_on; slow_thr; snum; sden;
             wait_open; permitted; has_fallback; n; (op a b)*]
     op 1 Poll a | 2 Drop a | 3 Advance a | 4 Complete a b | 5 ForceOpen | 6 ForceClosed | 7 Reset
     op 8 Call a (the call future is created, not polled)
     events naming a caller outside 0..n-1 are skipped (no trace entry)
     outcome b: 0 ok | 1 ok classified as failure | 2 err (failure) | 3 err classified as
                success | 5 ok, and the failure classifier panics on it | anything else: panic
     min_calls < 0 in the configuration = minimum_number_of_calls not set (defaults to the
     window size)
     first field = time_based + 2*unit_us + 4*unit_ns: with unit_us (unit_ns) = 1 every
     duration and advance of the script is in microseconds (nanoseconds) instead of milliseconds;
     the model is unit-agnostic and ignores the bits (only the driver needs them)
   trace = per event [r; started; state; state_sync; metrics.state; total; failures; successes;
                      slow; in-flight; wake mask of callers 0..119]   (states: 0 Closed, 1 Open, 2 HalfOpen) *)
Definition outcome_of (z : Z) : outcome :=
  if z =? 0 then OOk false else if z =? 1 then OOk true else
  if z =? 2 then OErr true else if z =? 3 then OErr false else
  if z =? 5 then OCPanic else OPanic.

Definition ev_of (n : Z) (t : Z * Z * Z) : option ev :=
  let '(op, a, b) := t in
  (* Z.to_nat only under the caller test: an Advance of 10^6 ns must not build a unary number *)
  let caller := (0 <=? a) && (a <? n) in
  if op =? 1 then (if caller then Some (Poll (Z.to_nat a)) else None) else
  if op =? 2 then (if caller then Some (Drop (Z.to_nat a)) else None) else
  if op =? 3 then Some (Advance a) else
  if op =? 4 then (if caller then Some (Complete (Z.to_nat a) (outcome_of b)) else None) else
  if op =? 5 then Some ForceOpen else
  if op =? 6 then Some ForceClosed else
  if op =? 7 then Some Reset else
  if op =? 8 then (if caller then Some (Advance 0) else None) else
  (* 15 / 16 / 17: force_open / force_closed / reset called on the SERVICE's own handle (the
     fallback service when a fallback is configured) instead of the plain clone: same circuit *)
  if op =? 15 then Some ForceOpen else
  if op =? 16 then Some ForceClosed else
  if op =? 17 then Some Reset else
  (* 25 / 26: HealthTriggerable::trigger_unhealthy / trigger_healthy on the service's handle: a
     spawned task does force_open / force_closed; it has run by the time the event is observed *)
  if op =? 25 then Some ForceOpen else
  if op =? 26 then Some ForceClosed else None.
  (* op 8 = the call future of caller a is created (call()) without being polled: nothing
     happens in call() for this layer, so the model treats it as a no-op *)

Fixpoint evs_of (n : Z) (l : list (Z * Z * Z)) : list ev :=
  match l with
  | [] => []
  | t :: rest => match ev_of n t with Some e => e :: evs_of n rest | None => evs_of n rest end
  end.

Definition code (s : cstate) : Z := match s with Closed => 0 | Open => 1 | HalfOpen => 2 end.

Definition wake_mask (s : st) (total : nat) : Z :=
  fold_left (fun acc j => if woken s j then acc + 2 ^ Z.of_nat j else acc) (seq 0 total) 0.

Fixpoint run_evs (cf : cfg) (n : nat) (s : st) (evs : list ev) : list Z :=
  match evs with
  | [] => []
  | e :: rest =>
    let '(s', o) := step cf s e in
    let '(ms, t, f, su, sl) := metrics cf (circ s') in
    [r o; b2z (started o); code (state (circ s')); code (state_atomic (circ s')); code ms;
     t; f; su; sl; inflight s'; wake_mask s' (Nat.min n 120)] ++ run_evs cf n s' rest
  end.

Definition cfg_of (sc : list Z) : cfg :=
  mkCfg (Z.odd (zn sc 0)) (zn sc 1) (zn sc 2) (if zn sc 3 <? 0 then zn sc 1 else zn sc 3) (zn sc 4) (zn sc 5) (z2b (zn sc 6))
        (zn sc 7) (zn sc 8) (zn sc 9) (zn sc 10) (zn sc 11) (z2b (zn sc 12)).

Definition run_script (sc : list Z) : list Z :=
  run_evs (cfg_of sc) (Z.to_nat (zn sc 13)) init (evs_of (zn sc 13) (chunk3 (skipn 14 sc))).
