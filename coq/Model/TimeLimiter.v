(* Model of tower-resilience-timelimiter (src/lib.rs, TimeLimiter::call) at poll
   granularity.  Executable; no proofs here.  Time unit: the script's (millisecond or microsecond).

   What the code does (read from lib.rs:169-281):
   * call(): clones the inner service, reads the timeout for this request
     (config.timeout_source.get_timeout(&req): fixed, or a closure of the request) and the
     mode, and builds the boxed future.  Nothing else happens in call() - no inner call,
     no timer.  (Event Call below is therefore the identity on the model state.)
   * first poll of the future:
       cancel mode     : inner.call(req) is evaluated, tokio::time::timeout(d, fut) is built
                         (deadline = now + d) and polled: the inner future FIRST, the timer
                         second (tokio::time::Timeout::poll).  When the timer wins the
                         Timeout future is dropped, and the inner future with it.
       non-cancel mode : a oneshot channel is created, a task `tx.send(inner.call(req).await)`
                         is spawned (it runs when the executor gets control, i.e. after this
                         poll), then `select! { biased; rx, sleep(d) }`: the receiver is polled
                         first, so a result that is already there wins over the timer (also at
                         and after the deadline).  `result.ok()` maps a closed channel (the task
                         panicked) to None, i.e. to the Timeout error.
   * later polls: the same timeout / select! is polled again.
   The spawned task is run eagerly after every event (the harness yields to quiescence).
   Timer resolution: tokio's timer wheel works in whole milliseconds since the start of the
   runtime; a sleep whose deadline is not on a millisecond tick fires at the NEXT tick
   (time::TimeSource::deadline_to_tick rounds up), and a freshly registered sleep is elapsed at
   once only if that tick has been reached.  `gran` is the tick length in script time units
   (1 when the unit is the millisecond, 1000 when it is the microsecond) and the timer
   deadline of a call is tick_up gran (first poll + timeout). *)
From TR Require Import Lib.Base.

Inductive outcome := OOk | OErr | OPanic.

(* the call future of caller i *)
Inductive cst :=
| Created                (* not polled yet (the future may or may not have been built) *)
| Active (dl : Z)        (* polled, pending; the instant its timer fires *)
| Done
| Dropped.

(* the inner call made for caller i (as the scripted inner service sees it) *)
Inductive ist :=
| INone                  (* inner.call not evaluated (yet) *)
| IRunning               (* inner future exists and has not finished *)
| IFinished (o : outcome)  (* ran to completion with o (never OPanic) *)
| IDropped.              (* dropped before completing (also: unwound by its own panic) *)

Inductive ev :=
| Call (i : nat)
| Poll (i : nat)
| Drop (i : nat)
| Advance (d : Z)
| Complete (i : nat) (o : outcome).

Record cfg := { cancel : bool; tmo : nat -> Z; gran : Z }.

(* the first timer tick at or after x (ticks are the multiples of g; g <= 1: every instant) *)
Definition tick_up (g x : Z) : Z := if g <=? 1 then x else ((x + g - 1) / g) * g.

(* the instant the timer of caller i fires when its future is first polled at instant a *)
Definition deadline (c : cfg) (i : nat) (a : Z) : Z := tick_up (gran c) (a + tmo c i).

(* Calls share nothing but the configuration and the clock (each call future owns its timer,
   its oneshot channel and its inner future), so the state is the clock plus one record per
   caller, and every event except Advance acts on one caller's record only. *)
Record loc := mkLoc {
  lcs : cst;
  linner : ist;
  lgate : option outcome;    (* scripted completion of this caller's inner call *)
  lwoken : bool;             (* wake flag of this caller's waker *)
  larrival : option Z        (* ghost: instant of this caller's first poll *)
}.

Record st := mkSt { now : Z; callers : nat -> loc }.

Definition cs (s : st) (i : nat) : cst := lcs (callers s i).
Definition inner (s : st) (i : nat) : ist := linner (callers s i).
Definition gate (s : st) (i : nat) : option outcome := lgate (callers s i).
Definition woken (s : st) (i : nat) : bool := lwoken (callers s i).
Definition arrival (s : st) (i : nat) : option Z := larrival (callers s i).

Definition upd {A} (f : nat -> A) (i : nat) (v : A) : nat -> A :=
  fun j => if Nat.eqb j i then v else f j.

Definition init_loc : loc :=
  {| lcs := Created; linner := INone; lgate := None; lwoken := false; larrival := None |}.
Definition init : st := {| now := 0; callers := fun _ => init_loc |}.

Definition set_cs (l : loc) (v : cst) : loc :=
  mkLoc v (linner l) (lgate l) (lwoken l) (larrival l).
Definition set_inner (l : loc) (v : ist) : loc :=
  mkLoc (lcs l) v (lgate l) (lwoken l) (larrival l).
Definition set_woken (l : loc) (v : bool) : loc :=
  mkLoc (lcs l) (linner l) (lgate l) v (larrival l).

(* result codes of a poll: 0 pending, 1 Ok, 2 Err(Inner), 3 Err(Timeout), 5 panicked,
   9 nothing to poll; -1 the event was not a poll.  val: the value carried by Ok / Err(Inner)
   (the scripted inner service answers caller i's request with i), else -1 *)
Record obs := { r : Z; val : Z }.
Definition no_obs : obs := {| r := -1; val := -1 |}.
Definition pending : obs := {| r := 0; val := -1 |}.
Definition timed_out : obs := {| r := 3; val := -1 |}.
Definition code (o : outcome) : Z := match o with OOk => 1 | OErr => 2 | OPanic => 5 end.
Definition result (i : nat) (o : outcome) : obs :=
  {| r := code o; val := match o with OPanic => -1 | _ => Z.of_nat i end |}.

(* the inner future is polled and finds its gate open with o *)
Definition finish_inner (l : loc) (o : outcome) : loc :=
  set_inner l (match o with OPanic => IDropped | _ => IFinished o end).

(* cancel mode: Timeout::poll - the inner future first, then the timer *)
Definition poll_cancel (i : nat) (t : Z) (l : loc) (dl : Z) : loc * obs :=
  match lgate l with
  | Some o => (set_cs (finish_inner l o) Done, result i o)
  | None =>
    if dl <=? t
    then (set_cs (set_inner l IDropped) Done, timed_out)
    else (set_cs l (Active dl), pending)
  end.

(* non-cancel mode: biased select! - the oneshot receiver first, then the sleep *)
Definition rx_state (l : loc) : option (option outcome) :=
  match linner l with
  | IFinished o => Some (Some o)     (* the task sent the result *)
  | IDropped => Some None            (* the task panicked: sender dropped, channel closed *)
  | _ => None
  end.

Definition poll_select (i : nat) (t : Z) (l : loc) (dl : Z) : loc * obs :=
  match rx_state l with
  | Some res =>
    (set_cs l Done, match res with Some o => result i o | None => timed_out end)
  | None =>
    if dl <=? t then (set_cs l Done, timed_out)
    else (set_cs l (Active dl), pending)
  end.

(* the spawned task gets to run: it finishes iff its gate is open; the send wakes the
   caller if it is still waiting on the receiver *)
Definition task_run (l : loc) : loc :=
  match linner l, lgate l with
  | IRunning, Some o =>
    let l1 := finish_inner l o in
    match lcs l1 with Active _ => set_woken l1 true | _ => l1 end
  | _, _ => l
  end.

Definition lpoll (c : cfg) (i : nat) (t : Z) (l0 : loc) : loc * obs :=
  let l := set_woken l0 false in
  match lcs l with
  | Created =>
    let dl := deadline c i t in
    let l1 := mkLoc (lcs l) (linner l) (lgate l) (lwoken l) (Some t) in
    if cancel c then poll_cancel i t (set_inner l1 IRunning) dl
    else
      let '(l2, o) := poll_select i t l1 dl in
      (task_run (set_inner l2 IRunning), o)
  | Active dl =>
    if cancel c then poll_cancel i t l dl else poll_select i t l dl
  | Done | Dropped => (l, {| r := 9; val := -1 |})
  end.

Definition ldrop (c : cfg) (l0 : loc) : loc :=
  let l := set_woken l0 false in
  match lcs l with
  | Created => set_cs l Dropped
  | Active _ =>
    if cancel c then set_cs (set_inner l IDropped) Dropped   (* the inner future is inside *)
    else set_cs l Dropped                                    (* the task is detached *)
  | Done | Dropped => l
  end.

Definition timer_fires (t0 t1 : Z) (l : loc) : bool :=
  match lcs l with
  | Active d => (t0 <? d) && (d <=? t1)
  | _ => false
  end.

Definition ladvance (t0 t1 : Z) (l : loc) : loc :=
  set_woken l (lwoken l || timer_fires t0 t1 l).

Definition lcomplete (c : cfg) (l : loc) (o : outcome) : loc :=
  match lgate l with
  | Some _ => l
  | None =>
    let l1 := mkLoc (lcs l) (linner l) (Some o) (lwoken l) (larrival l) in
    if cancel c then
      match lcs l1 with Active _ => set_woken l1 true | _ => l1 end
    else task_run l1
  end.

Definition on (s : st) (i : nat) (l : loc) : st := mkSt (now s) (upd (callers s) i l).

Definition step (c : cfg) (s : st) (e : ev) : st * obs :=
  match e with
  | Call _ => (s, no_obs)
  | Poll i => let '(l, o) := lpoll c i (now s) (callers s i) in (on s i l, o)
  | Drop i => (on s i (ldrop c (callers s i)), no_obs)
  | Advance d =>
    let t1 := now s + Z.max 0 d in
    (mkSt t1 (fun j => ladvance (now s) t1 (callers s j)), no_obs)
  | Complete i o => (on s i (lcomplete c (callers s i) o), no_obs)
  end.

Definition step_st (c : cfg) (s : st) (e : ev) : st := fst (step c s e).
Definition run (c : cfg) (evs : list ev) : st := fold_left (step_st c) evs init.

(* ---- script interface ----
   script = [cancel; dyn; n; T; t_0 .. t_(n-1); (op a b)* ]
     cancel: bit 0 = cancel_running_future(true) (the other bits only select, in the harness, the
     builder call order, through which service value / clone each call is made, and which callers'
     inner calls exhaust tokio's cooperative budget at every poll: the limiter keeps no state
     between calls and must treat a budget-hungry inner call like any other, so the model
     ignores them);
     dyn: bit 0: 0 = timeout_duration(T), 1 = timeout_fn(request i -> t_i); bit 1: the time
     unit of the script is the microsecond (timer ticks every 1000 units) instead of the
     millisecond (bit 2, harness only: every call on a service value of its own that is dropped
     right after call()); callers 0..n-1
     op 1 = Poll a, 2 = Drop a, 3 = Advance a, 6 = Advance a (the harness moves the clock in one
        step instead of millisecond by millisecond),
        4 = Complete a b (b: 0 ok 1 err 2 panic), 5 = Call a; events on callers >= n are skipped;
        7 = the harness polls the service ready for caller a now, ahead of call(): no event here
        (poll_ready only forwards to the inner service) and no trace entry
   trace = per event [r; val; wake mask; inner-call states (base 4, digit j = caller j:
           0 none 1 running 2 finished 3 dropped)] *)
Definition outcome_of (z : Z) : outcome :=
  if z =? 0 then OOk else if z =? 1 then OErr else OPanic.

Definition ev_of (n : nat) (t : Z * Z * Z) : option ev :=
  let '(op, a, b) := t in
  if (op =? 3) || (op =? 6) then Some (Advance a) else
  if negb ((0 <=? a) && (a <? Z.of_nat n)) then None else
  let i := Z.to_nat a in     (* only now: a < n (extraction is strict and Advance amounts are large) *)
  if op =? 1 then Some (Poll i) else
  if op =? 2 then Some (Drop i) else
  if op =? 4 then Some (Complete i (outcome_of b)) else
  if op =? 5 then Some (Call i) else None.

Fixpoint evs_of (n : nat) (l : list (Z * Z * Z)) : list ev :=
  match l with
  | [] => []
  | t :: rest => match ev_of n t with Some e => e :: evs_of n rest | None => evs_of n rest end
  end.

Definition wake_mask (s : st) (total : nat) : Z :=
  fold_left (fun acc j => if woken s j then acc + 2 ^ Z.of_nat j else acc) (seq 0 total) 0.

Definition icode (x : ist) : Z :=
  match x with INone => 0 | IRunning => 1 | IFinished _ => 2 | IDropped => 3 end.

Definition inner_vec (s : st) (total : nat) : Z :=
  fold_left (fun acc j => acc + icode (inner s j) * 4 ^ Z.of_nat j) (seq 0 total) 0.

Fixpoint run_evs (c : cfg) (total : nat) (s : st) (evs : list ev) : list Z :=
  match evs with
  | [] => []
  | e :: rest =>
    let '(s', o) := step c s e in
    [r o; val o; wake_mask s' total; inner_vec s' total] ++ run_evs c total s' rest
  end.

(* configuration, number of callers and event list a script stands for *)
Definition cfg_of (sc : list Z) : cfg :=
  let dyn := Z.odd (zn sc 1) in
  let us := Z.odd (zn sc 1 / 2) in
  {| cancel := Z.odd (zn sc 0);
     tmo := fun i => Z.max 0 (if dyn then zn sc (4 + i) else zn sc 3);
     gran := if us then 1000 else 1 |}.
Definition callers_of (sc : list Z) : nat := Z.to_nat (zn sc 2).
Definition events_of (sc : list Z) : list ev :=
  evs_of (callers_of sc) (chunk3 (skipn (4 + callers_of sc) sc)).

Definition run_script (sc : list Z) : list Z :=
  run_evs (cfg_of sc) (callers_of sc) init (events_of sc).
