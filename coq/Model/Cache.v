(* Model of tower-resilience-cache: Cache::call (src/lib.rs), CacheStore (src/store.rs),
   the three EvictionStore containers (src/eviction.rs; LruStore over lru 0.16's
   LruCache::get/push/pop) and private vs shared stores (src/layer.rs, src/shared_layer.rs).
   Executable; no proofs here.  Time is unit-free in the step function; the script
   interface (bottom of this file) counts microseconds.

   A store is ONE list of entries whose order carries what the containers keep in
   their own structures:
     LRU   list order = recency, least recently used first (lru's tail), MRU last (lru's head);
     FIFO  list order = the VecDeque `order`, front first;
     LFU   list order has no meaning in the code (two HashMaps); the victim among the
           minimal-frequency keys is what HashMap iteration order happens to give —
           the model takes it from an oracle value attached to the Poll event and falls
           back to the first minimal entry when the oracle is not a minimal-frequency key
           (o_bad marks that in the trace).
   e_freq is real state for LFU (`frequencies`), ghost for the other policies;
   e_used (index of the event of the last use: hit, insert or update) and e_ins (index
   of the event that made the key present) are ghosts for all policies — they do not
   influence any decision, the theorems use them to say "least recently used" and
   "first in" independently of the list order. *)
From TR Require Import Lib.Base.

Inductive policy := Lru | Lfu | Fifo.

Record entry := mkE {
  e_key : Z; e_val : Z;
  e_time : Z;            (* CacheEntry::inserted_at *)
  e_freq : Z;
  e_used : Z; e_ins : Z  (* ghosts *)
}.
Definition store := list entry.

Record cfg := { pol : policy; max_size : nat; ttl : option Z; shared : bool }.

(* ---------- containers ---------- *)
Definition has (k : Z) (e : entry) : bool := e_key e =? k.
Definition lookup (k : Z) (s : store) : option entry := find (has k) s.
Definition remove (k : Z) (s : store) : store := filter (fun e => negb (has k e)) s.
Definition replace (k : Z) (e' : entry) (s : store) : store :=
  map (fun e => if has k e then e' else e) s.

(* an access to / update of a present key: LruCache::get and ::push detach the node and
   attach it at the head; LfuStore and FifoStore touch the maps in place *)
Definition place (p : policy) (k : Z) (e' : entry) (s : store) : store :=
  match p with Lru => remove k s ++ [e'] | _ => replace k e' s end.

(* CacheEntry::is_expired: inserted_at.elapsed() > ttl *)
Definition expired (t : option Z) (now : Z) (e : entry) : bool :=
  match t with Some d => d <? now - e_time e | None => false end.

(* LruStore::new: capacity 0 becomes 100; LfuStore/FifoStore::new: capacity.max(1) *)
Definition cap_of (c : cfg) : nat :=
  match pol c with
  | Lru => if (max_size c =? 0)%nat then 100%nat else max_size c
  | _ => Nat.max 1 (max_size c)
  end.

(* lru: `self.len() == self.cap().get()`; LFU/FIFO: `self.data.len() >= self.capacity` *)
Definition full (c : cfg) (s : store) : bool :=
  match pol c with
  | Lru => (length s =? cap_of c)%nat
  | _ => (cap_of c <=? length s)%nat
  end.

Inductive got := Hit (v : Z) | Expired | Absent.

(* CacheStore::get: the container's get runs first (promotes / counts), then the TTL
   check; an expired entry is removed *)
Definition store_get (c : cfg) (now tick : Z) (s : store) (k : Z) : store * got :=
  match lookup k s with
  | None => (s, Absent)
  | Some e =>
    let e' := mkE k (e_val e) (e_time e) (e_freq e + 1) tick (e_ins e) in
    let s1 := place (pol c) k e' s in
    if expired (ttl c) now e then (remove k s1, Expired) else (s1, Hit (e_val e))
  end.

(* LfuStore::find_lfu_key: min_by_key over a HashMap = some key of minimal frequency *)
Definition is_min (s : store) (e : entry) : bool :=
  forallb (fun x => e_freq e <=? e_freq x) s.

Definition lfu_victim (orc : Z) (s : store) : option Z * bool :=
  match find (fun e => has orc e && is_min s e) s with
  | Some _ => (Some orc, false)
  | None => (option_map e_key (find (is_min s) s), true)
  end.

Definition victim_key (p : policy) (orc : Z) (s : store) : option Z * bool :=
  match p with
  | Lfu => lfu_victim orc s
  | _ => (option_map e_key (hd_error s), false)   (* lru tail / order.pop_front() *)
  end.

(* CacheStore::insert -> EvictionStore::insert; result: store, evicted key, bad oracle *)
Definition insert (c : cfg) (orc now tick : Z) (s : store) (k v : Z) : store * option Z * bool :=
  match lookup k s with
  | Some e => (place (pol c) k (mkE k v now (e_freq e + 1) tick (e_ins e)) s, None, false)
  | None =>
    let new := mkE k v now 1 tick tick in
    if full c s then
      match victim_key (pol c) orc s with
      | (Some x, b) => (remove x s ++ [new], Some x, b)
      | (None, b) => (s ++ [new], None, b)
      end
    else (s ++ [new], None, false)
  end.

(* ---------- the service ---------- *)
Inductive outcome := OOk (v : Z) | OErr | OPanic.

Inductive cst :=
| Fresh                          (* no call made for this caller id yet *)
| HitReady (v : Z)               (* call() found a value; future = ready(Ok v) *)
| Running (sid : nat) (k : Z)    (* miss: inner call in flight, will insert under k *)
| Done
| Dropped.

Inductive ev :=
| Call (i : nat) (svc : nat) (k : Z)
| Poll (i : nat) (orc : Z)
| Drop (i : nat)
| Advance (d : Z)
| Complete (i : nat) (o : outcome)
| Nop.

Record st := mkSt {
  now : Z;
  tick : Z;                        (* ghost: number of events so far *)
  stores : nat -> store;           (* one per layer() call; a shared layer uses store 0 only *)
  cs : nat -> cst;
  gate : nat -> option outcome     (* scripted completion of caller i's inner call *)
}.

Record obs := mkObs {
  o_r : Z;                         (* poll result: 0 pending 1 Ok 2 Err(Inner) 5 panicked 9 nothing to poll; -1 no poll *)
  o_val : Z;
  o_started : option nat;          (* the inner service was called on behalf of this caller *)
  o_evt : Z;                       (* listeners: 1 Hit, 2 Miss, 4 Eviction *)
  o_hit : option (nat * Z * Z);            (* store, key, value returned *)
  o_exp : option (nat * Z);                (* store, key found expired and removed *)
  o_stored : option (nat * Z * Z * Z);     (* store, key, value, instant *)
  o_victim : option (nat * Z);             (* store, key evicted by the insert *)
  o_bad : bool                             (* oracle was not a minimal-frequency key *)
}.
Definition no_obs : obs := mkObs (-1) 0 None 0 None None None None false.
Definition poll_obs (r v : Z) : obs := mkObs r v None 0 None None None None false.

Definition upd {A} (f : nat -> A) (i : nat) (v : A) : nat -> A :=
  fun j => if Nat.eqb j i then v else f j.

Definition init (c : cfg) : st :=
  {| now := 0; tick := 0; stores := fun _ => []; cs := fun _ => Fresh; gate := fun _ => None |}.

(* CacheLayer::layer makes a new store per call, SharedCacheLayer::layer clones one Arc;
   Cache::clone always shares *)
Definition sid_of (c : cfg) (svc : nat) : nat := if shared c then O else svc.

Definition set_cs (s : st) (i : nat) (x : cst) : st :=
  mkSt (now s) (tick s) (stores s) (upd (cs s) i x) (gate s).

Definition step0 (c : cfg) (s : st) (e : ev) : st * obs :=
  match e with
  | Call i svc k =>
    match cs s i with
    | Fresh =>
      let sid := sid_of c svc in
      match store_get c (now s) (tick s) (stores s sid) k with
      | (s1, Hit v) =>
        (mkSt (now s) (tick s) (upd (stores s) sid s1) (upd (cs s) i (HitReady v)) (gate s),
         mkObs (-1) 0 None 1 (Some (sid, k, v)) None None None false)
      | (s1, Expired) =>
        (mkSt (now s) (tick s) (upd (stores s) sid s1) (upd (cs s) i (Running sid k)) (gate s),
         mkObs (-1) 0 (Some i) 2 None (Some (sid, k)) None None false)
      | (s1, Absent) =>
        (mkSt (now s) (tick s) (upd (stores s) sid s1) (upd (cs s) i (Running sid k)) (gate s),
         mkObs (-1) 0 (Some i) 2 None None None None false)
      end
    | _ => (s, no_obs)
    end
  | Poll i orc =>
    match cs s i with
    | HitReady v => (set_cs s i Done, poll_obs 1 v)
    | Running sid k =>
      match gate s i with
      | None => (s, poll_obs 0 0)
      | Some (OOk v) =>
        (* lib.rs: was_full = store.len() >= config.max_size, then store.insert *)
        let was_full := (max_size c <=? length (stores s sid))%nat in
        match insert c orc (now s) (tick s) (stores s sid) k v with
        | (s1, vic, b) =>
          (mkSt (now s) (tick s) (upd (stores s) sid s1) (upd (cs s) i Done) (gate s),
           mkObs 1 v None (if was_full then 4 else 0) None None (Some (sid, k, v, now s))
                 (match vic with Some x => Some (sid, x) | None => None end) b)
        end
      | Some OErr => (set_cs s i Done, poll_obs 2 0)
      | Some OPanic => (set_cs s i Done, poll_obs 5 0)
      end
    | _ => (s, poll_obs 9 0)
    end
  | Drop i =>
    match cs s i with
    | HitReady _ | Running _ _ => (set_cs s i Dropped, no_obs)
    | _ => (s, no_obs)
    end
  | Advance d => (mkSt (now s + Z.max 0 d) (tick s) (stores s) (cs s) (gate s), no_obs)
  | Complete i o =>
    match gate s i with
    | Some _ => (s, no_obs)
    | None => (mkSt (now s) (tick s) (stores s) (cs s) (upd (gate s) i (Some o)), no_obs)
    end
  | Nop => (s, no_obs)
  end.

Definition step (c : cfg) (s : st) (e : ev) : st * obs :=
  let '(s1, o) := step0 c s e in
  (mkSt (now s1) (tick s + 1) (stores s1) (cs s1) (gate s1), o).

Definition step_st (c : cfg) (s : st) (e : ev) : st := fst (step c s e).

Definition final (c : cfg) (s : st) (evs : list ev) : st := fold_left (step_st c) evs s.

Fixpoint trace (c : cfg) (s : st) (evs : list ev) : list obs :=
  match evs with
  | [] => []
  | e :: rest => snd (step c s e) :: trace c (step_st c s e) rest
  end.

(* ---- script interface ----
   The step function is unit-free in time; a script counts MICROSECONDS, or NANOSECONDS when (sh / 8) is odd
   ("fine unit" below; U = fine units per millisecond = 1000 or 1000000).
   script = [policy (0 LRU, 1 LFU, 2 FIFO); max_size; ttl (-1 none); sh; n callers; m events; (op a b)*m; oracle*m]
     sh mod 4: 0 private (CacheLayer, one store per layer() call), 1 SharedCacheLayer::builder,
               2 and 3 CacheLayer::shared();
     (sh / 4) odd: the ttl field is in fine units, otherwise in milliseconds;
     (sh / 8) odd: the fine unit is the nanosecond, otherwise the microsecond
     op 0 = Call a on service b/8 with key b mod 8 (0 <= b < 16), through a fresh clone of the service
        5 = Call a with key b mod 128 (< 120) on service (b/128) mod 2, 0 <= b < 512; b/256 = 1: through the
            long-lived service value itself instead of a fresh clone (no difference in the model:
            Cache::clone shares the store and a Cache value has no other state)
        7 = Call a with key b mod 256 (< 240) on service (b/256) mod 2, 0 <= b < 1024; b/512 = 1: long-lived value
        1 = Poll a   2 = Drop a
        3 = Advance a ms (0..100000)      6 = Advance a fine units (0..10^12)
        4 = Complete a b (b > 0: Ok b, b = 0: Err, b < 0: panic)
     anything else / caller id out of range = Nop (still one trace record)
     oracle j: key that left the store during event j of the implementation run (-1 none);
               read only when an LFU insert has to evict
   trace = per event [r; value; inner calls started; inner calls in flight;
                      listener events (+64: bad oracle);
                      keys present in store 0 (two words: bit k of the first = key k < 120, bit k of the
                      second = key 120 + k); in store 1 (two words)     (harness: live key instances)
                      values present in store 0 (two words); in store 1 (two words)
                                  (a response stored under key k; harness: live response instances)] *)
Definition clampz (lo hi x : Z) : Z := Z.max lo (Z.min hi x).

Definition ev_of (u : Z) (n : nat) (t : Z * Z * Z) (orc : Z) : ev :=
  let '(op, a, b) := t in
  if op =? 3 then Advance (u * clampz 0 100000 a) else
  if op =? 6 then Advance (clampz 0 1000000000000 a) else
  if (a <? 0) || (Z.of_nat n <=? a) then Nop else
  let i := Z.to_nat a in     (* a < n: small (and never computed for the arguments of an Advance) *)
  if op =? 0 then
    (if (b <? 0) || (16 <=? b) then Nop
     else if b <? 8 then Call i 0%nat b else Call i 1%nat (b - 8)) else
  if op =? 5 then
    (if (b <? 0) || (512 <=? b) || (120 <=? b mod 128) then Nop
     else Call i (Z.to_nat ((b / 128) mod 2)) (b mod 128)) else
  if op =? 7 then
    (if (b <? 0) || (1024 <=? b) || (240 <=? b mod 256) then Nop
     else Call i (Z.to_nat ((b / 256) mod 2)) (b mod 256)) else
  if op =? 1 then Poll i orc else
  if op =? 2 then Drop i else
  if op =? 4 then Complete i (if 0 <? b then OOk b else if b =? 0 then OErr else OPanic) else Nop.

Fixpoint evs_of (u : Z) (n : nat) (l : list (Z * Z * Z)) (orcs : list Z) : list ev :=
  match l with
  | [] => []
  | t :: rest => ev_of u n t (hd 0 orcs) :: evs_of u n rest (tl orcs)
  end.

Definition is_running (x : cst) : bool := match x with Running _ _ => true | _ => false end.

Definition inflight (s : st) (n : nat) : Z :=
  Z.of_nat (length (filter (fun i => is_running (cs s i)) (seq 0 n))).

(* one bit per entry (keys are unique in a store: Proof/Cache.v keys_nodup), in two words *)
Definition pow2_tab : list Z := map (fun k => 2 ^ Z.of_nat k) (seq 0 120).
(* 2 ^ k, read from the table for 0 <= k < 120 *)
Definition pow2 (k : Z) : Z :=
  if (0 <=? k) && (k <? 120) then nth (Z.to_nat k) pow2_tab 0 else 2 ^ k.

Definition pres_mask (s : store) : Z * Z :=
  fold_left (fun acc e =>
               if e_key e <? 120 then (fst acc + pow2 (e_key e), snd acc)
               else (fst acc, snd acc + pow2 (e_key e - 120))) s (0, 0).

(* what one trace record shows of an observation and the state after it; `infl` = number of
   callers 0..n-1 whose inner call is in flight after the event *)
Definition render (infl : Z) (o : obs) (s' : st) : list Z :=
  let m0 := pres_mask (stores s' 0%nat) in
  let m1 := pres_mask (stores s' 1%nat) in
  [o_r o; o_val o; match o_started o with Some _ => 1 | None => 0 end; infl;
   o_evt o + (if o_bad o then 64 else 0);
   fst m0; snd m0; fst m1; snd m1; fst m0; snd m0; fst m1; snd m1].

(* an event changes the state of at most one caller, so the in-flight count is maintained
   incrementally (Proof/Cache.v inflight_step: it is `inflight` of the state after the event) *)
Definition ev_caller (e : ev) : option nat :=
  match e with
  | Call i _ _ | Poll i _ | Drop i | Complete i _ => Some i
  | _ => None
  end.

Definition b2z (b : bool) : Z := if b then 1 else 0.

Definition infl_delta (n : nat) (s s' : st) (e : ev) : Z :=
  match ev_caller e with
  | Some i => if (i <? n)%nat then b2z (is_running (cs s' i)) - b2z (is_running (cs s i)) else 0
  | None => 0
  end.

Fixpoint run_evs (c : cfg) (n : nat) (s : st) (infl : Z) (evs : list ev) : list Z :=
  match evs with
  | [] => []
  | e :: rest =>
    let '(s', o) := step c s e in
    let infl' := infl + infl_delta n s s' e in
    render infl' o s' ++ run_evs c n s' infl' rest
  end.

(* fine units per millisecond *)
Definition unit_of (sc : list Z) : Z := if Z.odd (zn sc 3 / 8) then 1000000 else 1000.

Definition cfg_of (sc : list Z) : cfg :=
  {| pol := if zn sc 0 =? 1 then Lfu else if zn sc 0 =? 2 then Fifo else Lru;
     (* max_size is just a number; a script names at most 240 keys per store, so every bound above that behaves
        alike: the driver's usize::MAX and usize::MAX/2 (the script carries 2^64-1, 2^63-1) are read as 10^6 *)
     max_size := Z.to_nat (Z.min (zn sc 1) 1000000);
     ttl := if zn sc 2 <? 0 then None
            else Some (if Z.odd (zn sc 3 / 4) then zn sc 2 else unit_of sc * zn sc 2);
     shared := negb (zn sc 3 mod 4 =? 0) |}.

Definition run_script (sc : list Z) : list Z :=
  let c := cfg_of sc in
  let n := Z.to_nat (zn sc 4) in
  let m := Z.to_nat (zn sc 5) in
  let body := skipn 6 sc in
  let evs := evs_of (unit_of sc) n (chunk3 (firstn (3 * m)%nat body)) (skipn (3 * m)%nat body) in
  run_evs c n (init c) 0 evs.
