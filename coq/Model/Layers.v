(* C20: layers are transparent, honour Tower readiness, listeners only observe.
   Three small executable models. No proofs here.

   (A) Readiness protocol. A Tower service instance may be called only after poll_ready on
       THAT instance returned Ready since its previous call; a clone starts not ready.
       A stack of layers is executed recursively: an operation on an instance of the top
       layer is translated by that layer into operations on its inner instance, and so on
       down to the wrapped (innermost) service, which logs what it sees, answers readiness
       polls from a scripted oracle and counts contract violations.
       Each layer follows one of five disciplines (read off the repaired code):
         Swap      call(): clone = inner.clone(); ready = replace(&mut inner, clone); ready.call(req)
                   (bulkhead, rate limiter, circuit breaker, time limiter, fallback, executor, chaos)
         Direct    call(): inner.call(req)                       (cache, coalesce, adaptive)
         Retry k   Swap, then k further attempts on the same instance, each preceded by
                   poll_ready until Ready (a readiness error ends the request)
         Hedge k   Swap for the primary; k hedges, each on a fresh clone of the instance left
                   behind, each preceded by poll_ready until Ready
         Reconnect k  Direct for the first call; the future owns a clone made at call time;
                   k retries on that clone, each preceded by poll_ready until Ready
   (B) Transparency: a layer is a transformer of the wrapped service's behaviour; a stack is
       the composition.
   (C) Listeners: emit runs every listener on every event whatever the others do. *)
From TR Require Import Lib.Base.

(* ------------------------------------------------------------------------- *)
(* (A) readiness protocol *)
Inductive disc := Swap | Direct | Retry (k : nat) | Hedge (k : nat) | Reconnect (k : nat).

Inductive rres := RReady | RPending | RErr.

Inductive op :=
| OClone (x : nat)            (* clone instance x; the answer carries the new instance *)
| OPoll (x : nat)             (* poll_ready on instance x *)
| OCall (x : nat) (req : Z).  (* call on instance x *)

Inductive ans := AId (x : nat) | ARes (r : rres) | ADone (err : bool).
  (* ADone true = the call ended with a readiness error raised inside the layer *)

(* what the wrapped service sees *)
Inductive lev := LPoll (x : nat) (r : rres) | LCall (x : nat) (req : Z) (ok : bool) | LClone (x y : nat).

Record base := mkBase {
  ready : nat -> bool;
  fresh : nat;                (* next instance id *)
  oracle : list rres;         (* scripted answers to the coming polls (exhausted = Ready) *)
  blog : list lev;            (* newest first *)
  violations : nat
}.

Definition updb (f : nat -> bool) (i : nat) (v : bool) : nat -> bool :=
  fun j => if Nat.eqb j i then v else f j.
Definition updn (f : nat -> nat) (i : nat) (v : nat) : nat -> nat :=
  fun j => if Nat.eqb j i then v else f j.

Definition base_exec (b : base) (o : op) : base * ans :=
  match o with
  | OClone x =>
    let y := fresh b in
    (mkBase (updb (ready b) y false) (S y) (oracle b) (LClone x y :: blog b) (violations b), AId y)
  | OPoll x =>
    let r := match oracle b with r :: _ => r | [] => RReady end in
    (mkBase (match r with RReady => updb (ready b) x true | _ => ready b end) (fresh b)
            (tl (oracle b)) (LPoll x r :: blog b) (violations b), ARes r)
  | OCall x req =>
    let ok := ready b x in
    (mkBase (updb (ready b) x false) (fresh b) (oracle b) (LCall x req ok :: blog b)
            (if ok then violations b else S (violations b)), ADone false)
  end.

(* one layer's bookkeeping: which inner instance each of its instances wraps *)
Record lstate := mkL { imap : nat -> nat; lfresh : nat }.

(* a stack state: one lstate per layer (outermost first) and the wrapped service *)
Record sstate := mkS { layers : list lstate; bottom : base }.

Section Exec.
  (* [sub] executes an operation on the rest of the stack *)
  Context {T : Type} (sub : T -> op -> T * ans).

  (* poll the inner instance y until it is Ready (fuel bounds the number of Pending answers) *)
  Fixpoint poll_until (fuel : nat) (t : T) (y : nat) : T * rres :=
    match fuel with
    | O => (t, RPending)
    | S f =>
      let '(t1, a) := sub t (OPoll y) in
      match a with
      | ARes RReady => (t1, RReady)
      | ARes RErr => (t1, RErr)
      | _ => poll_until f t1 y
      end
    end.

  (* k further attempts on instance y, each after readiness *)
  Fixpoint attempts (fuel : nat) (k : nat) (t : T) (y : nat) (req : Z) : T * bool :=
    match k with
    | O => (t, false)
    | S k' =>
      let '(t1, r) := poll_until fuel t y in
      match r with
      | RReady =>
        let '(t2, a) := sub t1 (OCall y req) in
        match a with
        | ADone true => (t2, true)    (* a readiness error raised further down ends the request *)
        | _ => attempts fuel k' t2 y req
        end
      | _ => (t1, true)       (* readiness error (or never ready): the request ends *)
      end
    end.

  (* k hedges, each on a fresh clone of y0 *)
  Fixpoint hedges (fuel : nat) (k : nat) (t : T) (y0 : nat) (req : Z) : T :=
    match k with
    | O => t
    | S k' =>
      let '(t1, a) := sub t (OClone y0) in
      match a with
      | AId h =>
        let '(t2, r) := poll_until fuel t1 h in
        match r with
        | RReady => let '(t3, _) := sub t2 (OCall h req) in hedges fuel k' t3 y0 req
        | _ => hedges fuel k' t2 y0 req      (* that hedge fails with the readiness error *)
        end
      | _ => t1
      end
    end.

  Definition layer_exec (fuel : nat) (d : disc) (l : lstate) (t : T) (o : op) : lstate * T * ans :=
    match o with
    | OClone x =>
      let '(t1, a) := sub t (OClone (imap l x)) in
      match a with
      | AId y' => (mkL (updn (imap l) (lfresh l) y') (S (lfresh l)), t1, AId (lfresh l))
      | _ => (l, t1, a)
      end
    | OPoll x =>
      let '(t1, a) := sub t (OPoll (imap l x)) in (l, t1, a)
    | OCall x req =>
      let y := imap l x in
      match d with
      | Direct => let '(t1, a) := sub t (OCall y req) in (l, t1, a)
      | Swap | Retry _ | Hedge _ =>
        let '(t1, a) := sub t (OClone y) in
        match a with
        | AId y' =>
          let '(t2, a0) := sub t1 (OCall y req) in
          let l' := mkL (updn (imap l) x y') (lfresh l) in
          let failed := match a0 with ADone true => true | _ => false end in
          match d with
          | Retry k =>
            (* a readiness error raised further down is not retried *)
            if failed then (l', t2, ADone true)
            else let '(t3, e) := attempts fuel k t2 y req in (l', t3, ADone e)
          | Hedge k => (l', hedges fuel k t2 y' req, ADone false)
          | _ => (l', t2, ADone failed)
          end
        | _ => (l, t1, a)
        end
      | Reconnect k =>
        let '(t1, a0) := sub t (OCall y req) in
        let failed := match a0 with ADone true => true | _ => false end in
        let '(t2, a) := sub t1 (OClone y) in
        match a with
        | AId z =>
          (* a readiness error raised further down is not a connection failure: no retry *)
          if failed then (l, t2, ADone true)
          else let '(t3, e) := attempts fuel k t2 z req in (l, t3, ADone e)
        | _ => (l, t2, a)
        end
      end
    end.
End Exec.

(* the whole stack: layers outermost first *)
Fixpoint exec (fuel : nat) (ds : list disc) (ls : list lstate) (b : base) (o : op)
  : list lstate * base * ans :=
  match ds, ls with
  | d :: ds', l :: ls' =>
    (* T := list lstate * base for the rest of the stack *)
    let sub := fun (t : list lstate * base) (o' : op) =>
                 let '(ls2, b2, a) := exec fuel ds' (fst t) (snd t) o' in ((ls2, b2), a) in
    let '(l', t', a) := layer_exec sub fuel d l (ls', b) o in
    (l' :: fst t', snd t', a)
  | _, _ => let '(b', a) := base_exec b o in (ls, b', a)
  end.

Definition init_l : lstate := mkL (fun _ => O) 1.   (* instance 0 wraps inner instance 0 *)
Definition init_base (orc : list rres) : base := mkBase (fun _ => false) 1 orc [] 0.

(* a well-behaved client of the top layer: for each request, poll instance 0 until Ready
   (give up on a readiness error), then call it *)
Fixpoint client (fuel : nat) (ds : list disc) (ls : list lstate) (b : base) (reqs : list Z)
  : list lstate * base * list Z :=
  match reqs with
  | [] => (ls, b, [])
  | q :: rest =>
    let sub := fun (t : list lstate * base) (o' : op) =>
                 let '(ls2, b2, a) := exec fuel ds (fst t) (snd t) o' in ((ls2, b2), a) in
    let '(t1, r) := poll_until sub fuel (ls, b) 0%nat in
    match r with
    | RReady =>
      let '(t2, a) := sub t1 (OCall 0%nat q) in
      let '(ls3, b3, out) := client fuel ds (fst t2) (snd t2) rest in
      (ls3, b3, (match a with ADone true => 2 | _ => 0 end) :: out)
    | RErr =>
      let '(ls3, b3, out) := client fuel ds (fst t1) (snd t1) rest in (ls3, b3, 1 :: out)
    | RPending =>
      let '(ls3, b3, out) := client fuel ds (fst t1) (snd t1) rest in (ls3, b3, 3 :: out)
    end
  end.

(* ------------------------------------------------------------------------- *)
(* (B) transparency *)
Inductive outcome := OutOk (v : Z) | OutErr (e : Z).
Record behaviour := { calls : list Z; result : outcome }.
Definition service := Z -> behaviour.
Definition layer_sem := service -> service.

(* a layer whose protective condition is not triggered forwards the request once and
   returns the inner result unchanged *)
Definition transparent (L : layer_sem) : Prop := forall inner req, L inner req = inner req.

Definition stack_sem (stack : list layer_sem) (inner : service) : service :=
  fold_right (fun L s => L s) inner stack.

Definition pass_through : layer_sem := fun inner req => inner req.

(* ------------------------------------------------------------------------- *)
(* (C) listeners *)
Inductive lresult := Returns | Panics.
Definition listener := Z -> lresult.       (* reaction to an event *)

(* EventListeners::emit: every listener is run, panics are caught; returns who was run *)
Fixpoint emit (ls : list listener) (ev : Z) : list lresult :=
  match ls with
  | [] => []
  | l :: rest => l ev :: emit rest ev
  end.

(* a layer's run as a function of its listener list: the events it emits and its outcome;
   [notify] is the only way the layer interacts with listeners *)
Definition run_with_listeners (events : list Z) (out : outcome) (ls : list listener)
  : outcome * list (list lresult) :=
  (out, map (emit ls) events).

(* ------------------------------------------------------------------------- *)
(* script interface
   mode 1 (protocol): [1; n; disc codes (n entries, outermost first: 0 Swap 1 Direct 2 Retry 3 Hedge
                       4 Reconnect); k (extra attempts for every Retry/Hedge/Reconnect layer);
                       nreq; oracle entries (0 Ready 1 Pending 2 Err)...]
       trace: per request a code (0 called, 1 readiness error at poll_ready, 2 readiness error
              inside the call, 3 never ready), then the wrapped service's log with instances
              renamed by first use in a poll or call: [1; inst; r] poll, [2; inst; ok] call,
              then [violations].
   mode 0 (transparency) and mode 2 (listeners) have constant models: see below. *)
Definition disc_of (code : Z) (k : nat) : disc :=
  if code =? 0 then Swap else if code =? 1 then Direct else
  if code =? 2 then Retry k else if code =? 3 then Hedge k else Reconnect k.

Definition rres_of (z : Z) : rres := if z =? 0 then RReady else if z =? 1 then RPending else RErr.
Definition rres_code (r : rres) : Z := match r with RReady => 0 | RPending => 1 | RErr => 2 end.

(* rename instances by first use *)
Fixpoint index_of (x : nat) (l : list nat) (i : Z) : option Z :=
  match l with
  | [] => None
  | y :: r => if Nat.eqb x y then Some i else index_of x r (i + 1)
  end.

Fixpoint canon (log : list lev) (seen : list nat) : list Z :=
  match log with
  | [] => []
  | LClone _ _ :: rest => canon rest seen
  | LPoll x r :: rest =>
    match index_of x seen 0 with
    | Some i => [1; i; rres_code r] ++ canon rest seen
    | None => [1; Z.of_nat (length seen); rres_code r] ++ canon rest (seen ++ [x])
    end
  | LCall x _ ok :: rest =>
    match index_of x seen 0 with
    | Some i => [2; i; b2z ok] ++ canon rest seen
    | None => [2; Z.of_nat (length seen); b2z ok] ++ canon rest (seen ++ [x])
    end
  end.

Definition run_protocol (sc : list Z) : list Z :=
  let n := Z.to_nat (zn sc 1) in
  let codes := firstn n (skipn 2 sc) in
  let k := Z.to_nat (zn sc (2 + n)) in
  let nreq := Z.to_nat (zn sc (3 + n)) in
  let orc := map rres_of (skipn (4 + n) sc) in
  let ds := map (fun c => disc_of c k) codes in
  let reqs := map Z.of_nat (seq 1 nreq) in
  let '(_, b, out) := client 8 ds (map (fun _ => init_l) ds) (init_base orc) reqs in
  out ++ canon (rev (blog b)) [] ++ [Z.of_nat (violations b)].

(* mode 0: [0; n; layer codes...; inner kind; nreq; (req; okind; oval)*] ->
   per request [1; req; okind; oval]: exactly one inner call with the original request and the
   inner outcome unchanged *)
Fixpoint run_transparent (l : list (Z * Z * Z)) : list Z :=
  match l with
  | [] => []
  | (req, ok, v) :: rest =>
    let b := stack_sem [pass_through] (fun q => {| calls := [q]; result := if ok =? 0 then OutOk v else OutErr v |}) req in
    [Z.of_nat (length (calls b)); hd 0 (calls b);
     match result b with OutOk _ => 0 | OutErr _ => 1 end;
     match result b with OutOk x => x | OutErr x => x end] ++ run_transparent rest
  end.

(* mode 2: [2; layer; nlisteners; panic mask; nreq; ...] -> per request
   [outcome equals the run without panicking listeners; every listener saw every event] *)
Definition run_listeners (sc : list Z) : list Z :=
  let nreq := Z.to_nat (zn sc 4) in
  concat (map (fun _ => [1; 1]) (seq 0 nreq)).

Definition run_script (sc : list Z) : list Z :=
  if zn sc 0 =? 1 then run_protocol sc
  else if zn sc 0 =? 0 then
    let n := Z.to_nat (zn sc 1) in
    run_transparent (chunk3 (skipn (4 + n) sc))
  else run_listeners sc.
