(* C20: layers are transparent, honour Tower readiness, listeners only observe.
   Executable models. No proofs here.

   (A) Readiness protocol. A Tower service instance may be called only after poll_ready on
       THAT instance returned Ready since its previous call; a clone starts not ready.
       A stack of layers is executed recursively: an operation on an instance of the top
       layer is translated by that layer into operations on its inner instance, and so on
       down to the wrapped (innermost) service, which logs what it sees, answers readiness
       polls from a scripted oracle and counts contract violations.
       Each layer follows one of five disciplines (read off the repaired code):
         Swap      call(): clone = inner.clone(); ready = replace(&mut inner, clone); ready.call(req)
                   (bulkhead, rate limiter, circuit breaker, time limiter, fallback, executor, chaos)
         Direct    call(): inner.call(req)                       (cache, coalesce, adaptive)
         Retry k   Swap, then k further attempts on the same instance, each preceded by
                   poll_ready until Ready (a readiness error ends the request)
         Hedge k   Swap for the primary; k hedges, each on a fresh clone of the instance left
                   behind, each preceded by poll_ready until Ready
         Reconnect k  Direct for the first call; the future owns a clone made at call time;
                   k retries on that clone, each preceded by poll_ready until Ready
       Clients: [client] (one long-lived handle, one request after the other: mode 1) and
       [run_cops] (any program of poll / call / clone operations over any number of handles,
       the interpreter refusing a call on a handle it has not polled ready: mode 3).
   (B) Transparency: a layer is a transformer of the wrapped service's behaviour; a stack is
       the composition; the per-layer semantics are instantiated from the per-layer models in
       Model/LayerSem.v.
   (C) Listeners: a layer run emits events through [emit], which runs every listener on every
       event and contains their panics; the outcome of the run is COMPUTED through it. *)
From TR Require Import Lib.Base.

(* ------------------------------------------------------------------------- *)
(* (A) readiness protocol *)
(* [dflt] = the retrying layer is configured with the crate's DEFAULT predicate (retry / reconnect on
   every error) instead of one that only accepts the wrapped service's transient errors (the driver's
   retry_on(kind == TRANSIENT), reconnect_predicate("E kind=1 ...")) *)
Inductive disc :=
| Swap | Direct
| Retry (k : nat) (dflt : bool)       (* max_attempts = k + 1 *)
| Hedge (k : nat)                     (* every hedge is started whatever the earlier attempts answer
                                         (parallel mode; latency mode with a delay shorter than a call) *)
| HedgeSeq (k : nat)                  (* latency mode with a delay longer than a call: the next hedge is
                                         started only after all earlier attempts have failed *)
| Reconnect (k : nat) (dflt : bool).  (* max_attempts = k + 1 reconnections *)

Inductive rres := RReady | RPending | RErr.

(* how a call ended: with the wrapped service's Ok answer; with an error -- the wrapped service's own
   transient or application error, a readiness error raised inside a layer (or further down), an
   error made up by a layer (retries exhausted: reconnect's MaxAttemptsExceeded, hedge's
   AllAttemptsFailed) --; or never (a layer polls an instance that stays Pending for ever) *)
Inductive ekind := KTransient | KApp | KReady | KLayer.
Inductive cres := COk | CErr (e : ekind) | CHang.

Inductive op :=
| OClone (x : nat)            (* clone instance x; the answer carries the new instance *)
| OPoll (x : nat)             (* poll_ready on instance x *)
| OCall (x : nat) (req : Z).  (* call on instance x *)

Inductive ans := AId (x : nat) | ARes (r : rres) | ADone (c : cres).

(* what the wrapped service sees *)
Inductive lev := LPoll (x : nat) (r : rres) | LCall (x : nat) (req : Z) (ok : bool) (res : cres) | LClone (x y : nat).

Record base := mkBase {
  ready : nat -> bool;
  fresh : nat;                (* next instance id *)
  oracle : list rres;         (* shared oracle: answers to the coming polls in order (exhausted = Ready) *)
  pmode : bool;               (* true: per-instance oracle [porc] instead of the shared one *)
  porc : list (list rres);    (* per-instance oracle: the c-th list holds the answers still to be given to
                                 the polls of the instance that was the c-th to be used (poll or call) *)
  seen : list nat;            (* instances in order of first use *)
  blog : list lev;            (* newest first *)
  violations : nat;
  kfail : nat;                (* the first kfail calls made for a request fail with a transient error *)
  appm : Z;                   (* bit j-1 set: every call for request j fails with an application error *)
  acnt : Z -> nat             (* calls made so far for each request *)
}.

Definition updb (f : nat -> bool) (i : nat) (v : bool) : nat -> bool :=
  fun j => if Nat.eqb j i then v else f j.
Definition updn (f : nat -> nat) (i : nat) (v : nat) : nat -> nat :=
  fun j => if Nat.eqb j i then v else f j.

(* position of x in l (length l when absent) *)
Fixpoint pos_of (x : nat) (l : list nat) : nat :=
  match l with
  | [] => O
  | y :: r => if Nat.eqb x y then O else S (pos_of x r)
  end.
Definition note (x : nat) (l : list nat) : list nat :=
  if existsb (Nat.eqb x) l then l else l ++ [x].

(* consume the head of the c-th list *)
Fixpoint drop_at (c : nat) (l : list (list rres)) : list (list rres) :=
  match l with
  | [] => []
  | h :: r => match c with O => tl h :: r | S c' => h :: drop_at c' r end
  end.

Definition head_or_ready (l : list rres) : rres := match l with r :: _ => r | [] => RReady end.

(* the wrapped service's answer to the next poll_ready on instance x *)
Definition answer (b : base) (x : nat) : rres :=
  if pmode b then head_or_ready (nth (pos_of x (seen b)) (porc b) [])
  else head_or_ready (oracle b).

Definition updz (f : Z -> nat) (q : Z) (v : nat) : Z -> nat :=
  fun p => if Z.eqb p q then v else f p.

(* the wrapped service's answer to a call for request req *)
Definition call_result (b : base) (req : Z) : cres :=
  if Z.testbit (appm b) (req - 1) then CErr KApp
  else if Nat.ltb (acnt b req) (kfail b) then CErr KTransient else COk.

Definition base_exec (b : base) (o : op) : base * ans :=
  match o with
  | OClone x =>
    let y := fresh b in
    (mkBase (updb (ready b) y false) (S y) (oracle b) (pmode b) (porc b) (seen b)
            (LClone x y :: blog b) (violations b) (kfail b) (appm b) (acnt b), AId y)
  | OPoll x =>
    let r := answer b x in
    (mkBase (match r with RReady => updb (ready b) x true | _ => ready b end) (fresh b)
            (tl (oracle b)) (pmode b) (drop_at (pos_of x (seen b)) (porc b)) (note x (seen b))
            (LPoll x r :: blog b) (violations b) (kfail b) (appm b) (acnt b), ARes r)
  | OCall x req =>
    let ok := ready b x in
    let res := call_result b req in
    (mkBase (updb (ready b) x false) (fresh b) (oracle b) (pmode b) (porc b) (note x (seen b))
            (LCall x req ok res :: blog b)
            (if ok then violations b else S (violations b)) (kfail b) (appm b)
            (updz (acnt b) req (S (acnt b req))), ADone res)
  end.

(* one layer's bookkeeping: which inner instance each of its instances wraps *)
Record lstate := mkL { imap : nat -> nat; lfresh : nat }.

Section Exec.
  (* [sub] executes an operation on the rest of the stack *)
  Context {T : Type} (sub : T -> op -> T * ans).

  (* poll the inner instance y until it is Ready (fuel bounds the number of Pending answers) *)
  Fixpoint poll_until (fuel : nat) (t : T) (y : nat) : T * rres :=
    match fuel with
    | O => (t, RPending)
    | S f =>
      let '(t1, a) := sub t (OPoll y) in
      match a with
      | ARes RReady => (t1, RReady)
      | ARes RErr => (t1, RErr)
      | _ => poll_until f t1 y
      end
    end.

  Definition cres_of (a : ans) : cres := match a with ADone c => c | _ => COk end.
  Definition is_ok (c : cres) : bool := match c with COk => true | _ => false end.

  Definition retryable (dflt : bool) (e : ekind) : bool :=
    if dflt then true else match e with KTransient => true | _ => false end.

  (* the retry loop of Retry / of ReconnectFuture after a call on instance y ended with c: while the
     error is one the predicate accepts and attempts are left: [backoff,] poll_ready until Ready --
     a readiness ERROR ends the request with that error, whatever the predicate --, call again.
     [lay]: when the attempts are exhausted the layer gives up with an error of its own
     (reconnect: MaxAttemptsExceeded) instead of returning the last error (retry) *)
  Fixpoint rloop (fuel : nat) (dflt lay : bool) (rem : nat) (t : T) (y : nat) (req : Z) (c : cres)
    : T * cres :=
    match c with
    | CErr e =>
      if retryable dflt e then
        match rem with
        | O => (t, if lay then CErr KLayer else c)
        | S rem' =>
          let '(t1, r) := poll_until fuel t y in
          match r with
          | RReady =>
            let '(t2, a) := sub t1 (OCall y req) in rloop fuel dflt lay rem' t2 y req (cres_of a)
          | RErr => (t1, CErr KReady)    (* the layer's own failed readiness check ends the request *)
          | RPending => (t1, CHang)      (* never ready (fuel exhausted): the request never completes *)
          end
        end
      else (t, c)
    | _ => (t, c)
    end.

  (* k hedges, each on a fresh clone of y0, all of them started; [anyok]: some attempt answered Ok *)
  Fixpoint hedges (fuel : nat) (k : nat) (t : T) (y0 : nat) (req : Z) (anyok : bool) : T * bool :=
    match k with
    | O => (t, anyok)
    | S k' =>
      let '(t1, a) := sub t (OClone y0) in
      match a with
      | AId h =>
        let '(t2, r) := poll_until fuel t1 h in
        match r with
        | RReady =>
          let '(t3, a3) := sub t2 (OCall h req) in
          hedges fuel k' t3 y0 req (anyok || is_ok (cres_of a3))
        | _ => hedges fuel k' t2 y0 req anyok      (* that hedge fails with the readiness error *)
        end
      | _ => (t1, anyok)
      end
    end.

  (* k hedges one after the other, the next one only after the previous attempt has failed *)
  Fixpoint hseq (fuel : nat) (k : nat) (t : T) (y0 : nat) (req : Z) : T * bool :=
    match k with
    | O => (t, false)
    | S k' =>
      let '(t1, a) := sub t (OClone y0) in
      match a with
      | AId h =>
        let '(t2, r) := poll_until fuel t1 h in
        match r with
        | RReady =>
          let '(t3, a3) := sub t2 (OCall h req) in
          if is_ok (cres_of a3) then (t3, true) else hseq fuel k' t3 y0 req
        | _ => hseq fuel k' t2 y0 req
        end
      | _ => (t1, false)
      end
    end.

  (* hedge reports every failure of all its attempts as AllAttemptsFailed, an error of its own *)
  Definition hedge_result (anyok : bool) : cres := if anyok then COk else CErr KLayer.

  Definition layer_exec (fuel : nat) (d : disc) (l : lstate) (t : T) (o : op) : lstate * T * ans :=
    match o with
    | OClone x =>
      let '(t1, a) := sub t (OClone (imap l x)) in
      match a with
      | AId y' => (mkL (updn (imap l) (lfresh l) y') (S (lfresh l)), t1, AId (lfresh l))
      | _ => (l, t1, a)
      end
    | OPoll x =>
      let '(t1, a) := sub t (OPoll (imap l x)) in (l, t1, a)
    | OCall x req =>
      let y := imap l x in
      match d with
      | Direct => let '(t1, a) := sub t (OCall y req) in (l, t1, ADone (cres_of a))
      | Swap | Retry _ _ | Hedge _ | HedgeSeq _ =>
        let '(t1, a) := sub t (OClone y) in
        match a with
        | AId y' =>
          let '(t2, a0) := sub t1 (OCall y req) in
          let l' := mkL (updn (imap l) x y') (lfresh l) in
          match d with
          | Retry k dflt =>
            let '(t3, e) := rloop fuel dflt false k t2 y req (cres_of a0) in (l', t3, ADone e)
          | Hedge k =>
            let '(t3, ok) := hedges fuel k t2 y' req (is_ok (cres_of a0)) in (l', t3, ADone (hedge_result ok))
          | HedgeSeq k =>
            if is_ok (cres_of a0) then (l', t2, ADone COk)
            else let '(t3, ok) := hseq fuel k t2 y' req in (l', t3, ADone (hedge_result ok))
          | _ => (l', t2, ADone (cres_of a0))
          end
        | _ => (l, t1, a)
        end
      | Reconnect k dflt =>
        let '(t1, a0) := sub t (OCall y req) in
        let '(t2, a) := sub t1 (OClone y) in
        match a with
        | AId z =>
          let '(t3, e) := rloop fuel dflt true (S k) t2 z req (cres_of a0) in (l, t3, ADone e)
        | _ => (l, t2, a)
        end
      end
    end.
End Exec.

(* the whole stack: layers outermost first *)
Fixpoint exec (fuel : nat) (ds : list disc) (ls : list lstate) (b : base) (o : op)
  : list lstate * base * ans :=
  match ds, ls with
  | d :: ds', l :: ls' =>
    (* T := list lstate * base for the rest of the stack *)
    let sub := fun (t : list lstate * base) (o' : op) =>
                 let '(ls2, b2, a) := exec fuel ds' (fst t) (snd t) o' in ((ls2, b2), a) in
    let '(l', t', a) := layer_exec sub fuel d l (ls', b) o in
    (l' :: fst t', snd t', a)
  | _, _ => let '(b', a) := base_exec b o in (ls, b', a)
  end.

Definition execp (fuel : nat) (ds : list disc) (t : list lstate * base) (o : op)
  : (list lstate * base) * ans :=
  let '(ls2, b2, a) := exec fuel ds (fst t) (snd t) o in ((ls2, b2), a).

Definition init_l : lstate := mkL (fun _ => O) 1.   (* instance 0 wraps inner instance 0 *)
Definition init_base_f (orc : list rres) (kf : nat) (am : Z) : base :=
  mkBase (fun _ => false) 1 orc false [] [] [] 0 kf am (fun _ => O).
Definition init_base_pf (po : list (list rres)) (kf : nat) (am : Z) : base :=
  mkBase (fun _ => false) 1 [] true po [] [] 0 kf am (fun _ => O).
Definition init_base (orc : list rres) : base := init_base_f orc 0 0.
Definition init_base_p (po : list (list rres)) : base := init_base_pf po 0 0.
Definition init_stack (ds : list disc) (b : base) : list lstate * base :=
  (map (fun _ => init_l) ds, b).

Definition code_of_rres (r : rres) : Z := match r with RReady => 0 | RErr => 1 | RPending => 3 end.
Definition code_of_ans (a : ans) : Z :=
  match a with
  | ADone (CErr KReady) => 2 | ADone (CErr KLayer) => 6 | ADone CHang => 9
  | ADone (CErr KApp) => 10 | ADone (CErr KTransient) => 11 | _ => 0
  end.

(* a well-behaved client of the top layer: for each request, poll instance 0 until Ready
   (give up on a readiness error or after [cf] Pending answers), then call it *)
Fixpoint client (cf fuel : nat) (ds : list disc) (t : list lstate * base) (reqs : list Z)
  : (list lstate * base) * list Z :=
  match reqs with
  | [] => (t, [])
  | q :: rest =>
    let '(t1, r) := poll_until (execp fuel ds) cf t 0%nat in
    match r with
    | RReady =>
      let '(t2, a) := execp fuel ds t1 (OCall 0%nat q) in
      let '(t3, out) := client cf fuel ds t2 rest in
      (t3, code_of_ans a :: out)
    | _ =>
      let '(t3, out) := client cf fuel ds t1 rest in (t3, code_of_rres r :: out)
    end
  end.

(* any client program over any number of handles (clones of the top of the stack). The
   interpreter keeps, per handle, whether its last poll_ready answered Ready and no call has
   been made since; it refuses (code 8) a call on a handle that is not in that state, and any
   operation on a handle that does not exist: every program is thereby contract-respecting. *)
Inductive cop :=
| CPoll (h : nat)     (* poll handle h until Ready / Err / [cf] Pending answers *)
| CCall (h : nat)     (* the next request (numbered 1, 2, ...) on handle h *)
| CClone (h : nat)    (* a new handle: a clone of handle h *)
| CGate (h : nat)     (* one poll_ready on a handle whose layer's gate is closed: Pending,
                         the wrapped service is not touched *)
| CNop.               (* harness-only events (release of a held call, driving futures) *)

Record cst := mkC {
  hs : list nat;            (* handle number -> top-level instance *)
  crdy : nat -> bool;       (* top-level instance polled Ready since its last call *)
  outs : list Z;            (* outcome codes of the requests issued so far, newest first *)
  nreq : nat
}.

Definition init_c : cst := mkC [O] (fun _ => false) [] 0.

Section Prog.
  Context {T : Type} (sub : T -> op -> T * ans) (cf : nat).

  Definition is_rdy (r : rres) : bool := match r with RReady => true | _ => false end.

  Definition cstep (p : T * cst) (o : cop) : (T * cst) * Z :=
    let t := fst p in
    let c := snd p in
    match o with
    | CPoll h =>
      match nth_error (hs c) h with
      | Some x =>
        let '(t1, r) := poll_until sub cf t x in
        ((t1, mkC (hs c) (updb (crdy c) x (is_rdy r)) (outs c) (nreq c)), code_of_rres r)
      | None => (p, 8)
      end
    | CCall h =>
      match nth_error (hs c) h with
      | Some x =>
        if crdy c x then
          let '(t1, a) := sub t (OCall x (Z.of_nat (S (nreq c)))) in
          ((t1, mkC (hs c) (updb (crdy c) x false) (code_of_ans a :: outs c) (S (nreq c))), 0)
        else (p, 8)
      | None => (p, 8)
      end
    | CClone h =>
      match nth_error (hs c) h with
      | Some x =>
        let '(t1, a) := sub t (OClone x) in
        match a with
        | AId x' => ((t1, mkC (hs c ++ [x']) (updb (crdy c) x' false) (outs c) (nreq c)), 0)
        | _ => ((t1, c), 8)
        end
      | None => (p, 8)
      end
    | CGate h => match nth_error (hs c) h with Some _ => (p, 3) | None => (p, 8) end
    | CNop => (p, 0)
    end.

  Fixpoint run_cops (p : T * cst) (os : list cop) : (T * cst) * list Z :=
    match os with
    | [] => (p, [])
    | o :: rest =>
      let '(p1, z) := cstep p o in
      let '(p2, zs) := run_cops p1 rest in (p2, z :: zs)
    end.
End Prog.

(* ------------------------------------------------------------------------- *)
(* (B) transparency *)
Section Transp.
  (* E: errors *)
  Context {E : Type}.
  Inductive outcome := OutOk (v : Z) | OutErr (e : E).
  Record behaviour := mkBeh { calls : list Z; result : outcome }.
  Definition service := Z -> behaviour.
  Definition layer_sem := service -> service.

  Definition wrap_out (w : E -> E) (o : outcome) : outcome :=
    match o with OutOk v => OutOk v | OutErr e => OutErr (w e) end.

  (* a layer whose protective condition is not triggered: whatever the wrapped service is, the
     calls that reach the bottom are exactly those of ONE call of the wrapped service with the
     request unchanged, and the result is that call's result, an error being wrapped by the
     layer's pass-through wrapper [w] and nothing else *)
  Definition passes (w : E -> E) (L : layer_sem) : Prop := forall inner req,
    calls (L inner req) = calls (inner req) /\
    result (L inner req) = wrap_out w (result (inner req)).

  Definition stack_sem (stack : list layer_sem) (inner : service) : service :=
    fold_right (fun L s => L s) inner stack.

  (* the composition of the pass-through wrappers, outermost first *)
  Definition wraps (ws : list (E -> E)) (e : E) : E := fold_right (fun w x => w x) e ws.

  Definition pass_through (w : E -> E) : layer_sem :=
    fun inner req => mkBeh (calls (inner req)) (wrap_out w (result (inner req))).
End Transp.
Arguments outcome : clear implicits.
Arguments behaviour : clear implicits.
Arguments service : clear implicits.
Arguments layer_sem : clear implicits.

(* ------------------------------------------------------------------------- *)
(* (C) listeners.
   A listener reacts to an event by returning, by panicking with an ordinary payload, or by panicking
   with a payload whose destructor panics in turn (std::panic::panic_any(Bomb)) -- [Bombs d]: the
   destructor's panic carries a payload of the same kind again, d levels deep (Bombs 1: the plain Bomb).
   A listener invocation is made under one of these guards:
     GCatchLoop  catch_unwind around the listener; the caught payload is dropped under catch_unwind, and
                 so is the payload of a panic raised by that drop, and so on, 16 times, after which the
                 payload is leaked (core::events::drop_panic_payload, fix d1b49ff; EventListeners::emit
                 and reconnect's callback helper `observe`): nothing escapes, at any depth;
     GCatchDrop  catch_unwind around the listener and around ONE drop of the caught payload, the
                 second-level payload discarded bare (emit after afefac0, observe after 56b9388): a
                 payload nested two or more levels deep escapes;
     GCatch      catch_unwind around the listener only (emit before afefac0; reconnect's callback sites
                 before 56b9388): a Bomb payload escapes;
     GBare       no guard (reconnect's callback sites before fix 484f229): every panic escapes.
   A panic that escapes unwinds through the rest of the emit loop and through the call. *)
Inductive lresult := Returns | Panics | Bombs (d : nat) | Skipped.
  (* Skipped: the listener is not registered for this kind of event (reconnect has one callback per kind) *)
Definition listener := Z -> lresult.       (* reaction to an event (kind) *)
Inductive guard := GBare | GCatch | GCatchDrop | GCatchLoop.

Definition contained (g : guard) (r : lresult) : bool :=
  match r, g with
  | Panics, GBare => false
  | Bombs _, GBare | Bombs _, GCatch => false
  | Bombs d, GCatchDrop => Nat.leb d 1
  | _, _ => true
  end.

(* run the listeners on one event: what each did, and whether a panic escaped *)
Fixpoint emit_g (g : guard) (ls : list listener) (ev : Z) : list lresult * bool :=
  match ls with
  | [] => ([], false)
  | l :: rest =>
    if contained g (l ev) then let '(rs, esc) := emit_g g rest ev in (l ev :: rs, esc)
    else ([l ev], true)
  end.

(* EventListeners::emit *)
Definition emit (ls : list listener) (ev : Z) : list lresult := fst (emit_g GCatchLoop ls ev).

(* how a call ends *)
Inductive final := FOut (kind payload : Z) | FPanic.

(* a layer's call path as a list of steps in program order: emit an event / fix the outcome
   (the inner call returned); the run stops at the first escaped panic *)
Inductive lstep := SEmit (ev : Z) | SOut (kind payload : Z).

Fixpoint run_steps (guarded : guard) (ls : list listener) (steps : list lstep)
         (cur : final) (acc : list (Z * list lresult)) : final * list (Z * list lresult) :=
  match steps with
  | [] => (cur, rev acc)
  | SOut k p :: rest => run_steps guarded ls rest (FOut k p) acc
  | SEmit ev :: rest =>
    let '(rs, esc) := emit_g guarded ls ev in
    if esc then (FPanic, rev ((ev, rs) :: acc))
    else run_steps guarded ls rest cur ((ev, rs) :: acc)
  end.

(* how often listener i was invoked with an event of kind ev *)
Definition invoked (r : option lresult) : bool :=
  match r with Some Returns | Some Panics | Some (Bombs _) => true | _ => false end.
Definition count_kind (i : nat) (ev : Z) (deliveries : list (Z * list lresult)) : Z :=
  Z.of_nat (length (filter (fun d => andb (fst d =? ev) (invoked (nth_error (snd d) i))) deliveries)).

(* ------------------------------------------------------------------------- *)
(* script interface, protocol modes
   mode 1: [1; n; disc codes (n entries, outermost first: 0 Swap 1 Direct 2 Retry 3 Hedge 4 Reconnect
            (2, 4: predicates that accept transient errors only) 5 Retry, default predicate
            6 Reconnect, default predicate 7 HedgeSeq); K; nreq; shared oracle entries (0 Ready
            1 Pending 2 Err)...]
            K = k + 16 * E + 2^20 * F: k (<= 6) extra attempts for every retrying / hedging layer;
            E: bit j-1 set = every call for request j fails with an APPLICATION error; F = 0: the
            first (k+1)^m - 1 calls of every request fail with a TRANSIENT error (m = number of
            Retry / Reconnect layers; none when a hedge layer is present), F > 0: the first F - 1
       trace: per request a code (0 answered Ok, 1 readiness error at poll_ready, 2 readiness error
              inside the call, 3 never ready, 6 an error made up by a layer, 9 never completed, 10 the
              wrapped service's application error, 11 its transient error), then the wrapped
              service's log with instances renamed by first use in a poll or call: [1; inst; r; 0]
              poll, [2; inst; was-ready + 2 * result (0 Ok 1 transient 2 application); request] call,
              then [violations].
   mode 3: [3; n; disc codes; K; nops; (opcode; a; b) * nops; per-instance oracle: the entries of
            instance 0, -1, the entries of instance 1, -1, ...]
            opcodes: 0 poll handle a / 1 call on handle a (b: harness-only hold flag) /
            2 clone handle a / 4 gate-closed poll of handle a / 5 call on handle a, future left
            un-polled (harness) / anything else: harness-only event
       trace: one code per operation (poll: 0 ready 1 readiness error 3 never ready; call, clone:
              0 done; 8 refused; gate: 3; others 0), then one outcome code per issued request,
              then the log and [violations] as in mode 1. *)
Definition disc_of (code : Z) (k : nat) : disc :=
  if code =? 0 then Swap else if code =? 1 then Direct else
  if code =? 2 then Retry k false else if code =? 3 then Hedge k else
  if code =? 4 then Reconnect k false else if code =? 5 then Retry k true else
  if code =? 6 then Reconnect k true else if code =? 7 then HedgeSeq k else Swap.

Definition rres_of (z : Z) : rres := if z =? 0 then RReady else if z =? 1 then RPending else RErr.
Definition rres_code (r : rres) : Z := match r with RReady => 0 | RPending => 1 | RErr => 2 end.
Definition res_code (c : cres) : Z := match c with CErr KTransient => 1 | CErr KApp => 2 | _ => 0 end.

(* rename instances by first use *)
Fixpoint index_of (x : nat) (l : list nat) (i : Z) : option Z :=
  match l with
  | [] => None
  | y :: r => if Nat.eqb x y then Some i else index_of x r (i + 1)
  end.

Fixpoint canon (log : list lev) (seen : list nat) : list Z :=
  match log with
  | [] => []
  | LClone _ _ :: rest => canon rest seen
  | LPoll x r :: rest =>
    match index_of x seen 0 with
    | Some i => [1; i; rres_code r; 0] ++ canon rest seen
    | None => [1; Z.of_nat (length seen); rres_code r; 0] ++ canon rest (seen ++ [x])
    end
  | LCall x q ok res :: rest =>
    match index_of x seen 0 with
    | Some i => [2; i; b2z ok + 2 * res_code res; q] ++ canon rest seen
    | None => [2; Z.of_nat (length seen); b2z ok + 2 * res_code res; q] ++ canon rest (seen ++ [x])
    end
  end.

(* the client's patience: Pending answers it accepts at one poll_ready before giving up *)
Definition CF : nat := 8.

(* the K field *)
Definition k_of (K : Z) : nat := Nat.min 6 (Z.to_nat (K mod 16)).
Definition appm_of (K : Z) : Z := (K / 16) mod 65536.
Definition is_retrying (d : disc) : bool := match d with Retry _ _ | Reconnect _ _ => true | _ => false end.
Definition is_hedging (d : disc) : bool := match d with Hedge _ | HedgeSeq _ => true | _ => false end.
Definition kfail_of (K : Z) (ds : list disc) : nat :=
  let F := K / 1048576 in
  if 0 <? F then Nat.min 4095 (Z.to_nat (F - 1))
  else if existsb is_hedging ds then O
  else Nat.min 4096 (Nat.pow (S (k_of K)) (length (filter is_retrying ds))) - 1.

Definition run_protocol (sc : list Z) : list Z :=
  let n := Z.to_nat (zn sc 1) in
  let codes := firstn n (skipn 2 sc) in
  let K := zn sc (2 + n) in
  let nreq := Z.to_nat (zn sc (3 + n)) in
  let orc := map rres_of (skipn (4 + n) sc) in
  let ds := map (fun c => disc_of c (k_of K)) codes in
  let reqs := map Z.of_nat (seq 1 nreq) in
  (* inside a call a layer polls for as long as it takes: more fuel than Pending answers *)
  let '(t, out) := client CF (S (length orc)) ds
                     (init_stack ds (init_base_f orc (kfail_of K ds) (appm_of K))) reqs in
  out ++ canon (rev (blog (snd t))) [] ++ [Z.of_nat (violations (snd t))].

Fixpoint split_segs (l : list Z) (cur : list Z) : list (list Z) :=
  match l with
  | [] => match cur with [] => [] | _ => [rev cur] end
  | x :: r => if x =? -1 then rev cur :: split_segs r [] else split_segs r (x :: cur)
  end.

Definition cop_of (t : Z * Z * Z) : cop :=
  let '(o, a, _) := t in
  let h := Z.to_nat a in
  if o =? 0 then CPoll h else if o =? 1 then CCall h else if o =? 2 then CClone h
  else if o =? 4 then CGate h else if o =? 5 then CCall h else CNop.

Definition run_program (sc : list Z) : list Z :=
  let n := Z.to_nat (zn sc 1) in
  let codes := firstn n (skipn 2 sc) in
  let K := zn sc (2 + n) in
  let nops := Z.to_nat (zn sc (3 + n)) in
  let ops := map cop_of (chunk3 (firstn (3 * nops) (skipn (4 + n) sc))) in
  let po := map (map rres_of) (split_segs (skipn (4 + n + 3 * nops) sc) []) in
  let ds := map (fun c => disc_of c (k_of K)) codes in
  let fuel := S (length (concat po)) in
  let '(p, zs) := run_cops (execp fuel ds) CF
                    (init_stack ds (init_base_pf po (kfail_of K ds) (appm_of K)), init_c) ops in
  let b := snd (fst p) in
  zs ++ rev (outs (snd p)) ++ canon (rev (blog b)) [] ++ [Z.of_nat (violations b)].
