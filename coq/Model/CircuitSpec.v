(* C04: the documented circuit-breaker state machine as a short executable spec, and
   the sequential-history driver of the concrete Circuit model (Model/Circuit.v).
   No proofs here. *)
From TR Require Import Lib.Base Model.Circuit.

(* sequential histories: every call is admitted (or rejected), runs for [latency] ms and
   has its outcome recorded before the next event *)
Inductive hev :=
| HCall (is_failure : bool) (latency : Z)   (* classifier verdict, duration of the call *)
| HWait (d : Z)
| HForceOpen | HForceClosed | HReset.

(* what a user can observe after each step *)
Record hobs := mkHobs {
  o_state : cstate;          (* state().await *)
  o_sync : cstate;           (* state_sync() / is_open() *)
  o_metrics_state : cstate;  (* metrics().state *)
  o_invoked : option bool;   (* for a call: was the inner service invoked? *)
  o_counts : option (Z * Z * Z)  (* count-based windows while Closed: (total, failures, slow) of the snapshot *)
}.

(* ---------------- concrete ---------------- *)
Definition lat (l : Z) : Z := Z.max 0 l.

Definition seq_step (cf : cfg) (p : Z * circuit) (e : hev) : (Z * circuit) * option bool :=
  let '(t, c) := p in
  match e with
  | HCall f l =>
    let '(c', ok) := try_acquire t cf c in
    if ok then ((t + lat l, record (t + lat l) cf f (lat l) c'), Some true)
    else ((t, c'), Some false)
  | HWait d => ((t + lat d, c), None)
  | HForceOpen => ((t, force_open t c), None)
  | HForceClosed => ((t, force_closed t c), None)
  | HReset => ((t, reset t c), None)
  end.

Definition conc_obs (cf : cfg) (c : circuit) (inv : option bool) : hobs :=
  let '(ms, tot, f, _, sl) := metrics cf c in
  mkHobs (state c) (state_atomic c) ms inv
         (if negb (time_based cf) && cstate_eqb (state c) Closed then Some (tot, f, sl) else None).

Fixpoint run_seq (cf : cfg) (p : Z * circuit) (h : list hev) : list hobs :=
  match h with
  | [] => []
  | e :: rest =>
    let '(p', inv) := seq_step cf p e in
    conc_obs cf (snd p') inv :: run_seq cf p' rest
  end.

(* ---------------- the documented machine ---------------- *)
Inductive sstate :=
| SClosed (hist : list (Z * bool * bool))
    (* outcomes (completion instant, is_failure, is_slow) recorded since the breaker last
       became closed or was reset, oldest first *)
| SOpen (since : Z)
| SHalfOpen (successes : Z).

Definition lastn {A} (n : nat) (l : list A) : list A := skipn (length l - n) l.

(* the sliding window over which the rates are taken *)
Definition window (cf : cfg) (t : Z) (hist : list (Z * bool * bool)) : list (Z * bool * bool) :=
  if time_based cf then filter (fun r => negb (wdur cf <? t - fst (fst r))) hist
  else lastn (Z.to_nat (Z.max (wsize cf) 1)) hist.

(* enough calls recorded to judge? *)
Definition enough (cf : cfg) (t : Z) (hist : list (Z * bool * bool)) : bool :=
  if time_based cf then minc cf <=? Z.of_nat (length (window cf t hist))
  else (minc cf <=? Z.of_nat (length hist)) && (wsize cf <=? Z.of_nat (length hist)).

Definition trips (cf : cfg) (t : Z) (hist : list (Z * bool * bool)) : bool :=
  let w := window cf t hist in
  let n := Z.of_nat (length w) in
  enough cf t hist &&
  (rate_ge (count_fail w) n (fnum cf) (fden cf)
   || (slow_on cf && rate_ge (count_slow w) n (snum cf) (sden cf))).

Definition is_slow (cf : cfg) (l : Z) : bool := slow_on cf && (slow_thr cf <=? l).

Definition spec_step (cf : cfg) (p : Z * sstate) (e : hev) : (Z * sstate) * option bool :=
  let '(t, s) := p in
  match e with
  | HWait d => ((t + lat d, s), None)
  | HForceOpen => ((t, match s with SOpen _ => s | _ => SOpen t end), None)
  | HForceClosed => ((t, match s with SClosed _ => s | _ => SClosed [] end), None)
  | HReset => ((t, SClosed []), None)
  | HCall f l =>
    let t' := t + lat l in
    let trial (succ : Z) :=          (* a trial call while half-open *)
      if f then SOpen t'
      else if permitted cf <=? succ + 1 then SClosed [] else SHalfOpen (succ + 1) in
    match s with
    | SClosed hist =>
      let hist' := hist ++ [(t', f, is_slow cf (lat l))] in
      ((t', if trips cf t' hist' then SOpen t' else SClosed hist'), Some true)
    | SOpen since =>
      if wait_open cf <=? t - since then ((t', trial 0), Some true)
      else ((t, s), Some false)
    | SHalfOpen succ => ((t', trial succ), Some true)
    end
  end.

Definition sstate_code (s : sstate) : cstate :=
  match s with SClosed _ => Closed | SOpen _ => Open | SHalfOpen _ => HalfOpen end.

Definition spec_obs (cf : cfg) (t : Z) (s : sstate) (inv : option bool) : hobs :=
  mkHobs (sstate_code s) (sstate_code s) (sstate_code s) inv
         (match s with
          | SClosed hist =>
            if time_based cf then None
            else let w := window cf t hist in
                 Some (Z.of_nat (length w), count_fail w, count_slow w)
          | _ => None
          end).

Fixpoint run_spec (cf : cfg) (p : Z * sstate) (h : list hev) : list hobs :=
  match h with
  | [] => []
  | e :: rest =>
    let '(p', inv) := spec_step cf p e in
    spec_obs cf (fst p') (snd p') inv :: run_spec cf p' rest
  end.

(* well-formed configurations (what the property quantifies over) *)
Definition wf (cf : cfg) : bool :=
  (1 <=? permitted cf) && (0 <? fden cf) && (0 <? sden cf) && (0 <=? wait_open cf)
  && (0 <=? wdur cf) && (0 <=? wsize cf) && (0 <=? minc cf).
