(* Shared base: imports, reachable-state induction principle, script helpers.
   Scripts and traces are lists of Z so that the OCaml driver and the in-Coq
   evaluation share one uniform interface: run_script : list Z -> list Z. *)
From Coq Require Export List Arith ZArith NArith Lia Bool.
Export ListNotations.
Global Open Scope Z_scope.

Section Reach.
  Context {S E : Type} (step : S -> E -> S).
  Fixpoint states (s : S) (evs : list E) : list S :=
    match evs with [] => [s] | e :: t => s :: states (step s e) t end.

  Lemma reach_inv (Inv : S -> Prop) (init : S) :
    Inv init -> (forall s e, Inv s -> Inv (step s e)) ->
    forall evs, Forall Inv (states init evs).
  Proof.
    intros H0 Hs evs. revert init H0.
    induction evs as [|e t IH]; intros s H; cbn [states].
    - constructor; [exact H|constructor].
    - constructor; [exact H|]. apply IH. apply Hs. exact H.
  Qed.

  Lemma fold_left_inv (Inv : S -> Prop) (init : S) :
    Inv init -> (forall s e, Inv s -> Inv (step s e)) ->
    forall evs, Inv (fold_left step evs init).
  Proof.
    intros H0 Hs evs. revert init H0.
    induction evs as [|e t IH]; intros s H; cbn [fold_left]; [exact H|].
    apply IH. apply Hs. exact H.
  Qed.

  Lemma states_last (s : S) evs : In (fold_left step evs s) (states s evs).
  Proof.
    revert s. induction evs as [|e t IH]; intros s; cbn [states fold_left].
    - left; reflexivity.
    - right. apply IH.
  Qed.
End Reach.

(* nth with an explicit default 0 for script decoding; scripts are produced by
   our own generators and always have the required length — decoding of a short
   script yields zeros on both sides identically (the Rust drivers do the same). *)
Definition zn (l : list Z) (i : nat) : Z := nth i l 0.
Definition b2z (b : bool) : Z := if b then 1 else 0.
Definition z2b (z : Z) : bool := negb (z =? 0).

Fixpoint chunk2 (l : list Z) : list (Z * Z) :=
  match l with a :: b :: t => (a, b) :: chunk2 t | _ => [] end.
Fixpoint chunk3 (l : list Z) : list (Z * Z * Z) :=
  match l with a :: b :: c :: t => (a, b, c) :: chunk3 t | _ => [] end.
