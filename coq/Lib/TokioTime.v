(* What the retry / reconnect models assume about the tokio runtime (trusted base, tied to
   tokio only by the correspondence runs of C05 and C16):
   - time is counted in nanoseconds; the timer wheel has millisecond granularity and
     rounds a deadline UP to the next whole millisecond ([ceil_ms]): sleep(d) started at
     instant t is ready at the first poll at or after ceil_ms (t + d);
   - cooperative scheduling: every poll of a task starts with a budget of [COOP] = 128
     units; each tokio resource (Sleep, oneshot receiver) that completes consumes one unit;
     a resource polled with no budget left returns Pending after waking its own task
     (without registering with the timer / channel).
   Script encoding of durations ([ns_of]): values below 2^40 are milliseconds, a value
   2^40 + n is n nanoseconds. *)
From TR Require Import Lib.Base.

Definition MS : Z := 1000000.
Definition ceil_ms (t : Z) : Z := ((t + (MS - 1)) / MS) * MS.
Definition COOP : nat := 128.

Definition DUR_FLAG : Z := 1099511627776.   (* 2^40 *)
Definition ns_of (e : Z) : Z := if e <? DUR_FLAG then Z.max 0 e * MS else e - DUR_FLAG.

Lemma ceil_ms_bounds t : t <= ceil_ms t < t + MS.
Proof.
  unfold ceil_ms, MS.
  pose proof (Z.div_mod (t + (1000000 - 1)) 1000000 ltac:(lia)) as H.
  pose proof (Z.mod_pos_bound (t + (1000000 - 1)) 1000000 ltac:(lia)) as Hm.
  lia.
Qed.

Lemma ceil_ms_ge t : t <= ceil_ms t.
Proof. apply ceil_ms_bounds. Qed.

Lemma ceil_ms_lt t : ceil_ms t < t + MS.
Proof. apply ceil_ms_bounds. Qed.

Lemma ceil_ms_whole k : ceil_ms (k * MS) = k * MS.
Proof.
  unfold ceil_ms, MS. f_equal.
  replace (k * 1000000 + (1000000 - 1)) with (999999 + k * 1000000) by lia.
  rewrite Z.div_add by lia. reflexivity.
Qed.

Lemma ceil_ms_mono a b : a <= b -> ceil_ms a <= ceil_ms b.
Proof.
  intros H. unfold ceil_ms, MS. apply Z.mul_le_mono_nonneg_r; [lia|].
  apply Z.div_le_mono; lia.
Qed.

Lemma ceil_ms_multiple t : exists k, ceil_ms t = k * MS.
Proof. eexists. reflexivity. Qed.

Lemma ceil_ms_idem t : ceil_ms (ceil_ms t) = ceil_ms t.
Proof. destruct (ceil_ms_multiple t) as [k ->]. apply ceil_ms_whole. Qed.

Lemma ns_of_nonneg e : 0 <= ns_of e.
Proof.
  unfold ns_of, MS, DUR_FLAG. destruct (e <? 1099511627776) eqn:E.
  - lia.
  - apply Z.ltb_ge in E. lia.
Qed.

Lemma ns_of_ms e : 0 <= e < DUR_FLAG -> ns_of e = e * MS.
Proof.
  intros [H0 H1]. unfold ns_of. replace (e <? DUR_FLAG) with true by (symmetry; apply Z.ltb_lt; exact H1).
  rewrite Z.max_r by exact H0. reflexivity.
Qed.
