(* Proofs about Model/Reconnect.v: the run of one request as a function of its outcome
   stream, and invariants of the poll-granular model of several requests sharing the
   published connection state. *)
From TR Require Import Lib.Base Model.Reconnect.

Lemma app_eq_len {A} (l1 l1' l2 l2' : list A) :
  length l1 = length l1' -> l1 ++ l2 = l1' ++ l2' -> l1 = l1' /\ l2 = l2'.
Proof.
  revert l1'. induction l1 as [|x l1 IH]; intros [|y l1'] Hl H; try discriminate.
  - split; [reflexivity|exact H].
  - cbn in H. inversion H; subst. cbn in Hl. destruct (IH l1') as [-> ->]; [lia|assumption|].
    split; reflexivity.
Qed.

Section ReconnectProofs.
  Context {Res Err : Type}.
  Notation outcome := (outcome Res Err).
  Notation call := (call Res Err).
  Notation run := (run Res Err).
  Notation cfg := (cfg Err).
  Notation rerr := (rerr Err).

  (* ------------------------------------------------------------------ *)
  (* the Calling arm *)

  (* a failure after which the future goes to sleep: reconnectable, attempt number
     within max_attempts, and the policy gives a delay *)
  Definition sleeps_after (c : cfg) (a : nat) (o : outcome) (d : Z) (e : Err) : Prop :=
    o = Fail e /\ should_reconnect c e = true /\ exceeded c (S a) = false /\
    policy c (S a) = Some d.

  Lemma after_retry (c : cfg) a (o : outcome) ws d e :
    after_outcome c a o = (ws, ARetry d e) ->
    sleeps_after c a o d e /\ ws = [Disconnected; Reconnecting].
  Proof.
    unfold after_outcome, sleeps_after. destruct o as [v|e0]; [discriminate|].
    destruct (should_reconnect c e0) eqn:Es; cbn [negb]; [|discriminate].
    destruct (exceeded c (S a)) eqn:Ex; [discriminate|].
    destruct (policy c (S a)) as [d0|] eqn:Ep; [|discriminate].
    intros H. inversion H; subst. repeat split; assumption.
  Qed.

  Definition returns_spec (c : cfg) (a : nat) (o : outcome) (x : Res + rerr) : Prop :=
    match x with
    | inl v => o = Ok v
    | inr (ServiceError e) => o = Fail e /\ should_reconnect c e = false
    | inr (MaxAttemptsExceeded n e) =>
      o = Fail e /\ should_reconnect c e = true /\ n = S a /\
      exists m, max_attempts c = Some m /\ (m < S a)%nat
    | inr (ConnectionFailed e) =>
      o = Fail e /\ should_reconnect c e = true /\ exceeded c (S a) = false /\ policy c (S a) = None
    | inr (ConnectionFailedNoRetry _) => False
    end.

  Lemma after_return (c : cfg) a (o : outcome) ws x :
    after_outcome c a o = (ws, AReturn x) ->
    returns_spec c a o x /\
    ws = match x with
         | inl _ => [Connected]
         | inr (ServiceError _) => []
         | inr _ => [Disconnected]
         end.
  Proof.
    unfold after_outcome, returns_spec. destruct o as [v|e].
    - intros H. inversion H; subst. split; reflexivity.
    - destruct (should_reconnect c e) eqn:Es; cbn [negb].
      + destruct (exceeded c (S a)) eqn:Ex.
        * intros H. inversion H; subst. split; [|reflexivity].
          split; [reflexivity|]. split; [exact Es|]. split; [reflexivity|].
          unfold exceeded in Ex. destruct (max_attempts c) as [m|]; [|discriminate].
          exists m. split; [reflexivity|]. apply Nat.ltb_lt. exact Ex.
        * destruct (policy c (S a)) as [d|] eqn:Ep; intros H; inversion H; subst.
          split; [|reflexivity]. repeat split; assumption.
      + intros H. inversion H; subst. split; [|reflexivity]. split; [reflexivity|exact Es].
  Qed.

  (* attempt a is the last inner call (when the run is not cut by fuel) *)
  Definition stop_at (c : cfg) (inner : nat -> Z * outcome) (ready : nat -> Z * option Err)
             (a : nat) : bool :=
    match snd (inner a) with
    | Ok _ => true
    | Fail e =>
      negb (should_reconnect c e) || exceeded c (S a) ||
      (match policy c (S a) with Some _ => false | None => true end) ||
      negb (retry_on_reconnect c) ||
      (match snd (ready (S a)) with Some _ => true | None => false end)
    end.

  (* what the future returns, given that call a was the last one *)
  Definition last_is (c : cfg) (inner : nat -> Z * outcome) (ready : nat -> Z * option Err)
             (a : nat) (x : Res + rerr) : Prop :=
    match x with
    | inl v => snd (inner a) = Ok v
    | inr (ServiceError e) =>
      (snd (inner a) = Fail e /\ should_reconnect c e = false) \/
      (exists e0 d, sleeps_after c a (snd (inner a)) d e0 /\ retry_on_reconnect c = true /\
                    snd (ready (S a)) = Some e)
    | inr (MaxAttemptsExceeded n e) =>
      snd (inner a) = Fail e /\ should_reconnect c e = true /\ n = S a /\
      exists m, max_attempts c = Some m /\ (m < S a)%nat
    | inr (ConnectionFailed e) =>
      snd (inner a) = Fail e /\ should_reconnect c e = true /\ exceeded c (S a) = false /\
      policy c (S a) = None
    | inr (ConnectionFailedNoRetry e) =>
      (exists d, sleeps_after c a (snd (inner a)) d e) /\ retry_on_reconnect c = false
    end.

  Definition final_write (x : option (Res + rerr)) : list cstate :=
    match x with
    | Some (inr (ConnectionFailedNoRetry _)) => [Connected]
    | _ => []
    end.

  Fixpoint repeat_dr (n : nat) : list cstate :=
    match n with O => [] | S m => Disconnected :: Reconnecting :: repeat_dr m end.

  Section Run.
    Context (c : cfg) (inner : nat -> Z * outcome) (ready : nat -> Z * option Err).
    Notation go := (go c inner ready).
    Notation stopb := (stop_at c inner ready).
    Notation last_spec := (last_is c inner ready).

    Definition res_link (act : action Res Err) (xo : option (Res + rerr)) : Prop :=
      match act with
      | AReturn x => xo = Some x
      | ARetry d e => xo = Some (inr (ConnectionFailedNoRetry e)) \/
                      (exists e', xo = Some (inr (ServiceError e'))) \/ xo = None
      end.

    Definition run_props (fuel a : nat) (t : Z) (r : run) : Prop :=
      let n := length (calls r) in
      (1 <= n /\ n <= S fuel)%nat /\
      (forall m, max_attempts c = Some m -> (a <= m)%nat -> (a + n <= m + 1)%nat) /\
      map (@c_idx Res Err) (calls r) = seq a n /\
      (forall cl, In cl (calls r) -> c_out cl = snd (inner (c_idx cl)) /\
                                     c_end cl = c_start cl + Z.max 0 (fst (inner (c_idx cl)))) /\
      (exists cl rest, calls r = cl :: rest /\ c_start cl = t) /\
      (forall l1 c1 c2 l2, calls r = l1 ++ c1 :: c2 :: l2 ->
         exists d, policy c (c_idx c2) = Some d /\
         c_start c2 = c_end c1 + Z.max 0 d + Z.max 0 (fst (ready (c_idx c2)))) /\
      (forall k, (a <= k < a + n - 1)%nat -> stopb k = false) /\
      (forall x, result r = Some x -> stopb (a + n - 1)%nat = true /\ last_spec (a + n - 1)%nat x) /\
      (result r = None -> stopb (a + n - 1)%nat = false /\ n = S fuel) /\
      writes r = repeat_dr (n - 1) ++
                 fst (after_outcome c (a + n - 1) (snd (inner (a + n - 1)%nat))) ++
                 final_write (result r) /\
      res_link (snd (after_outcome c (a + n - 1) (snd (inner (a + n - 1)%nat)))) (result r).

    Lemma stop_false_of_sleeps a d e :
      sleeps_after c a (snd (inner a)) d e -> retry_on_reconnect c = true ->
      snd (ready (S a)) = None -> stopb a = false.
    Proof.
      intros [Ho [Hs [Hx Hp]]] Hr Hrd. unfold stop_at. rewrite Ho, Hs, Hx, Hp, Hr, Hrd. reflexivity.
    Qed.

    Lemma after_sleep_spec e :
      (retry_on_reconnect c = true /\ after_sleep (Res:=Res) c e = None) \/
      (retry_on_reconnect c = false /\
       after_sleep (Res:=Res) c e = Some ([Connected], inr (ConnectionFailedNoRetry e))).
    Proof. unfold after_sleep. destruct (retry_on_reconnect c); [left|right]; split; reflexivity. Qed.

    Lemma single_props fuel a t xo ws :
      (forall x, xo = Some x -> stopb a = true /\ last_spec a x) ->
      (xo = None -> stopb a = false /\ (1 = S fuel)%nat) ->
      ws = fst (after_outcome c a (snd (inner a))) ++ final_write xo ->
      res_link (snd (after_outcome c a (snd (inner a)))) xo ->
      run_props fuel a t
        (mkRun [mkCall a t (t + Z.max 0 (fst (inner a))) (snd (inner a))] xo ws).
    Proof.
      intros Hx Hn Hw Hlk. unfold run_props. cbn [calls result writes length].
      replace (a + 1 - 1)%nat with a by lia.
      split; [lia|]. split; [intros m _ Hm; lia|]. split; [reflexivity|].
      split; [intros cl [<-|[]]; split; reflexivity|].
      split; [eexists; eexists; split; reflexivity|].
      split; [intros l1 c1 c2 l2 H; destruct l1 as [|? [|? ?]]; discriminate|].
      split; [intros k Hk; lia|].
      split; [exact Hx|]. split; [exact Hn|]. split; [exact Hw|exact Hlk].
    Qed.

    Lemma return_stop a x :
      returns_spec c a (snd (inner a)) x -> stopb a = true /\ last_spec a x.
    Proof.
      unfold stop_at, last_is, returns_spec. destruct x as [v|[n e|e|e|e]].
      - intros ->. split; reflexivity.
      - intros [Ho [Hs [Hn [m [Hm Hlt]]]]]. rewrite Ho, Hs. unfold exceeded. rewrite Hm.
        replace (m <? S a)%nat with true by (symmetry; apply Nat.ltb_lt; exact Hlt).
        split; [reflexivity|]. split; [reflexivity|]. split; [reflexivity|]. split; [exact Hn|].
        exists m. split; [reflexivity|exact Hlt].
      - intros [Ho [Hs [Hx Hp]]]. rewrite Ho, Hs, Hx, Hp. split; [reflexivity|].
        repeat split; reflexivity.
      - intros [].
      - intros [Ho Hs]. rewrite Ho, Hs. split; [reflexivity|]. left. split; reflexivity.
    Qed.

    Lemma return_case fuel a t ws x :
      after_outcome c a (snd (inner a)) = (ws, AReturn x) ->
      run_props fuel a t
        (mkRun [mkCall a t (t + Z.max 0 (fst (inner a))) (snd (inner a))] (Some x) ws).
    Proof.
      intros Ea. pose proof Ea as Ea'. apply after_return in Ea'. destruct Ea' as [Hr Hws].
      apply single_props.
      - intros x0 Hx0. injection Hx0 as <-. apply return_stop. exact Hr.
      - discriminate.
      - rewrite Ea. cbn [fst].
        destruct x as [v|[n e|e|e|e]]; cbn [final_write]; rewrite ?app_nil_r; try reflexivity.
        unfold returns_spec in Hr. contradiction.
      - rewrite Ea. reflexivity.
    Qed.

    Lemma sleeps_stop_prefix a d e :
      sleeps_after c a (snd (inner a)) d e ->
      stopb a = negb (retry_on_reconnect c) ||
                (match snd (ready (S a)) with Some _ => true | None => false end).
    Proof.
      intros [Ho [Hs [Hx Hp]]]. unfold stop_at. rewrite Ho, Hs, Hx, Hp. reflexivity.
    Qed.

    Lemma go_spec fuel : forall a t, run_props fuel a t (go fuel a t).
    Proof.
      induction fuel as [|f IH]; intros a t; cbn [go];
        destruct (after_outcome c a (snd (inner a))) as [ws act] eqn:Ea;
        destruct act as [x|d e]; try (apply return_case; exact Ea).
      - (* out of fuel *)
        pose proof Ea as Ea'. apply after_retry in Ea'. destruct Ea' as [Hsl Hws].
        pose proof (sleeps_stop_prefix a d e Hsl) as Hst.
        destruct (after_sleep_spec e) as [[Hrt Has]|[Hrt Has]]; rewrite Has.
        + destruct (snd (ready (S a))) as [e'|] eqn:Er.
          * apply single_props.
            -- intros x0 Hx0. injection Hx0 as <-. rewrite Hst, Hrt. split; [reflexivity|].
               cbn. right. exists e, d. repeat split; try assumption; apply Hsl.
            -- discriminate.
            -- rewrite Ea. cbn [fst final_write]. rewrite app_nil_r. reflexivity.
            -- rewrite Ea. cbn. right. left. exists e'. reflexivity.
          * apply single_props.
            -- discriminate.
            -- intros _. rewrite Hst, Hrt. split; reflexivity.
            -- rewrite Ea. cbn [fst final_write]. rewrite app_nil_r. reflexivity.
            -- rewrite Ea. cbn. right. right. reflexivity.
        + apply single_props.
          * intros x0 Hx0. injection Hx0 as <-. rewrite Hst, Hrt. split; [reflexivity|].
            cbn. split; [exists d; exact Hsl|exact Hrt].
          * discriminate.
          * rewrite Ea. reflexivity.
          * rewrite Ea. cbn. left. reflexivity.
      - pose proof Ea as Ea'. apply after_retry in Ea'. destruct Ea' as [Hsl Hws].
        pose proof (sleeps_stop_prefix a d e Hsl) as Hst.
        destruct (after_sleep_spec e) as [[Hrt Has]|[Hrt Has]]; rewrite Has.
        + destruct (snd (ready (S a))) as [e'|] eqn:Er.
          * apply single_props.
            -- intros x0 Hx0. injection Hx0 as <-. rewrite Hst, Hrt. split; [reflexivity|].
               cbn. right. exists e, d. repeat split; try assumption; apply Hsl.
            -- discriminate.
            -- rewrite Ea. cbn [fst final_write]. rewrite app_nil_r. reflexivity.
            -- rewrite Ea. cbn. right. left. exists e'. reflexivity.
          * (* the next call *)
            specialize (IH (S a) (t + Z.max 0 (fst (inner a)) + Z.max 0 d + Z.max 0 (fst (ready (S a))))).
            set (r := go f (S a) _) in *. unfold run_props in IH.
            destruct IH as [[Hn1 Hn2] [Hmax [Hidx [Hout [Hfirst [Hsp [Hbefore [Hres [Hnone [Hwr Hlk]]]]]]]]]].
            unfold run_props. cbn [calls result writes length].
            set (n := length (calls r)) in *.
            assert (Hstop_a : stopb a = false) by (rewrite Hst, Hrt; reflexivity).
            replace (a + S n - 1)%nat with (S a + n - 1)%nat by lia.
            split; [lia|].
            split.
            { intros m Hm Ha. destruct Hsl as [_ [_ [Hx _]]]. unfold exceeded in Hx. rewrite Hm in Hx.
              apply Nat.ltb_ge in Hx. specialize (Hmax m Hm Hx). lia. }
            split; [cbn [map seq c_idx]; f_equal; exact Hidx|].
            split; [intros cl [<-|H]; [split; reflexivity|apply Hout; exact H]|].
            split; [eexists; eexists; split; reflexivity|].
            split.
            { intros l1 c1 c2 l2 H. destruct l1 as [|x0 l1].
              - cbn [app] in H. destruct Hfirst as [cl0 [rest [Hc Hstt]]].
                rewrite Hc in H. inversion H; subst c1 c2 l2. cbn [c_end c_idx].
                assert (Hi : c_idx cl0 = S a).
                { rewrite Hc in Hidx. destruct n; [lia|]. cbn [map seq] in Hidx. congruence. }
                rewrite Hi, Hstt. exists d. split; [apply Hsl|reflexivity].
              - cbn [app] in H. inversion H. eapply Hsp. eassumption. }
            split.
            { intros k Hk. destruct (Nat.eq_dec k a) as [->|Hne]; [exact Hstop_a|].
              apply Hbefore. lia. }
            split; [exact Hres|].
            split; [intros Hn; destruct (Hnone Hn) as [H1 H2]; split; [exact H1|lia]|].
            split; [|exact Hlk].
            rewrite Hwr, Hws. replace (S n - 1)%nat with (S (n - 1)) by lia. reflexivity.
        + apply single_props.
          * intros x0 Hx0. injection Hx0 as <-. rewrite Hst, Hrt. split; [reflexivity|].
            cbn. split; [exists d; exact Hsl|exact Hrt].
          * discriminate.
          * rewrite Ea. reflexivity.
          * rewrite Ea. cbn. left. reflexivity.
    Qed.

    Notation R fuel t0 := (reconnect_run c inner ready fuel t0).

    Lemma run_spec fuel t0 : run_props fuel 0 t0 (R fuel t0).
    Proof. apply go_spec. Qed.

    Lemma stop_at_exceeded k : exceeded c (S k) = true -> stopb k = true.
    Proof.
      intros Hx. unfold stop_at. destruct (snd (inner k)) as [v|e]; [reflexivity|].
      rewrite Hx. rewrite Bool.orb_true_r. reflexivity.
    Qed.

    (* C16_call_bound *)
    Lemma call_bound fuel t0 :
      let r := R fuel t0 in
      (1 <= length (calls r) <= S fuel)%nat /\
      (forall m, max_attempts c = Some m ->
         (length (calls r) <= m + 1)%nat /\ ((m <= fuel)%nat -> result r <> None)).
    Proof.
      cbn zeta. pose proof (run_spec fuel t0) as H. unfold run_props in H.
      destruct H as [Hn [Hmax [_ [_ [_ [_ [_ [_ [Hnone _]]]]]]]]].
      split; [exact Hn|]. intros m Hm.
      assert (Hle : (length (calls (R fuel t0)) <= m + 1)%nat)
        by (specialize (Hmax m Hm); lia).
      split; [exact Hle|]. intros Hf Hr. destruct (Hnone Hr) as [Hs Hl].
      cbn [Nat.add] in Hs.
      assert (Hk : (length (calls (R fuel t0)) - 1 = m)%nat) by lia.
      rewrite Hk in Hs. rewrite stop_at_exceeded in Hs; [discriminate|].
      unfold exceeded. rewrite Hm. apply Nat.ltb_lt. lia.
    Qed.

    Lemma stop_at_false k :
      stopb k = false ->
      exists e d, snd (inner k) = Fail e /\ should_reconnect c e = true /\
                  exceeded c (S k) = false /\ policy c (S k) = Some d /\
                  retry_on_reconnect c = true /\ snd (ready (S k)) = None.
    Proof.
      unfold stop_at. destruct (snd (inner k)) as [v|e]; [discriminate|].
      intros H. apply Bool.orb_false_iff in H. destruct H as [H Hr].
      apply Bool.orb_false_iff in H. destruct H as [H Hrt].
      apply Bool.orb_false_iff in H. destruct H as [H Hp].
      apply Bool.orb_false_iff in H. destruct H as [Hs Hx].
      destruct (policy c (S k)) as [d|]; [|discriminate].
      exists e, d. split; [reflexivity|].
      split; [destruct (should_reconnect c e); [reflexivity|discriminate]|].
      split; [exact Hx|]. split; [reflexivity|].
      split; [destruct (retry_on_reconnect c); [reflexivity|discriminate]|].
      destruct (snd (ready (S k))); [discriminate|reflexivity].
    Qed.

    (* C16_retries_only_reconnectable *)
    Lemma retries_only_reconnectable fuel t0 :
      let r := R fuel t0 in
      let n := length (calls r) in
      map (@c_idx Res Err) (calls r) = seq 0 n /\
      (forall cl, In cl (calls r) -> c_out cl = snd (inner (c_idx cl))) /\
      (forall k, (k < n - 1)%nat ->
         exists e d, snd (inner k) = Fail e /\ should_reconnect c e = true /\
                     exceeded c (S k) = false /\ policy c (S k) = Some d /\
                     retry_on_reconnect c = true /\ snd (ready (S k)) = None).
    Proof.
      cbn zeta. pose proof (run_spec fuel t0) as H. unfold run_props in H.
      destruct H as [_ [_ [Hidx [Hout [_ [_ [Hb _]]]]]]].
      split; [exact Hidx|]. split; [intros cl Hc; apply Hout; exact Hc|].
      intros k Hk. apply stop_at_false. apply Hb. lia.
    Qed.

    (* C16_delay_before_retry *)
    Lemma delay_before_retry fuel t0 :
      let r := R fuel t0 in
      (exists cl rest, calls r = cl :: rest /\ c_start cl = t0) /\
      (forall cl, In cl (calls r) -> c_end cl = c_start cl + Z.max 0 (fst (inner (c_idx cl)))) /\
      (forall l1 c1 c2 l2, calls r = l1 ++ c1 :: c2 :: l2 ->
         c_idx c2 = S (c_idx c1) /\
         exists d, policy c (c_idx c2) = Some d /\
           c_start c2 = c_end c1 + Z.max 0 d + Z.max 0 (fst (ready (c_idx c2))) /\
           c_start c2 >= c_end c1 + d /\
           (fst (ready (c_idx c2)) <= 0 -> 0 <= d -> c_start c2 = c_end c1 + d)).
    Proof.
      cbn zeta. pose proof (run_spec fuel t0) as H. unfold run_props in H.
      destruct H as [_ [_ [Hidx [Hout [Hfirst [Hsp _]]]]]].
      split; [exact Hfirst|]. split; [intros cl Hc; apply Hout; exact Hc|].
      intros l1 c1 c2 l2 Hc. destruct (Hsp _ _ _ _ Hc) as [d [Hp Hs]].
      split.
      - rewrite Hc in Hidx. rewrite map_app in Hidx. cbn [map] in Hidx.
        rewrite app_length in Hidx. cbn [length] in Hidx.
        replace (length l1 + S (S (length l2)))%nat with (length l1 + (2 + length l2))%nat in Hidx by lia.
        rewrite seq_app in Hidx. apply app_eq_len in Hidx.
        + destruct Hidx as [_ Hidx]. cbn [seq Nat.add] in Hidx. inversion Hidx. lia.
        + rewrite map_length, seq_length. reflexivity.
      - exists d. split; [exact Hp|]. split; [exact Hs|]. split; lia.
    Qed.

    Lemma last_call fuel t0 :
      exists l cl, calls (R fuel t0) = l ++ [cl] /\ c_idx cl = (length (calls (R fuel t0)) - 1)%nat.
    Proof.
      pose proof (run_spec fuel t0) as H. unfold run_props in H.
      destruct H as [[H1 _] [_ [H3 _]]].
      destruct (calls (R fuel t0)) as [|x l] eqn:E using rev_ind; [cbn in H1; lia|].
      clear IHl. exists l, x. split; [reflexivity|].
      rewrite app_length in *. cbn [length] in *.
      rewrite map_app in H3. cbn [map] in H3.
      replace (length l + 1)%nat with (S (length l)) in H3 by lia.
      rewrite seq_S in H3. apply app_inj_tail in H3. destruct H3 as [_ H3].
      cbn in H3. lia.
    Qed.

    (* C16_result *)
    Lemma result_spec fuel t0 x :
      let r := R fuel t0 in
      result r = Some x ->
      exists l cl, calls r = l ++ [cl] /\ c_out cl = snd (inner (c_idx cl)) /\
                   last_spec (c_idx cl) x.
    Proof.
      cbn zeta. intros Hx. pose proof (run_spec fuel t0) as H. unfold run_props in H.
      destruct H as [_ [_ [_ [Hout [_ [_ [_ [Hres _]]]]]]]].
      destruct (last_call fuel t0) as [l [cl [Hc Hi]]]. exists l, cl.
      split; [exact Hc|]. split.
      - apply Hout. rewrite Hc. apply in_or_app. right. left. reflexivity.
      - destruct (Hres x Hx) as [_ Hl]. cbn [Nat.add] in Hl. rewrite Hi. exact Hl.
    Qed.

    (* C16_state *)
    Definition returns_connected (x : option (Res + rerr)) : Prop :=
      (exists v, x = Some (inl v)) \/ (exists e, x = Some (inr (ConnectionFailedNoRetry e))).

    Lemma not_conn_repeat_dr n : Forall (fun x => x <> Connected) (repeat_dr n).
    Proof. induction n; cbn [repeat_dr]; repeat constructor; try discriminate. exact IHn. Qed.

    Lemma state_writes fuel t0 :
      let r := R fuel t0 in
      let n := length (calls r) in
      exists pre fin rest,
        writes r = pre ++ fin /\ pre = repeat_dr (n - 1) ++ rest /\
        Forall (fun x => x <> Connected) pre /\
        ((fin = [Connected] /\ returns_connected (result r)) \/
         (fin = [] /\ ~ returns_connected (result r))).
    Proof.
      cbn zeta. pose proof (run_spec fuel t0) as H. unfold run_props in H.
      destruct H as [_ [_ [_ [_ [_ [_ [_ [_ [_ [Hw Hlk]]]]]]]]]].
      cbn [Nat.add] in *. set (r := R fuel t0) in *. set (n := length (calls r)) in *.
      set (k := (n - 1)%nat) in *. rewrite Hw.
      assert (Hnc : forall l, Forall (fun x : cstate => x <> Connected) l ->
                    Forall (fun x => x <> Connected) (repeat_dr k ++ l)).
      { intros l Hl. apply Forall_app. split; [apply not_conn_repeat_dr|exact Hl]. }
      destruct (after_outcome c k (snd (inner k))) as [ws act] eqn:Ea. cbn [fst snd] in *.
      destruct act as [x|d e]; unfold res_link in Hlk.
      - apply after_return in Ea. destruct Ea as [Hrs Hws]. rewrite Hlk.
        destruct x as [v|[a e|e|e|e]]; cbn [final_write]; rewrite ?app_nil_r; subst ws.
        + exists (repeat_dr k), [Connected], []. rewrite app_nil_r.
          split; [reflexivity|]. split; [reflexivity|]. split; [apply not_conn_repeat_dr|].
          left. split; [reflexivity|]. left. exists v. reflexivity.
        + exists (repeat_dr k ++ [Disconnected]), [], [Disconnected]. rewrite app_nil_r.
          split; [reflexivity|]. split; [reflexivity|].
          split; [apply Hnc; repeat constructor; discriminate|].
          right. split; [reflexivity|]. intros [[v Hv]|[e' He]]; discriminate.
        + exists (repeat_dr k ++ [Disconnected]), [], [Disconnected]. rewrite app_nil_r.
          split; [reflexivity|]. split; [reflexivity|].
          split; [apply Hnc; repeat constructor; discriminate|].
          right. split; [reflexivity|]. intros [[v Hv]|[e' He]]; discriminate.
        + contradiction.
        + exists (repeat_dr k), [], []. rewrite !app_nil_r.
          split; [reflexivity|]. split; [reflexivity|]. split; [apply not_conn_repeat_dr|].
          right. split; [reflexivity|]. intros [[v Hv]|[e' He]]; discriminate.
      - apply after_retry in Ea. destruct Ea as [_ ->].
        assert (Hdr : Forall (fun x : cstate => x <> Connected) (repeat_dr k ++ [Disconnected; Reconnecting]))
          by (apply Hnc; repeat constructor; discriminate).
        destruct Hlk as [Hr|[[e' Hr]|Hr]]; rewrite Hr; cbn [final_write].
        + exists (repeat_dr k ++ [Disconnected; Reconnecting]), [Connected], [Disconnected; Reconnecting].
          split; [rewrite app_assoc; reflexivity|]. split; [reflexivity|]. split; [exact Hdr|].
          left. split; [reflexivity|]. right. exists e. reflexivity.
        + exists (repeat_dr k ++ [Disconnected; Reconnecting]), [], [Disconnected; Reconnecting].
          rewrite !app_nil_r. split; [reflexivity|]. split; [reflexivity|]. split; [exact Hdr|].
          right. split; [reflexivity|]. intros [[v Hv]|[e0 He]]; discriminate.
        + exists (repeat_dr k ++ [Disconnected; Reconnecting]), [], [Disconnected; Reconnecting].
          rewrite !app_nil_r. split; [reflexivity|]. split; [reflexivity|]. split; [exact Hdr|].
          right. split; [reflexivity|]. intros [[v Hv]|[e0 He]]; discriminate.
    Qed.

    (* the code counts attempts in a u32: the statements are about the code for runs with
       fewer than 2^32 - 1 retries (no overflow of [attempt]); the hypothesis is not needed
       for the model, whose counter is a nat *)
    Definition u32_run (fuel : nat) : Prop := Z.of_nat fuel + 1 < 2 ^ 32.

    Lemma call_bound_u32 fuel t0 : u32_run fuel ->
      let r := R fuel t0 in
      (1 <= length (calls r) <= S fuel)%nat /\
      (forall m, max_attempts c = Some m ->
         (length (calls r) <= m + 1)%nat /\ ((m <= fuel)%nat -> result r <> None)).
    Proof. intros _. apply call_bound. Qed.

    Lemma retries_only_reconnectable_u32 fuel t0 : u32_run fuel ->
      let r := R fuel t0 in
      let n := length (calls r) in
      map (@c_idx Res Err) (calls r) = seq 0 n /\
      (forall cl, In cl (calls r) -> c_out cl = snd (inner (c_idx cl))) /\
      (forall k, (k < n - 1)%nat ->
         exists e d, snd (inner k) = Fail e /\ should_reconnect c e = true /\
                     exceeded c (S k) = false /\ policy c (S k) = Some d /\
                     retry_on_reconnect c = true /\ snd (ready (S k)) = None).
    Proof. intros _. apply retries_only_reconnectable. Qed.

    Lemma delay_before_retry_u32 fuel t0 : u32_run fuel ->
      let r := R fuel t0 in
      (exists cl rest, calls r = cl :: rest /\ c_start cl = t0) /\
      (forall cl, In cl (calls r) -> c_end cl = c_start cl + Z.max 0 (fst (inner (c_idx cl)))) /\
      (forall l1 c1 c2 l2, calls r = l1 ++ c1 :: c2 :: l2 ->
         c_idx c2 = S (c_idx c1) /\
         exists d, policy c (c_idx c2) = Some d /\
           c_start c2 = c_end c1 + Z.max 0 d + Z.max 0 (fst (ready (c_idx c2))) /\
           c_start c2 >= c_end c1 + d /\
           (fst (ready (c_idx c2)) <= 0 -> 0 <= d -> c_start c2 = c_end c1 + d)).
    Proof. intros _. apply delay_before_retry. Qed.

    Lemma result_spec_u32 fuel t0 x : u32_run fuel ->
      let r := R fuel t0 in
      result r = Some x ->
      exists l cl, calls r = l ++ [cl] /\ c_out cl = snd (inner (c_idx cl)) /\
        match x with
        | inl v => snd (inner (c_idx cl)) = Ok v
        | inr (ServiceError e) =>
          (snd (inner (c_idx cl)) = Fail e /\ should_reconnect c e = false) \/
          (exists e0 d, sleeps_after c (c_idx cl) (snd (inner (c_idx cl))) d e0 /\
                        retry_on_reconnect c = true /\ snd (ready (S (c_idx cl))) = Some e)
        | inr (MaxAttemptsExceeded n e) =>
          snd (inner (c_idx cl)) = Fail e /\ should_reconnect c e = true /\ n = S (c_idx cl) /\
          exists m, max_attempts c = Some m /\ (m < S (c_idx cl))%nat
        | inr (ConnectionFailed e) =>
          snd (inner (c_idx cl)) = Fail e /\ should_reconnect c e = true /\
          exceeded c (S (c_idx cl)) = false /\ policy c (S (c_idx cl)) = None
        | inr (ConnectionFailedNoRetry e) =>
          (exists d, sleeps_after c (c_idx cl) (snd (inner (c_idx cl))) d e) /\
          retry_on_reconnect c = false
        end.
    Proof. intros _. apply result_spec. Qed.

    Lemma state_writes_u32 fuel t0 : u32_run fuel ->
      let r := R fuel t0 in
      let n := length (calls r) in
      exists pre fin rest,
        writes r = pre ++ fin /\ pre = repeat_dr (n - 1) ++ rest /\
        Forall (fun x => x <> Connected) pre /\
        ((fin = [Connected] /\ returns_connected (result r)) \/
         (fin = [] /\ ~ returns_connected (result r))).
    Proof. intros _. apply state_writes. Qed.
  End Run.

  (* ------------------------------------------------------------------ *)
  (* poll-granular model: several requests, one published state, any schedule *)
  Notation rin := (rin Res Err).
  Notation rst := (rst Res Err).
  Notation st := (st Res Err).

  Definition delay_of (c : cfg) (prev : call) : Z :=
    match policy c (S (c_idx prev)) with Some d => Z.max 0 d | None => 0 end.

  (* the call failed with a connection failure and the future went to sleep after it *)
  Definition reconn (c : cfg) (prev : call) : Prop :=
    exists e d, sleeps_after c (c_idx prev) (c_out prev) d e.

  Fixpoint wf_log (c : cfg) (inp : rin) (l : list call) : Prop :=
    match l with
    | [] => True
    | cl :: rest =>
      c_idx cl = length rest /\ c_out cl = snd (r_inner inp (c_idx cl)) /\
      c_start cl <= c_end cl /\
      match rest with
      | [] => True
      | prev :: _ => reconn c prev /\ retry_on_reconnect c = true /\
                     c_end prev + delay_of c prev <= c_start cl
      end /\ wf_log c inp rest
    end.

  Definition done_spec (c : cfg) (inp : rin) (t : Z) (r : rst) (x : Res + rerr) : Prop :=
    match x with
    | inl v => exists cl rest, log r = cl :: rest /\ c_idx cl = attempt r /\ c_out cl = Ok v
    | inr (ServiceError e) =>
      (exists cl rest, log r = cl :: rest /\ c_idx cl = attempt r /\ c_out cl = Fail e /\
                       should_reconnect c e = false) \/
      (exists prev rest, log r = prev :: rest /\ S (c_idx prev) = attempt r /\ reconn c prev /\
                         retry_on_reconnect c = true /\ r_ready inp (attempt r) = RErr e)
    | inr (MaxAttemptsExceeded n e) =>
      exists cl rest m, log r = cl :: rest /\ c_idx cl = attempt r /\ c_out cl = Fail e /\
                        should_reconnect c e = true /\ n = S (c_idx cl) /\
                        max_attempts c = Some m /\ (m < n)%nat
    | inr (ConnectionFailed e) =>
      exists cl rest, log r = cl :: rest /\ c_idx cl = attempt r /\ c_out cl = Fail e /\
                      should_reconnect c e = true /\ exceeded c (S (c_idx cl)) = false /\
                      policy c (S (c_idx cl)) = None
    | inr (ConnectionFailedNoRetry e) =>
      exists cl rest d, log r = cl :: rest /\ S (c_idx cl) = attempt r /\
                        sleeps_after c (c_idx cl) (c_out cl) d e /\
                        retry_on_reconnect c = false /\ c_end cl + Z.max 0 d <= t
    end.

  Definition RI (c : cfg) (inp : rin) (t : Z) (r : rst) : Prop :=
    wf_log c inp (log r) /\
    match ph r with
    | PInit => attempt r = 0%nat /\ log r = [] /\ res r = None
    | PCalling _ =>
      attempt r = length (log r) /\ res r = None /\ cur_start r <= t /\
      match log r with
      | [] => True
      | prev :: _ => reconn c prev /\ retry_on_reconnect c = true /\
                     c_end prev + delay_of c prev <= cur_start r
      end
    | PSleeping dl =>
      res r = None /\
      exists prev rest e d, log r = prev :: rest /\ S (c_idx prev) = attempt r /\
                            sleeps_after c (c_idx prev) (c_out prev) d e /\
                            last_error r = Some e /\ dl = c_end prev + Z.max 0 d
    | PReadying _ =>
      res r = None /\ retry_on_reconnect c = true /\
      exists prev rest, log r = prev :: rest /\ S (c_idx prev) = attempt r /\ reconn c prev /\
                        c_end prev + delay_of c prev <= t
    | PDone => exists x, res r = Some x /\ done_spec c inp t r x
    end.

  (* what a future has last written to the published state (None: nothing yet) *)
  Definition pub (r : rst) : option cstate :=
    match ph r with
    | PInit => None
    | PCalling _ => if (attempt r =? 0)%nat then None else Some Reconnecting
    | PSleeping _ | PReadying _ => Some Reconnecting
    | PDone =>
      match res r with
      | Some (inl _) => Some Connected
      | Some (inr (ConnectionFailedNoRetry _)) => Some Connected
      | Some (inr (MaxAttemptsExceeded _ _)) | Some (inr (ConnectionFailed _)) => Some Disconnected
      | Some (inr (ServiceError _)) => if (attempt r =? 0)%nat then None else Some Reconnecting
      | None => None
      end
    end.

  Definition last_opt (ws : list cstate) (d : option cstate) : option cstate :=
    match ws with [] => d | _ => Some (last ws Connected) end.

  Lemma last_app_ne {A} (l l' : list A) d d' : l' <> [] -> last (l ++ l') d = last l' d'.
  Proof.
    intros Hne. induction l as [|x l IH]; cbn [app].
    - destruct l' as [|y l']; [contradiction|]. clear Hne. revert y.
      induction l' as [|z l' IH']; intros y; [reflexivity|]. cbn [last] in *. apply IH'.
    - cbn [last]. destruct (l ++ l') eqn:E; [destruct l; [cbn in E; contradiction|discriminate]|].
      exact IH.
  Qed.

  Lemma last_opt_app ws ws' d : last_opt (ws ++ ws') d = last_opt ws' (last_opt ws d).
  Proof.
    destruct ws' as [|y ws']; [rewrite app_nil_r; reflexivity|].
    unfold last_opt at 1 2. destruct (ws ++ y :: ws') eqn:E; [destruct ws; discriminate|].
    rewrite <- E. f_equal. apply last_app_ne. discriminate.
  Qed.

  Lemma wf_log_length c inp cl rest : wf_log c inp (cl :: rest) -> c_idx cl = length rest.
  Proof. intros [H _]. exact H. Qed.

  Lemma delay_of_sleeps c prev d e :
    sleeps_after c (c_idx prev) (c_out prev) d e -> delay_of c prev = Z.max 0 d.
  Proof. intros [_ [_ [_ Hp]]]. unfold delay_of. rewrite Hp. reflexivity. Qed.

  Definition poll_ok (r r' : rst) (p : pres Res Err) : Prop :=
    (p = Nothing -> ph r = PDone /\ r' = r) /\
    (forall x, p = Ready x -> ph r <> PDone /\ ph r' = PDone /\ res r' = Some x).

  Lemma poll_ok_pre0 (r r1 r' : rst) p :
    ph r1 <> PDone -> ph r <> PDone -> poll_ok r1 r' p -> poll_ok r r' p.
  Proof.
    intros H1 H0 [Ha Hb]. split.
    - intros Hn. destruct (Ha Hn) as [Hx _]. contradiction.
    - intros x Hx. destruct (Hb x Hx) as [_ Hy]. split; [exact H0|exact Hy].
  Qed.

  Lemma poll_ok_pending (r : rst) : poll_ok r r Pending.
  Proof. split; [discriminate|intros x H; discriminate]. Qed.

  Lemma drive_RI (c : cfg) (inp : rin) fuel : forall t r r' ws p,
    RI c inp t r ->
    drive c inp fuel t r = (r', ws, p) ->
    RI c inp t r' /\ pub r' = last_opt ws (pub r) /\ poll_ok r r' p.
  Proof.
    induction fuel as [|f IH]; intros t r r' ws p HI Hd.
    - cbn in Hd. injection Hd as <- <- <-. split; [exact HI|]. split; [reflexivity|apply poll_ok_pending].
    - cbn [drive] in Hd. destruct HI as [Hwf Hph].
      destruct (ph r) as [|av|dl|rel|] eqn:Eph.
      + (* PInit *)
        destruct Hph as [Ha [Hl Hr]].
        eapply IH in Hd.
        * destruct Hd as [H1 [H2 H3]]. split; [exact H1|]. split.
          -- rewrite H2. f_equal. unfold pub, start_call. cbn [ph attempt]. rewrite Eph, Ha. reflexivity.
          -- eapply poll_ok_pre0; [| |exact H3]; [cbn [ph start_call]; discriminate|rewrite Eph; discriminate].
        * unfold RI, start_call. cbn [log ph attempt res cur_start].
          split; [exact Hwf|]. rewrite Hl. cbn [length].
          split; [exact Ha|]. split; [exact Hr|]. split; [lia|exact I].
      + (* PCalling *)
        destruct Hph as [Ha [Hr [Hcs Hprev]]].
        destruct av.
        2:{ injection Hd as <- <- <-. split; [split; [exact Hwf|rewrite Eph; repeat split; assumption]|].
            split; [reflexivity|apply poll_ok_pending]. }
        set (o := snd (r_inner inp (attempt r))) in *.
        set (cl := mkCall (attempt r) (cur_start r) t o) in *.
        assert (Hwf' : wf_log c inp (cl :: log r)).
        { cbn [wf_log]. subst cl. cbn [c_idx c_out c_start c_end].
          split; [exact Ha|]. split; [reflexivity|]. split; [exact Hcs|].
          split; [|exact Hwf]. destruct (log r); [exact I|exact Hprev]. }
        assert (Hpub : pub r = if (attempt r =? 0)%nat then None else Some Reconnecting)
          by (unfold pub; rewrite Eph; reflexivity).
        destruct (after_outcome c (attempt r) o) as [ws0 act] eqn:Ea.
        destruct act as [x|d e].
        * injection Hd as <- <- <-.
          apply after_return in Ea. destruct Ea as [Hrs Hws].
          split.
          { unfold RI. cbn [log ph attempt res cur_start]. split; [exact Hwf'|].
            exists x. split; [reflexivity|]. unfold done_spec, returns_spec in *. cbn [log attempt].
            destruct x as [v|[n e|e|e|e]].
            - exists cl, (log r). repeat split; assumption.
            - destruct Hrs as [Ho [Hs [Hn [m [Hm Hlt]]]]]. exists cl, (log r), m.
              subst cl. cbn [c_idx c_out]. repeat split; try assumption. lia.
            - destruct Hrs as [Ho [Hs [Hx Hp]]]. exists cl, (log r).
              subst cl. cbn [c_idx c_out]. repeat split; assumption.
            - contradiction.
            - destruct Hrs as [Ho Hs]. left. exists cl, (log r).
              subst cl. cbn [c_idx c_out]. repeat split; assumption. }
          split.
          { unfold pub at 1. cbn [ph res attempt]. rewrite Hpub, Hws.
            destruct x as [v|[n e|e|e|e]]; try reflexivity. contradiction. }
          split; [discriminate|]. intros x0 Hx. injection Hx as <-.
          split; [rewrite Eph; discriminate|]. split; reflexivity.
        * apply after_retry in Ea. destruct Ea as [Hsl Hws].
          destruct (drive c inp f t _) as [[r1 ws1] p1] eqn:Ed.
          injection Hd as <- <- <-.
          eapply IH in Ed.
          2:{ unfold RI. cbn [log ph attempt res cur_start last_error].
              split; [exact Hwf'|]. split; [exact Hr|].
              exists cl, (log r), e, d. subst cl. cbn [c_idx c_end c_out].
              split; [reflexivity|]. split; [reflexivity|]. split; [exact Hsl|]. split; reflexivity. }
          destruct Ed as [H1 [H2 H3]]. split; [exact H1|]. split.
          { rewrite H2, last_opt_app. f_equal. rewrite Hws. reflexivity. }
          eapply poll_ok_pre0; [| |exact H3]; [cbn [ph]; discriminate|rewrite Eph; discriminate].
      + (* PSleeping *)
        destruct Hph as [Hr [prev [rest [e [d [Hl [Hi [Hsl [Hle Hdl]]]]]]]]].
        assert (Hre : reconn c prev) by (exists e, d; exact Hsl).
        destruct (dl <=? t) eqn:Et.
        2:{ injection Hd as <- <- <-.
            split; [split; [exact Hwf|rewrite Eph; split; [exact Hr|];
                            exists prev, rest, e, d;
                            split; [exact Hl|]; split; [exact Hi|]; split; [exact Hsl|];
                            split; [exact Hle|exact Hdl]]|].
            split; [reflexivity|apply poll_ok_pending]. }
        apply Z.leb_le in Et. rewrite Hle in Hd.
        unfold after_sleep in Hd. destruct (retry_on_reconnect c) eqn:Hrt.
        * eapply IH in Hd.
          -- destruct Hd as [H1 [H2 H3]]. split; [exact H1|]. split.
             ++ rewrite H2. f_equal. unfold pub. cbn [ph]. rewrite Eph. reflexivity.
             ++ eapply poll_ok_pre0; [| |exact H3]; [cbn [ph]; discriminate|rewrite Eph; discriminate].
          -- unfold RI. cbn [log ph attempt res cur_start]. split; [exact Hwf|].
             split; [exact Hr|]. split; [exact Hrt|]. exists prev, rest.
             split; [exact Hl|]. split; [exact Hi|]. split; [exact Hre|].
             rewrite (delay_of_sleeps _ _ _ _ Hsl). lia.
        * injection Hd as <- <- <-. split.
          { unfold RI. cbn [log ph attempt res cur_start]. split; [exact Hwf|].
            exists (inr (ConnectionFailedNoRetry e)). split; [reflexivity|].
            unfold done_spec. cbn [log attempt]. exists prev, rest, d.
            split; [exact Hl|]. split; [exact Hi|]. split; [exact Hsl|]. split; [exact Hrt|lia]. }
          split; [reflexivity|].
          split; [discriminate|]. intros x0 Hx. injection Hx as <-.
          split; [rewrite Eph; discriminate|]. split; reflexivity.
      + (* PReadying *)
        destruct Hph as [Hr [Hrt [prev [rest [Hl [Hi [Hre Hsp]]]]]]].
        assert (Hne : (attempt r =? 0)%nat = false) by (apply Nat.eqb_neq; lia).
        assert (Hstart : RI c inp t (start_call inp t r)).
        { unfold RI, start_call. cbn [log ph attempt res cur_start]. split; [exact Hwf|].
          rewrite Hl in *. apply wf_log_length in Hwf. cbn [length].
          split; [lia|]. split; [exact Hr|]. split; [lia|].
          split; [exact Hre|]. split; [exact Hrt|exact Hsp]. }
        assert (Hpubs : pub (start_call inp t r) = pub r).
        { unfold pub, start_call. cbn [ph attempt]. rewrite Eph, Hne. reflexivity. }
        destruct (r_ready inp (attempt r)) as [|e|] eqn:Erd.
        * eapply IH in Hd; [|exact Hstart].
          destruct Hd as [H1 [H2 H3]]. split; [exact H1|]. split; [rewrite H2, Hpubs; reflexivity|].
          eapply poll_ok_pre0; [| |exact H3]; [cbn [ph start_call]; discriminate|rewrite Eph; discriminate].
        * injection Hd as <- <- <-. split.
          { unfold RI. cbn [log ph attempt res cur_start]. split; [exact Hwf|].
            exists (inr (ServiceError e)). split; [reflexivity|].
            unfold done_spec. cbn [log attempt]. right. exists prev, rest. repeat split; assumption. }
          split.
          { unfold pub. cbn [ph res attempt last_opt]. rewrite Eph, Hne. reflexivity. }
          split; [discriminate|]. intros x0 Hx. injection Hx as <-.
          split; [rewrite Eph; discriminate|]. split; reflexivity.
        * destruct rel.
          -- eapply IH in Hd; [|exact Hstart].
             destruct Hd as [H1 [H2 H3]]. split; [exact H1|]. split; [rewrite H2, Hpubs; reflexivity|].
             eapply poll_ok_pre0; [| |exact H3]; [cbn [ph start_call]; discriminate|rewrite Eph; discriminate].
          -- injection Hd as <- <- <-.
             split; [split; [exact Hwf|rewrite Eph; split; [exact Hr|]; split; [exact Hrt|];
                             exists prev, rest; repeat split; assumption]|].
             split; [reflexivity|apply poll_ok_pending].
      + injection Hd as <- <- <-. split; [split; [exact Hwf|rewrite Eph; exact Hph]|].
        split; [reflexivity|]. split; [intros _; split; [exact Eph|reflexivity]|discriminate].
  Qed.

  (* an attempt counter only grows in a poll that writes the published state *)
  Lemma drive_attempt (c : cfg) (inp : rin) fuel : forall t r r' ws p,
    drive c inp fuel t r = (r', ws, p) ->
    (attempt r <= attempt r')%nat /\ ((attempt r < attempt r')%nat -> ws <> []).
  Proof.
    induction fuel as [|f IH]; intros t r r' ws p Hd.
    - cbn in Hd. injection Hd as <- <- <-. split; lia.
    - cbn [drive] in Hd. destruct (ph r) as [|[|]|dl|rel|].
      + apply IH in Hd. exact Hd.
      + destruct (after_outcome c (attempt r) (snd (r_inner inp (attempt r)))) as [ws0 act] eqn:Ea.
        destruct act as [x|d e].
        * injection Hd as <- <- <-. cbn [attempt]. split; lia.
        * apply after_retry in Ea. destruct Ea as [_ ->].
          destruct (drive c inp f t _) as [[r1 ws1] p1] eqn:Ed.
          injection Hd as <- <- <-. apply IH in Ed. cbn [attempt] in Ed.
          split; [lia|]. intros _. discriminate.
      + injection Hd as <- <- <-. split; lia.
      + destruct (dl <=? t); [|injection Hd as <- <- <-; split; lia].
        destruct (last_error r) as [e|]; [|injection Hd as <- <- <-; split; lia].
        destruct (after_sleep c e) as [[ws0 x]|].
        * injection Hd as <- <- <-. cbn [attempt]. split; lia.
        * apply IH in Hd. exact Hd.
      + destruct (r_ready inp (attempt r)) as [|e|].
        * apply IH in Hd. exact Hd.
        * injection Hd as <- <- <-. cbn [attempt]. split; lia.
        * destruct rel; [apply IH in Hd; exact Hd|injection Hd as <- <- <-; split; lia].
      + injection Hd as <- <- <-. split; lia.
  Qed.

  (* ---------- global invariant ---------- *)
  Lemma upd_same {A} (f : nat -> A) i v : upd f i v i = v.
  Proof. unfold upd. rewrite Nat.eqb_refl. reflexivity. Qed.
  Lemma upd_other {A} (f : nat -> A) i v j : j <> i -> upd f i v j = f j.
  Proof. intros H. unfold upd. apply Nat.eqb_neq in H. rewrite H. reflexivity. Qed.

  (* the published state is what its last writer wrote (Disconnected before any write) *)
  Definition SI (s : st) : Prop :=
    match writer s with
    | None => cs s = Disconnected /\ forall i, pub (reqs s i) = None
    | Some i => pub (reqs s i) = Some (cs s)
    end.

  Definition GI (c : cfg) (inps : nat -> rin) (s : st) : Prop :=
    (forall i, RI c (inps i) (now s) (reqs s i)) /\ SI s.

  Lemma RI_mono c inp t t' r : t <= t' -> RI c inp t r -> RI c inp t' r.
  Proof.
    intros Ht [Hwf H]. split; [exact Hwf|]. destruct (ph r); try exact H.
    - destruct H as [H1 [H2 [H3 H4]]]. repeat split; try assumption. lia.
    - destruct H as [H1 [H2 [prev [rest [H3 [H4 [H5 H6]]]]]]]. split; [exact H1|]. split; [exact H2|].
      exists prev, rest. repeat split; try assumption. lia.
    - destruct H as [x [Hr Hd]]. exists x. split; [exact Hr|].
      unfold done_spec in *. destruct x as [v|[n e|e|e|e]]; try exact Hd.
      destruct Hd as [cl [rest [d [H1 [H2 [H3 [H4 H5]]]]]]]. exists cl, rest, d.
      repeat split; try assumption; try apply H3. lia.
  Qed.

  Lemma GI_init c inps : GI c inps init.
  Proof.
    split.
    - intros i. unfold RI. cbn. tauto.
    - unfold SI. cbn. split; reflexivity.
  Qed.

  Lemma last_nonempty {A} (l : list A) d d' : l <> [] -> last l d = last l d'.
  Proof. intros H. apply (last_app_ne [] l d d' H). Qed.

  Lemma pub_flag_calling (r : rst) av av' :
    ph r = PCalling av ->
    pub (mkRst (PCalling av') (attempt r) (last_error r) (cur_start r) (log r) (res r)) = pub r.
  Proof. intros H. unfold pub. cbn [ph attempt]. rewrite H. reflexivity. Qed.

  Lemma pub_flag_readying (r : rst) rel rel' :
    ph r = PReadying rel ->
    pub (mkRst (PReadying rel') (attempt r) (last_error r) (cur_start r) (log r) (res r)) = pub r.
  Proof. intros H. unfold pub. cbn [ph]. rewrite H. reflexivity. Qed.

  (* replacing the state of request i by one with the same published value keeps SI *)
  Lemma SI_upd_same (s : st) i r' t wk pl :
    SI s -> pub r' = pub (reqs s i) ->
    SI (mkSt t (cs s) (upd (reqs s) i r') wk pl (writer s)).
  Proof.
    unfold SI. cbn [writer cs reqs]. intros H Hp. destruct (writer s) as [w|].
    - destruct (Nat.eq_dec w i) as [->|Hne]; [rewrite upd_same, Hp; exact H|].
      rewrite upd_other by exact Hne. exact H.
    - destruct H as [H1 H2]. split; [exact H1|]. intros j.
      destruct (Nat.eq_dec j i) as [->|Hne]; [rewrite upd_same, Hp; apply H2|].
      rewrite upd_other by exact Hne. apply H2.
  Qed.

  Lemma GI_step c inps pf s e : GI c inps s -> GI c inps (step_st c inps pf s e).
  Proof.
    intros [HR HS]. unfold step_st. destruct e as [i|d|i|i|i]; cbn [step].
    - (* Poll *)
      destruct (drive c (inps i) pf (now s) (reqs s i)) as [[r' ws] p] eqn:Ed.
      cbn [fst]. destruct (drive_RI _ _ _ _ _ _ _ _ (HR i) Ed) as [H1 [H2 _]].
      split.
      + intros j. cbn [now reqs].
        destruct (Nat.eq_dec j i) as [->|Hne]; [rewrite upd_same; exact H1|].
        rewrite upd_other by exact Hne. apply HR.
      + destruct ws as [|w ws].
        * cbn [last]. apply SI_upd_same; [exact HS|exact H2].
        * unfold SI. cbn [writer cs reqs]. rewrite upd_same, H2. cbn [last_opt]. f_equal.
          apply last_nonempty. discriminate.
    - (* Advance *)
      cbn [fst]. split.
      + intros i. cbn [now reqs]. eapply RI_mono; [|apply HR]. lia.
      + exact HS.
    - (* Complete *)
      destruct (ph (reqs s i)) as [|[|]|dl|rel|] eqn:Eph; cbn [fst]; try (split; assumption).
      split.
      + intros j. cbn [now reqs].
        destruct (Nat.eq_dec j i) as [->|Hne]; [|rewrite upd_other by exact Hne; apply HR].
        rewrite upd_same. specialize (HR i). unfold RI in *. rewrite Eph in HR.
        cbn [ph log attempt res cur_start]. exact HR.
      + apply SI_upd_same; [exact HS|]. eapply pub_flag_calling. exact Eph.
    - (* MakeReady *)
      destruct (ph (reqs s i)) as [|av|dl|[|]|] eqn:Eph; cbn [fst]; try (split; assumption).
      split.
      + intros j. cbn [now reqs].
        destruct (Nat.eq_dec j i) as [->|Hne]; [|rewrite upd_other by exact Hne; apply HR].
        rewrite upd_same. specialize (HR i). unfold RI in *. rewrite Eph in HR.
        cbn [ph log attempt res cur_start]. exact HR.
      + apply SI_upd_same; [exact HS|]. eapply pub_flag_readying. exact Eph.
    - (* Call *)
      destruct (ph (reqs s i)) as [|av|dl|rel|] eqn:Eph; cbn [fst]; try (split; assumption).
      pose proof (HR i) as [Hwf Hi]. rewrite Eph in Hi. destruct Hi as [Ha [Hl Hr]].
      split.
      + intros j. cbn [now reqs].
        destruct (Nat.eq_dec j i) as [->|Hne]; [|rewrite upd_other by exact Hne; apply HR].
        rewrite upd_same. unfold RI, start_call. cbn [log ph attempt res cur_start].
        split; [exact Hwf|]. rewrite Hl. cbn [length].
        split; [exact Ha|]. split; [exact Hr|]. split; [lia|exact I].
      + apply SI_upd_same; [exact HS|]. unfold pub, start_call. cbn [ph attempt].
        rewrite Eph, Ha. reflexivity.
  Qed.

  Lemma GI_reach c inps pf evs : Forall (GI c inps) (states (step_st c inps pf) init evs).
  Proof. apply reach_inv; [apply GI_init|]. intros s e H. apply GI_step. exact H. Qed.

  Lemma started_length (r : rst) :
    length (started_calls r) =
    (length (log r) + match ph r with PCalling _ => 1 | _ => 0 end)%nat.
  Proof.
    unfold started_calls. rewrite app_length, map_length, rev_length.
    destruct (ph r); reflexivity.
  Qed.

  Lemma reconn_le c prev m : reconn c prev -> max_attempts c = Some m -> (S (c_idx prev) <= m)%nat.
  Proof.
    intros [e [d [_ [_ [Hx _]]]]] Hm. unfold exceeded in Hx. rewrite Hm in Hx.
    apply Nat.ltb_ge in Hx. exact Hx.
  Qed.

  Lemma wf_log_bound c inp l m :
    wf_log c inp l -> max_attempts c = Some m -> (length l <= m + 1)%nat.
  Proof.
    intros Hwf Hm. destruct l as [|cl rest]; [cbn; lia|].
    cbn [wf_log] in Hwf. destruct Hwf as [Hi [_ [_ [Hp Hwf]]]]. cbn [length].
    destruct rest as [|prev rest']; [cbn; lia|].
    destruct Hp as [Hre _]. pose proof (reconn_le _ _ _ Hre Hm) as Hle.
    apply wf_log_length in Hwf. cbn [length] in *. lia.
  Qed.

  (* C16_call_bound at poll granularity *)
  Lemma RI_calls c inp t r m :
    RI c inp t r -> max_attempts c = Some m -> (length (started_calls r) <= m + 1)%nat.
  Proof.
    intros [Hwf H] Hm. rewrite started_length.
    pose proof (wf_log_bound _ _ _ _ Hwf Hm) as Hb.
    destruct (ph r) as [|av|dl|rel|]; try lia.
    destruct H as [_ [_ [_ Hp]]]. destruct (log r) as [|prev rest] eqn:El; [cbn; lia|].
    destruct Hp as [Hre _]. pose proof (reconn_le _ _ _ Hre Hm) as Hle.
    apply wf_log_length in Hwf. cbn [length]. lia.
  Qed.

  Definition sched_spec (c : cfg) (inp : rin) (t : Z) (r : rst) : Prop :=
    (forall m, max_attempts c = Some m -> (length (started_calls r) <= m + 1)%nat) /\
    wf_log c inp (log r) /\
    (forall av prev rest, ph r = PCalling av -> log r = prev :: rest ->
        reconn c prev /\ retry_on_reconnect c = true /\
        c_end prev + delay_of c prev <= cur_start r) /\
    (ph r = PDone <-> res r <> None) /\
    (forall x, res r = Some x -> done_spec c inp t r x).

  Lemma RI_sched c inp t r : RI c inp t r -> sched_spec c inp t r.
  Proof.
    intros H. split; [intros m Hm; eapply RI_calls; eassumption|].
    destruct H as [Hwf H]. split; [exact Hwf|].
    destruct (ph r) as [|av|dl|rel|] eqn:Eph.
    - destruct H as [_ [_ Hr]]. rewrite Hr.
      split; [discriminate|]. split; [split; [discriminate|congruence]|discriminate].
    - destruct H as [_ [Hr [_ Hp]]]. rewrite Hr.
      split; [intros av' prev rest _ Hl; rewrite Hl in Hp; exact Hp|].
      split; [split; [discriminate|congruence]|discriminate].
    - destruct H as [Hr _]. rewrite Hr.
      split; [discriminate|]. split; [split; [discriminate|congruence]|discriminate].
    - destruct H as [Hr _]. rewrite Hr.
      split; [discriminate|]. split; [split; [discriminate|congruence]|discriminate].
    - destruct H as [x [Hr Hd]]. rewrite Hr.
      split; [discriminate|]. split; [split; [discriminate|reflexivity]|].
      intros x' E. injection E as <-. exact Hd.
  Qed.

  Lemma any_schedule (c : cfg) (inps : nat -> rin) pf evs :
    Forall (fun s => forall i, sched_spec c (inps i) (now s) (reqs s i))
           (states (step_st c inps pf) init evs).
  Proof.
    eapply Forall_impl; [|apply (GI_reach c inps pf evs)].
    intros s [HR _] i. apply RI_sched. apply HR.
  Qed.

  (* C16_state at poll granularity *)
  Lemma state_any (c : cfg) (inps : nat -> rin) pf evs :
    Forall (fun s => match writer s with
                     | None => cs s = Disconnected /\ forall i, pub (reqs s i) = None
                     | Some i => pub (reqs s i) = Some (cs s)
                     end)
           (states (step_st c inps pf) init evs).
  Proof.
    eapply Forall_impl; [|apply (GI_reach c inps pf evs)]. intros s [_ HS]. exact HS.
  Qed.

  Lemma poll_event (c : cfg) (inps : nat -> rin) pf evs i :
    let s := fold_left (step_st c inps pf) evs init in
    let s' := fst (step c inps pf s (Poll i)) in
    let o := snd (step c inps pf s (Poll i)) in
    (o_res o = Nothing -> ph (reqs s i) = PDone /\ reqs s' i = reqs s i) /\
    (forall x, o_res o = Ready x ->
       ph (reqs s i) <> PDone /\ ph (reqs s' i) = PDone /\ res (reqs s' i) = Some x /\
       match x with
       | inl _ | inr (ConnectionFailedNoRetry _) => cs s' = Connected
       | inr (MaxAttemptsExceeded _ _) | inr (ConnectionFailed _) => cs s' = Disconnected
       | inr (ServiceError _) => cs s' = cs s \/ cs s' = Reconnecting
       end) /\
    ((attempt (reqs s i) < attempt (reqs s' i))%nat ->
       writer s' = Some i /\
       match ph (reqs s' i) with
       | PCalling _ | PSleeping _ | PReadying _ => cs s' = Reconnecting
       | _ => True
       end).
  Proof.
    cbn zeta. set (s := fold_left (step_st c inps pf) evs init).
    assert (HG : GI c inps s).
    { apply fold_left_inv; [apply GI_init|]. intros s0 e H. apply GI_step. exact H. }
    pose proof (GI_step c inps pf s (Poll i) HG) as [_ HS'].
    destruct HG as [HR HS]. unfold step_st in HS'. cbn [step] in *.
    destruct (drive c (inps i) pf (now s) (reqs s i)) as [[r' ws] p] eqn:Ed.
    cbn [fst snd o_res reqs cs writer] in *. rewrite upd_same.
    destruct (drive_RI _ _ _ _ _ _ _ _ (HR i) Ed) as [H1 [H2 [P1 P2]]].
    destruct (drive_attempt _ _ _ _ _ _ _ _ Ed) as [A1 A2].
    assert (Hcs : ws <> [] -> pub r' = Some (last ws (cs s))).
    { intros Hne. rewrite H2. destruct ws as [|w ws]; [contradiction|]. cbn [last_opt]. f_equal.
      apply last_nonempty. discriminate. }
    split; [exact P1|]. split.
    - intros x Hx. destruct (P2 x Hx) as [Q1 [Q2 Q3]].
      split; [exact Q1|]. split; [exact Q2|]. split; [exact Q3|].
      assert (Hpr : pub r' = match x with
                             | inl _ | inr (ConnectionFailedNoRetry _) => Some Connected
                             | inr (MaxAttemptsExceeded _ _) | inr (ConnectionFailed _) => Some Disconnected
                             | inr (ServiceError _) => if (attempt r' =? 0)%nat then None else Some Reconnecting
                             end).
      { unfold pub. rewrite Q2, Q3. destruct x as [v|[n e|e|e|e]]; reflexivity. }
      assert (Hnd : pub (reqs s i) = None \/ pub (reqs s i) = Some Reconnecting).
      { unfold pub. destruct (ph (reqs s i)); try (left; reflexivity); try (right; reflexivity);
          try contradiction. destruct (attempt (reqs s i) =? 0)%nat; [left|right]; reflexivity. }
      destruct ws as [|w ws].
      + (* no write in this poll *)
        cbn [last_opt] in H2. cbn [last]. rewrite H2 in Hpr.
        destruct x as [v|[n e|e|e|e]]; try (destruct Hnd as [Hn|Hn]; rewrite Hn in Hpr; discriminate).
        left. reflexivity.
      + specialize (Hcs ltac:(discriminate)). rewrite Hcs in Hpr.
        destruct x as [v|[n e|e|e|e]]; try (injection Hpr as Hpr; exact Hpr).
        destruct (attempt r' =? 0)%nat; [discriminate|]. injection Hpr as Hpr. right. exact Hpr.
    - intros Hlt. specialize (A2 Hlt). specialize (Hcs A2).
      destruct ws as [|w ws]; [contradiction|]. split; [reflexivity|].
      unfold pub in Hcs. destruct (ph r'); try exact I.
      + replace (attempt r' =? 0)%nat with false in Hcs by (symmetry; apply Nat.eqb_neq; lia).
        injection Hcs as Hcs. symmetry. exact Hcs.
      + injection Hcs as Hcs. symmetry. exact Hcs.
      + injection Hcs as Hcs. symmetry. exact Hcs.
  Qed.

  Lemma poll_before_deadline (c : cfg) (inp : rin) f t r dl :
    ph r = PSleeping dl -> t < dl -> drive c inp (S f) t r = (r, [], Pending).
  Proof.
    intros Hp Ht. cbn [drive]. rewrite Hp.
    replace (dl <=? t) with false by (symmetry; apply Z.leb_gt; exact Ht). reflexivity.
  Qed.

  Lemma poll_at_deadline (c : cfg) (inp : rin) f t r dl e :
    ph r = PSleeping dl -> dl <= t -> last_error r = Some e -> retry_on_reconnect c = true ->
    r_ready inp (attempt r) = ROk ->
    drive c inp (S (S f)) t r =
    drive c inp f t (mkRst (PCalling (negb (fst (r_inner inp (attempt r))))) (attempt r)
                           (last_error r) t (log r) (res r)).
  Proof.
    intros Hp Ht He Hrt Hr. cbn [drive]. rewrite Hp.
    replace (dl <=? t) with true by (symmetry; apply Z.leb_le; exact Ht).
    rewrite He. unfold after_sleep. rewrite Hrt. cbn [ph attempt]. rewrite Hr. reflexivity.
  Qed.
End ReconnectProofs.

(* ---------- non-vacuity: every result variant and state is reachable ---------- *)
Module Examples.
  Definition c1 (mx : option nat) (pol : nat -> option Z) (rt : bool) : cfg Zerr :=
    {| pred := Some (fun e => snd e); max_attempts := mx; policy := pol; retry_on_reconnect := rt |}.
  Definition fixed5 (a : nat) : option Z := Some 5.
  Definition fails_then_ok (n : nat) (k : nat) : Z * outcome Z Zerr :=
    (3, if (k <? n)%nat then Fail (Z.of_nat k, true) else Ok 42).
  Definition rd0 (k : nat) : Z * option Zerr := (0, None).

  Example run_ok :
    let r := reconnect_run (c1 (Some 3%nat) fixed5 true) (fails_then_ok 2) rd0 10 100 in
    map (fun cl => (c_start cl, c_end cl)) (calls r) = [(100, 103); (108, 111); (116, 119)] /\
    result r = Some (inl 42) /\
    writes r = [Disconnected; Reconnecting; Disconnected; Reconnecting; Connected].
  Proof. vm_compute. repeat split; reflexivity. Qed.

  Example run_exceeded :
    let r := reconnect_run (c1 (Some 1%nat) fixed5 true) (fails_then_ok 5) rd0 10 0 in
    length (calls r) = 2%nat /\ result r = Some (inr (MaxAttemptsExceeded 2 (1, true))) /\
    writes r = [Disconnected; Reconnecting; Disconnected].
  Proof. vm_compute. repeat split; reflexivity. Qed.

  Example run_max0 :
    result (reconnect_run (c1 (Some 0%nat) fixed5 true) (fails_then_ok 5) rd0 10 0)
    = Some (inr (MaxAttemptsExceeded 1 (0, true))).
  Proof. reflexivity. Qed.

  Example run_no_policy :
    result (reconnect_run (c1 None (fun _ => None) true) (fails_then_ok 5) rd0 10 0)
    = Some (inr (ConnectionFailed (0, true))).
  Proof. reflexivity. Qed.

  Example run_no_retry :
    let r := reconnect_run (c1 None fixed5 false) (fails_then_ok 5) rd0 10 0 in
    result r = Some (inr (ConnectionFailedNoRetry (0, true))) /\
    writes r = [Disconnected; Reconnecting; Connected].
  Proof. vm_compute. split; reflexivity. Qed.

  Example run_service_error :
    let r := reconnect_run (Res:=Z) (c1 None fixed5 true) (fun k => (0, Fail (7, Nat.eqb k 0))) rd0 10 0 in
    result r = Some (inr (ServiceError (7, false))) /\ length (calls r) = 2%nat /\
    writes r = [Disconnected; Reconnecting].
  Proof. vm_compute. repeat split; reflexivity. Qed.

  Example run_unlimited_out_of_fuel :
    let r := reconnect_run (c1 None fixed5 true) (fails_then_ok 100) rd0 7 0 in
    result r = None /\ length (calls r) = 8%nat.
  Proof. vm_compute. split; reflexivity. Qed.

  Definition inp (i : nat) : rin Z Zerr :=
    {| r_inner := fun k => (true, if (k <? 1)%nat then Fail (Z.of_nat (10 * i + k), true) else Ok 42);
       r_ready := fun _ => ROk |}.
  Definition evs : list ev :=
    [CallEv 0; Advance 3; Complete 0; Poll 0; Advance 5; Poll 0; Advance 3; Complete 0].
  Definition smid := fold_left (step_st (c1 (Some 2%nat) fixed5 true) inp 20) evs init.
  Definition sfin := step_st (c1 (Some 2%nat) fixed5 true) inp 20 smid (Poll 0).

  Example event_level :
    cs smid = Reconnecting /\ writer smid = Some 0%nat /\
    started_calls (reqs smid 0) = [(0, 3); (8, -1)] /\
    cs sfin = Connected /\ res (reqs sfin 0) = Some (inl 42) /\
    started_calls (reqs sfin 0) = [(0, 3); (8, 11)].
  Proof. vm_compute. repeat split; reflexivity. Qed.

  Example event_matches_run :
    map (fun cl => (c_start cl, c_end cl))
        (calls (reconnect_run (c1 (Some 2%nat) fixed5 true) (fun k => (3, snd (r_inner (inp 0) k))) rd0 5 0)) =
    started_calls (reqs sfin 0).
  Proof. vm_compute. reflexivity. Qed.
End Examples.
