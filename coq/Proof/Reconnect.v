(* Proofs about Model/Reconnect.v: the run of one request as a function of its outcome
   stream ([reconnect_run]), invariants of the poll-granular step machine of several requests
   sharing the published connection state ([step], what run_script executes), progress of one
   poll under the cooperative budget, the state clause for one request, and the refinement
   between the two layers: what the step machine does for a request that has returned is
   exactly a run of [reconnect_run]. *)
From TR Require Import Lib.Base Lib.TokioTime Model.Reconnect.

Lemma app_eq_len {A} (l1 l1' l2 l2' : list A) :
  length l1 = length l1' -> l1 ++ l2 = l1' ++ l2' -> l1 = l1' /\ l2 = l2'.
Proof.
  revert l1'. induction l1 as [|x l1 IH]; intros [|y l1'] Hl H; try discriminate.
  - split; [reflexivity|exact H].
  - cbn in H. inversion H; subst. cbn in Hl. destruct (IH l1') as [-> ->]; [lia|assumption|].
    split; reflexivity.
Qed.

Section ReconnectProofs.
  Context {Res Err : Type}.
  Notation outcome := (outcome Res Err).
  Notation call := (call Res Err).
  Notation run := (run Res Err).
  Notation cfg := (cfg Err).
  Notation rerr := (rerr Err).

  (* ------------------------------------------------------------------ *)
  (* the Calling arm *)

  (* a failure after which the future goes to sleep: reconnectable, attempt number
     within max_attempts, and the policy gives a delay *)
  Definition sleeps_after (c : cfg) (a : nat) (o : outcome) (d : Z) (e : Err) : Prop :=
    o = Fail e /\ should_reconnect c e = true /\ exceeded c (S a) = false /\
    delay_at c (S a) = Some d.

  Lemma after_retry (c : cfg) a (o : outcome) ws d e :
    after_outcome c a o = (ws, ARetry d e) ->
    sleeps_after c a o d e /\ ws = [Disconnected; Reconnecting].
  Proof.
    unfold after_outcome, sleeps_after. destruct o as [v|e0]; [discriminate|].
    destruct (should_reconnect c e0) eqn:Es; cbn [negb]; [|discriminate].
    destruct (exceeded c (S a)) eqn:Ex; [discriminate|].
    destruct (delay_at c (S a)) as [d0|] eqn:Ep; [|discriminate].
    intros H. inversion H; subst. repeat split; assumption.
  Qed.

  (* ---- the attempt counter: a u32 that saturates; a count that no longer fits exceeds
     every max_attempts ---- *)
  Lemma exceeded_false_le (c : cfg) a m :
    exceeded c a = false -> max_attempts c = Some m -> (a <= m)%nat.
  Proof.
    unfold exceeded. intros H Hm. rewrite Hm in H.
    destruct (Z.of_nat a <=? U32MAX); [|discriminate]. apply Nat.ltb_ge in H. exact H.
  Qed.

  Lemma exceeded_of_lt (c : cfg) a m :
    max_attempts c = Some m -> (m < a)%nat -> exceeded c a = true.
  Proof.
    unfold exceeded. intros Hm Hlt. rewrite Hm.
    destruct (Z.of_nat a <=? U32MAX); [|reflexivity]. apply Nat.ltb_lt. exact Hlt.
  Qed.

  (* for a max_attempts that is a u32 — every value the builder accepts — the test is the
     mathematical one, for every count, also beyond 2^32 *)
  Lemma exceeded_u32 (c : cfg) a m :
    max_attempts c = Some m -> Z.of_nat m <= U32MAX -> exceeded c a = (m <? a)%nat.
  Proof.
    unfold exceeded. intros Hm Hle. rewrite Hm.
    destruct (Z.of_nat a <=? U32MAX) eqn:E; [reflexivity|].
    apply Z.leb_gt in E. symmetry. apply Nat.ltb_lt. lia.
  Qed.

  Lemma exceeded_overflow (c : cfg) a m :
    max_attempts c = Some m -> U32MAX < Z.of_nat a -> exceeded c a = true.
  Proof.
    unfold exceeded. intros Hm Hlt. rewrite Hm.
    replace (Z.of_nat a <=? U32MAX) with false by (symmetry; apply Z.leb_gt; exact Hlt). reflexivity.
  Qed.

  Lemma exceeded_unlimited (c : cfg) a : max_attempts c = None -> exceeded c a = false.
  Proof. unfold exceeded. intros ->. reflexivity. Qed.

  Lemma sat32_small a : Z.of_nat a <= U32MAX -> sat32 a = a.
  Proof. unfold sat32. intros H. replace (Z.of_nat a <=? U32MAX) with true by (symmetry; apply Z.leb_le; exact H). reflexivity. Qed.

  (* the step from a saturated counter: after u32::MAX counted failures, the next connection
     failure ends the request with MaxAttemptsExceeded whatever finite maximum is configured *)
  Lemma overflow_step (c : cfg) a (e : Err) m :
    max_attempts c = Some m -> should_reconnect c e = true -> U32MAX <= Z.of_nat a ->
    after_outcome (Res:=Res) c a (Fail e) =
    ([Disconnected], AReturn (inr (MaxAttemptsExceeded (Z.to_nat U32MAX) e))).
  Proof.
    intros Hm Hs Ha. unfold after_outcome. rewrite Hs. cbn [negb].
    rewrite (exceeded_overflow c (S a) m Hm) by lia.
    unfold sat32. replace (Z.of_nat (S a) <=? U32MAX) with false by (symmetry; apply Z.leb_gt; lia).
    reflexivity.
  Qed.

  Definition returns_spec (c : cfg) (a : nat) (o : outcome) (x : Res + rerr) : Prop :=
    match x with
    | inl v => o = Ok v
    | inr (ServiceError e) => o = Fail e /\ should_reconnect c e = false
    | inr (MaxAttemptsExceeded n e) =>
      o = Fail e /\ should_reconnect c e = true /\ n = sat32 (S a) /\ exceeded c (S a) = true
    | inr (ConnectionFailed e) =>
      o = Fail e /\ should_reconnect c e = true /\ exceeded c (S a) = false /\ delay_at c (S a) = None
    | inr (ConnectionFailedNoRetry _) => False
    end.

  Lemma after_return (c : cfg) a (o : outcome) ws x :
    after_outcome c a o = (ws, AReturn x) ->
    returns_spec c a o x /\
    ws = match x with
         | inl _ => [Connected]
         | inr (ServiceError _) => []
         | inr _ => [Disconnected]
         end.
  Proof.
    unfold after_outcome, returns_spec. destruct o as [v|e].
    - intros H. inversion H; subst. split; reflexivity.
    - destruct (should_reconnect c e) eqn:Es; cbn [negb].
      + destruct (exceeded c (S a)) eqn:Ex.
        * intros H. inversion H; subst. split; [|reflexivity].
          split; [reflexivity|]. split; [exact Es|]. split; reflexivity.
        * destruct (delay_at c (S a)) as [d|] eqn:Ep; intros H; inversion H; subst.
          split; [|reflexivity]. repeat split; assumption.
      + intros H. inversion H; subst. split; [|reflexivity]. split; [reflexivity|exact Es].
  Qed.

  (* attempt a is the last inner call (when the run is not cut by fuel) *)
  Definition stop_at (c : cfg) (inner : nat -> Z * outcome) (ready : nat -> Z * option Err)
             (a : nat) : bool :=
    match snd (inner a) with
    | Ok _ => true
    | Fail e =>
      negb (should_reconnect c e) || exceeded c (S a) ||
      (match delay_at c (S a) with Some _ => false | None => true end) ||
      negb (retry_on_reconnect c) ||
      (match snd (ready (S a)) with Some _ => true | None => false end)
    end.

  (* what the future returns, given that call a was the last one *)
  Definition last_is (c : cfg) (inner : nat -> Z * outcome) (ready : nat -> Z * option Err)
             (a : nat) (x : Res + rerr) : Prop :=
    match x with
    | inl v => snd (inner a) = Ok v
    | inr (ServiceError e) =>
      (snd (inner a) = Fail e /\ should_reconnect c e = false) \/
      (exists e0 d, sleeps_after c a (snd (inner a)) d e0 /\ retry_on_reconnect c = true /\
                    snd (ready (S a)) = Some e)
    | inr (MaxAttemptsExceeded n e) =>
      snd (inner a) = Fail e /\ should_reconnect c e = true /\ n = sat32 (S a) /\
      exceeded c (S a) = true
    | inr (ConnectionFailed e) =>
      snd (inner a) = Fail e /\ should_reconnect c e = true /\ exceeded c (S a) = false /\
      delay_at c (S a) = None
    | inr (ConnectionFailedNoRetry e) =>
      (exists d, sleeps_after c a (snd (inner a)) d e) /\ retry_on_reconnect c = false
    end.

  Definition final_write (x : option (Res + rerr)) : list cstate :=
    match x with
    | Some (inr (ConnectionFailedNoRetry _)) => [Connected]
    | _ => []
    end.

  Fixpoint repeat_dr (n : nat) : list cstate :=
    match n with O => [] | S m => Disconnected :: Reconnecting :: repeat_dr m end.

  Section Run.
    Context (c : cfg) (inner : nat -> Z * outcome) (ready : nat -> Z * option Err).
    Notation go := (go c inner ready).
    Notation stopb := (stop_at c inner ready).
    Notation last_spec := (last_is c inner ready).

    Definition res_link (act : action Res Err) (xo : option (Res + rerr)) : Prop :=
      match act with
      | AReturn x => xo = Some x
      | ARetry d e => xo = Some (inr (ConnectionFailedNoRetry e)) \/
                      (exists e', xo = Some (inr (ServiceError e'))) \/ xo = None
      end.

    Definition run_props (fuel a : nat) (t : Z) (r : run) : Prop :=
      let n := length (calls r) in
      (1 <= n /\ n <= S fuel)%nat /\
      (forall m, max_attempts c = Some m -> (a <= m)%nat -> (a + n <= m + 1)%nat) /\
      map (@c_idx Res Err) (calls r) = seq a n /\
      (forall cl, In cl (calls r) -> c_out cl = snd (inner (c_idx cl)) /\
                                     c_end cl = c_start cl + Z.max 0 (fst (inner (c_idx cl)))) /\
      (exists cl rest, calls r = cl :: rest /\ c_start cl = t) /\
      (forall l1 c1 c2 l2, calls r = l1 ++ c1 :: c2 :: l2 ->
         exists d, delay_at c (c_idx c2) = Some d /\
         c_start c2 = ceil_ms (c_end c1 + Z.max 0 d) + Z.max 0 (fst (ready (c_idx c2)))) /\
      (forall k, (a <= k < a + n - 1)%nat -> stopb k = false) /\
      (forall x, result r = Some x -> stopb (a + n - 1)%nat = true /\ last_spec (a + n - 1)%nat x) /\
      (result r = None -> stopb (a + n - 1)%nat = false /\ n = S fuel) /\
      writes r = repeat_dr (n - 1) ++
                 fst (after_outcome c (a + n - 1) (snd (inner (a + n - 1)%nat))) ++
                 final_write (result r) /\
      res_link (snd (after_outcome c (a + n - 1) (snd (inner (a + n - 1)%nat)))) (result r).

    Lemma stop_false_of_sleeps a d e :
      sleeps_after c a (snd (inner a)) d e -> retry_on_reconnect c = true ->
      snd (ready (S a)) = None -> stopb a = false.
    Proof.
      intros [Ho [Hs [Hx Hp]]] Hr Hrd. unfold stop_at. rewrite Ho, Hs, Hx, Hp, Hr, Hrd. reflexivity.
    Qed.

    Lemma after_sleep_spec e :
      (retry_on_reconnect c = true /\ after_sleep (Res:=Res) c e = None) \/
      (retry_on_reconnect c = false /\
       after_sleep (Res:=Res) c e = Some ([Connected], inr (ConnectionFailedNoRetry e))).
    Proof. unfold after_sleep. destruct (retry_on_reconnect c); [left|right]; split; reflexivity. Qed.

    Lemma single_props fuel a t xo ws :
      (forall x, xo = Some x -> stopb a = true /\ last_spec a x) ->
      (xo = None -> stopb a = false /\ (1 = S fuel)%nat) ->
      ws = fst (after_outcome c a (snd (inner a))) ++ final_write xo ->
      res_link (snd (after_outcome c a (snd (inner a)))) xo ->
      run_props fuel a t
        (mkRun [mkCall a t (t + Z.max 0 (fst (inner a))) (snd (inner a))] xo ws).
    Proof.
      intros Hx Hn Hw Hlk. unfold run_props. cbn [calls result writes length].
      replace (a + 1 - 1)%nat with a by lia.
      split; [lia|]. split; [intros m _ Hm; lia|]. split; [reflexivity|].
      split; [intros cl [<-|[]]; split; reflexivity|].
      split; [eexists; eexists; split; reflexivity|].
      split; [intros l1 c1 c2 l2 H; destruct l1 as [|? [|? ?]]; discriminate|].
      split; [intros k Hk; lia|].
      split; [exact Hx|]. split; [exact Hn|]. split; [exact Hw|exact Hlk].
    Qed.

    Lemma return_stop a x :
      returns_spec c a (snd (inner a)) x -> stopb a = true /\ last_spec a x.
    Proof.
      unfold stop_at, last_is, returns_spec. destruct x as [v|[n e|e|e|e]].
      - intros ->. split; reflexivity.
      - intros [Ho [Hs [Hn Hx]]]. rewrite Ho, Hs, Hx.
        split; [reflexivity|]. split; [reflexivity|]. split; [reflexivity|]. split; [exact Hn|reflexivity].
      - intros [Ho [Hs [Hx Hp]]]. rewrite Ho, Hs, Hx, Hp. split; [reflexivity|].
        repeat split; reflexivity.
      - intros [].
      - intros [Ho Hs]. rewrite Ho, Hs. split; [reflexivity|]. left. split; reflexivity.
    Qed.

    Lemma return_case fuel a t ws x :
      after_outcome c a (snd (inner a)) = (ws, AReturn x) ->
      run_props fuel a t
        (mkRun [mkCall a t (t + Z.max 0 (fst (inner a))) (snd (inner a))] (Some x) ws).
    Proof.
      intros Ea. pose proof Ea as Ea'. apply after_return in Ea'. destruct Ea' as [Hr Hws].
      apply single_props.
      - intros x0 Hx0. injection Hx0 as <-. apply return_stop. exact Hr.
      - discriminate.
      - rewrite Ea. cbn [fst].
        destruct x as [v|[n e|e|e|e]]; cbn [final_write]; rewrite ?app_nil_r; try reflexivity.
        unfold returns_spec in Hr. contradiction.
      - rewrite Ea. reflexivity.
    Qed.

    Lemma sleeps_stop_prefix a d e :
      sleeps_after c a (snd (inner a)) d e ->
      stopb a = negb (retry_on_reconnect c) ||
                (match snd (ready (S a)) with Some _ => true | None => false end).
    Proof.
      intros [Ho [Hs [Hx Hp]]]. unfold stop_at. rewrite Ho, Hs, Hx, Hp. reflexivity.
    Qed.

    Lemma go_spec fuel : forall a t, run_props fuel a t (go fuel a t).
    Proof.
      induction fuel as [|f IH]; intros a t; cbn [go];
        destruct (after_outcome c a (snd (inner a))) as [ws act] eqn:Ea;
        destruct act as [x|d e]; try (apply return_case; exact Ea).
      - (* out of fuel *)
        pose proof Ea as Ea'. apply after_retry in Ea'. destruct Ea' as [Hsl Hws].
        pose proof (sleeps_stop_prefix a d e Hsl) as Hst.
        destruct (after_sleep_spec e) as [[Hrt Has]|[Hrt Has]]; rewrite Has.
        + destruct (snd (ready (S a))) as [e'|] eqn:Er.
          * apply single_props.
            -- intros x0 Hx0. injection Hx0 as <-. rewrite Hst, Hrt. split; [reflexivity|].
               cbn. right. exists e, d. repeat split; try assumption; apply Hsl.
            -- discriminate.
            -- rewrite Ea. cbn [fst final_write]. rewrite app_nil_r. reflexivity.
            -- rewrite Ea. cbn. right. left. exists e'. reflexivity.
          * apply single_props.
            -- discriminate.
            -- intros _. rewrite Hst, Hrt. split; reflexivity.
            -- rewrite Ea. cbn [fst final_write]. rewrite app_nil_r. reflexivity.
            -- rewrite Ea. cbn. right. right. reflexivity.
        + apply single_props.
          * intros x0 Hx0. injection Hx0 as <-. rewrite Hst, Hrt. split; [reflexivity|].
            cbn. split; [exists d; exact Hsl|exact Hrt].
          * discriminate.
          * rewrite Ea. reflexivity.
          * rewrite Ea. cbn. left. reflexivity.
      - pose proof Ea as Ea'. apply after_retry in Ea'. destruct Ea' as [Hsl Hws].
        pose proof (sleeps_stop_prefix a d e Hsl) as Hst.
        destruct (after_sleep_spec e) as [[Hrt Has]|[Hrt Has]]; rewrite Has.
        + destruct (snd (ready (S a))) as [e'|] eqn:Er.
          * apply single_props.
            -- intros x0 Hx0. injection Hx0 as <-. rewrite Hst, Hrt. split; [reflexivity|].
               cbn. right. exists e, d. repeat split; try assumption; apply Hsl.
            -- discriminate.
            -- rewrite Ea. cbn [fst final_write]. rewrite app_nil_r. reflexivity.
            -- rewrite Ea. cbn. right. left. exists e'. reflexivity.
          * (* the next call *)
            specialize (IH (S a) (ceil_ms (t + Z.max 0 (fst (inner a)) + Z.max 0 d) + Z.max 0 (fst (ready (S a))))).
            set (r := go f (S a) _) in *. unfold run_props in IH.
            destruct IH as [[Hn1 Hn2] [Hmax [Hidx [Hout [Hfirst [Hsp [Hbefore [Hres [Hnone [Hwr Hlk]]]]]]]]]].
            unfold run_props. cbn [calls result writes length].
            set (n := length (calls r)) in *.
            assert (Hstop_a : stopb a = false) by (rewrite Hst, Hrt; reflexivity).
            replace (a + S n - 1)%nat with (S a + n - 1)%nat by lia.
            split; [lia|].
            split.
            { intros m Hm Ha. destruct Hsl as [_ [_ [Hx _]]].
              pose proof (exceeded_false_le c _ m Hx Hm) as Hx'. specialize (Hmax m Hm Hx'). lia. }
            split; [cbn [map seq c_idx]; f_equal; exact Hidx|].
            split; [intros cl [<-|H]; [split; reflexivity|apply Hout; exact H]|].
            split; [eexists; eexists; split; reflexivity|].
            split.
            { intros l1 c1 c2 l2 H. destruct l1 as [|x0 l1].
              - cbn [app] in H. destruct Hfirst as [cl0 [rest [Hc Hstt]]].
                rewrite Hc in H. inversion H; subst c1 c2 l2. cbn [c_end c_idx].
                assert (Hi : c_idx cl0 = S a).
                { rewrite Hc in Hidx. destruct n; [lia|]. cbn [map seq] in Hidx. congruence. }
                rewrite Hi, Hstt. exists d. split; [apply Hsl|reflexivity].
              - cbn [app] in H. inversion H. eapply Hsp. eassumption. }
            split.
            { intros k Hk. destruct (Nat.eq_dec k a) as [->|Hne]; [exact Hstop_a|].
              apply Hbefore. lia. }
            split; [exact Hres|].
            split; [intros Hn; destruct (Hnone Hn) as [H1 H2]; split; [exact H1|lia]|].
            split; [|exact Hlk].
            rewrite Hwr, Hws. replace (S n - 1)%nat with (S (n - 1)) by lia. reflexivity.
        + apply single_props.
          * intros x0 Hx0. injection Hx0 as <-. rewrite Hst, Hrt. split; [reflexivity|].
            cbn. split; [exists d; exact Hsl|exact Hrt].
          * discriminate.
          * rewrite Ea. reflexivity.
          * rewrite Ea. cbn. left. reflexivity.
    Qed.

    Notation R fuel t0 := (reconnect_run c inner ready fuel t0).

    Lemma run_spec fuel t0 : run_props fuel 0 t0 (R fuel t0).
    Proof. apply go_spec. Qed.

    Lemma stop_at_exceeded k : exceeded c (S k) = true -> stopb k = true.
    Proof.
      intros Hx. unfold stop_at. destruct (snd (inner k)) as [v|e]; [reflexivity|].
      rewrite Hx. rewrite Bool.orb_true_r. reflexivity.
    Qed.

    (* C16_call_bound *)
    Lemma call_bound fuel t0 :
      let r := R fuel t0 in
      (1 <= length (calls r) <= S fuel)%nat /\
      (forall m, max_attempts c = Some m ->
         (length (calls r) <= m + 1)%nat /\ ((m <= fuel)%nat -> result r <> None)).
    Proof.
      cbn zeta. pose proof (run_spec fuel t0) as H. unfold run_props in H.
      destruct H as [Hn [Hmax [_ [_ [_ [_ [_ [_ [Hnone _]]]]]]]]].
      split; [exact Hn|]. intros m Hm.
      assert (Hle : (length (calls (R fuel t0)) <= m + 1)%nat)
        by (specialize (Hmax m Hm); lia).
      split; [exact Hle|]. intros Hf Hr. destruct (Hnone Hr) as [Hs Hl].
      cbn [Nat.add] in Hs.
      assert (Hk : (length (calls (R fuel t0)) - 1 = m)%nat) by lia.
      rewrite Hk in Hs. rewrite stop_at_exceeded in Hs; [discriminate|].
      apply (exceeded_of_lt c _ m Hm). lia.
    Qed.

    Lemma stop_at_false k :
      stopb k = false ->
      exists e d, snd (inner k) = Fail e /\ should_reconnect c e = true /\
                  exceeded c (S k) = false /\ delay_at c (S k) = Some d /\
                  retry_on_reconnect c = true /\ snd (ready (S k)) = None.
    Proof.
      unfold stop_at. destruct (snd (inner k)) as [v|e]; [discriminate|].
      intros H. apply Bool.orb_false_iff in H. destruct H as [H Hr].
      apply Bool.orb_false_iff in H. destruct H as [H Hrt].
      apply Bool.orb_false_iff in H. destruct H as [H Hp].
      apply Bool.orb_false_iff in H. destruct H as [Hs Hx].
      destruct (delay_at c (S k)) as [d|]; [|discriminate].
      exists e, d. split; [reflexivity|].
      split; [destruct (should_reconnect c e); [reflexivity|discriminate]|].
      split; [exact Hx|]. split; [reflexivity|].
      split; [destruct (retry_on_reconnect c); [reflexivity|discriminate]|].
      destruct (snd (ready (S k))); [discriminate|reflexivity].
    Qed.

    (* C16_retries_only_reconnectable *)
    Lemma retries_only_reconnectable fuel t0 :
      let r := R fuel t0 in
      let n := length (calls r) in
      map (@c_idx Res Err) (calls r) = seq 0 n /\
      (forall cl, In cl (calls r) -> c_out cl = snd (inner (c_idx cl))) /\
      (forall k, (k < n - 1)%nat ->
         exists e d, snd (inner k) = Fail e /\ should_reconnect c e = true /\
                     exceeded c (S k) = false /\ delay_at c (S k) = Some d /\
                     retry_on_reconnect c = true /\ snd (ready (S k)) = None).
    Proof.
      cbn zeta. pose proof (run_spec fuel t0) as H. unfold run_props in H.
      destruct H as [_ [_ [Hidx [Hout [_ [_ [Hb _]]]]]]].
      split; [exact Hidx|]. split; [intros cl Hc; apply Hout; exact Hc|].
      intros k Hk. apply stop_at_false. apply Hb. lia.
    Qed.

    (* C16_delay_before_retry *)
    Lemma delay_before_retry fuel t0 :
      let r := R fuel t0 in
      (exists cl rest, calls r = cl :: rest /\ c_start cl = t0) /\
      (forall cl, In cl (calls r) -> c_end cl = c_start cl + Z.max 0 (fst (inner (c_idx cl)))) /\
      (forall l1 c1 c2 l2, calls r = l1 ++ c1 :: c2 :: l2 ->
         c_idx c2 = S (c_idx c1) /\
         exists d, delay_at c (c_idx c2) = Some d /\
           let dl := c_end c1 + Z.max 0 d in
           c_start c2 = ceil_ms dl + Z.max 0 (fst (ready (c_idx c2))) /\
           c_start c2 >= c_end c1 + d /\
           (fst (ready (c_idx c2)) <= 0 -> c_start c2 < dl + MS) /\
           (fst (ready (c_idx c2)) <= 0 -> (exists k, dl = k * MS) -> c_start c2 = dl)).
    Proof.
      cbn zeta. pose proof (run_spec fuel t0) as H. unfold run_props in H.
      destruct H as [_ [_ [Hidx [Hout [Hfirst [Hsp _]]]]]].
      split; [exact Hfirst|]. split; [intros cl Hc; apply Hout; exact Hc|].
      intros l1 c1 c2 l2 Hc. destruct (Hsp _ _ _ _ Hc) as [d [Hp Hs]].
      split.
      - rewrite Hc in Hidx. rewrite map_app in Hidx. cbn [map] in Hidx.
        rewrite app_length in Hidx. cbn [length] in Hidx.
        replace (length l1 + S (S (length l2)))%nat with (length l1 + (2 + length l2))%nat in Hidx by lia.
        rewrite seq_app in Hidx. apply app_eq_len in Hidx.
        + destruct Hidx as [_ Hidx]. cbn [seq Nat.add] in Hidx. inversion Hidx. lia.
        + rewrite map_length, seq_length. reflexivity.
      - exists d. split; [exact Hp|]. split; [exact Hs|].
        pose proof (ceil_ms_bounds (c_end c1 + Z.max 0 d)) as Hb.
        split; [lia|]. split; [lia|].
        intros Hr [k Hk]. rewrite Hs, Hk, ceil_ms_whole. lia.
    Qed.

    Lemma last_call fuel t0 :
      exists l cl, calls (R fuel t0) = l ++ [cl] /\ c_idx cl = (length (calls (R fuel t0)) - 1)%nat.
    Proof.
      pose proof (run_spec fuel t0) as H. unfold run_props in H.
      destruct H as [[H1 _] [_ [H3 _]]].
      destruct (calls (R fuel t0)) as [|x l] eqn:E using rev_ind; [cbn in H1; lia|].
      clear IHl. exists l, x. split; [reflexivity|].
      rewrite app_length in *. cbn [length] in *.
      rewrite map_app in H3. cbn [map] in H3.
      replace (length l + 1)%nat with (S (length l)) in H3 by lia.
      rewrite seq_S in H3. apply app_inj_tail in H3. destruct H3 as [_ H3].
      cbn in H3. lia.
    Qed.

    (* C16_result *)
    Lemma result_spec fuel t0 x :
      let r := R fuel t0 in
      result r = Some x ->
      exists l cl, calls r = l ++ [cl] /\ c_out cl = snd (inner (c_idx cl)) /\
                   last_spec (c_idx cl) x.
    Proof.
      cbn zeta. intros Hx. pose proof (run_spec fuel t0) as H. unfold run_props in H.
      destruct H as [_ [_ [_ [Hout [_ [_ [_ [Hres _]]]]]]]].
      destruct (last_call fuel t0) as [l [cl [Hc Hi]]]. exists l, cl.
      split; [exact Hc|]. split.
      - apply Hout. rewrite Hc. apply in_or_app. right. left. reflexivity.
      - destruct (Hres x Hx) as [_ Hl]. cbn [Nat.add] in Hl. rewrite Hi. exact Hl.
    Qed.

    (* C16_state *)
    Definition returns_connected (x : option (Res + rerr)) : Prop :=
      (exists v, x = Some (inl v)) \/ (exists e, x = Some (inr (ConnectionFailedNoRetry e))).

    Lemma not_conn_repeat_dr n : Forall (fun x => x <> Connected) (repeat_dr n).
    Proof. induction n; cbn [repeat_dr]; repeat constructor; try discriminate. exact IHn. Qed.

    Lemma state_writes fuel t0 :
      let r := R fuel t0 in
      let n := length (calls r) in
      exists pre fin rest,
        writes r = pre ++ fin /\ pre = repeat_dr (n - 1) ++ rest /\
        Forall (fun x => x <> Connected) pre /\
        ((fin = [Connected] /\ returns_connected (result r)) \/
         (fin = [] /\ ~ returns_connected (result r))).
    Proof.
      cbn zeta. pose proof (run_spec fuel t0) as H. unfold run_props in H.
      destruct H as [_ [_ [_ [_ [_ [_ [_ [_ [_ [Hw Hlk]]]]]]]]]].
      cbn [Nat.add] in *. set (r := R fuel t0) in *. set (n := length (calls r)) in *.
      set (k := (n - 1)%nat) in *. rewrite Hw.
      assert (Hnc : forall l, Forall (fun x : cstate => x <> Connected) l ->
                    Forall (fun x => x <> Connected) (repeat_dr k ++ l)).
      { intros l Hl. apply Forall_app. split; [apply not_conn_repeat_dr|exact Hl]. }
      destruct (after_outcome c k (snd (inner k))) as [ws act] eqn:Ea. cbn [fst snd] in *.
      destruct act as [x|d e]; unfold res_link in Hlk.
      - apply after_return in Ea. destruct Ea as [Hrs Hws]. rewrite Hlk.
        destruct x as [v|[a e|e|e|e]]; cbn [final_write]; rewrite ?app_nil_r; subst ws.
        + exists (repeat_dr k), [Connected], []. rewrite app_nil_r.
          split; [reflexivity|]. split; [reflexivity|]. split; [apply not_conn_repeat_dr|].
          left. split; [reflexivity|]. left. exists v. reflexivity.
        + exists (repeat_dr k ++ [Disconnected]), [], [Disconnected]. rewrite app_nil_r.
          split; [reflexivity|]. split; [reflexivity|].
          split; [apply Hnc; repeat constructor; discriminate|].
          right. split; [reflexivity|]. intros [[v Hv]|[e' He]]; discriminate.
        + exists (repeat_dr k ++ [Disconnected]), [], [Disconnected]. rewrite app_nil_r.
          split; [reflexivity|]. split; [reflexivity|].
          split; [apply Hnc; repeat constructor; discriminate|].
          right. split; [reflexivity|]. intros [[v Hv]|[e' He]]; discriminate.
        + contradiction.
        + exists (repeat_dr k), [], []. rewrite !app_nil_r.
          split; [reflexivity|]. split; [reflexivity|]. split; [apply not_conn_repeat_dr|].
          right. split; [reflexivity|]. intros [[v Hv]|[e' He]]; discriminate.
      - apply after_retry in Ea. destruct Ea as [_ ->].
        assert (Hdr : Forall (fun x : cstate => x <> Connected) (repeat_dr k ++ [Disconnected; Reconnecting]))
          by (apply Hnc; repeat constructor; discriminate).
        destruct Hlk as [Hr|[[e' Hr]|Hr]]; rewrite Hr; cbn [final_write].
        + exists (repeat_dr k ++ [Disconnected; Reconnecting]), [Connected], [Disconnected; Reconnecting].
          split; [rewrite app_assoc; reflexivity|]. split; [reflexivity|]. split; [exact Hdr|].
          left. split; [reflexivity|]. right. exists e. reflexivity.
        + exists (repeat_dr k ++ [Disconnected; Reconnecting]), [], [Disconnected; Reconnecting].
          rewrite !app_nil_r. split; [reflexivity|]. split; [reflexivity|]. split; [exact Hdr|].
          right. split; [reflexivity|]. intros [[v Hv]|[e0 He]]; discriminate.
        + exists (repeat_dr k ++ [Disconnected; Reconnecting]), [], [Disconnected; Reconnecting].
          rewrite !app_nil_r. split; [reflexivity|]. split; [reflexivity|]. split; [exact Hdr|].
          right. split; [reflexivity|]. intros [[v Hv]|[e0 He]]; discriminate.
    Qed.

  End Run.

  (* ------------------------------------------------------------------ *)
  (* poll-granular model: several requests, one published state, any schedule *)
  Notation rin := (rin Res Err).
  Notation rst := (rst Res Err).
  Notation st := (st Res Err).

  (* delay_for_attempt as a Duration (clamped at 0; 0 when the policy gives none) *)
  Definition pdelay (c : cfg) (a : nat) : Z :=
    match delay_at c a with Some d => Z.max 0 d | None => 0 end.

  Definition delay_of (c : cfg) (prev : call) : Z := pdelay c (S (c_idx prev)).

  (* the instant the sleep after call [prev] is over: the timer rounds up to a millisecond *)
  Definition wake_at (c : cfg) (prev : call) : Z := ceil_ms (c_end prev + delay_of c prev).

  (* the call failed with a connection failure and the future went to sleep after it *)
  Definition reconn (c : cfg) (prev : call) : Prop :=
    exists e d, sleeps_after c (c_idx prev) (c_out prev) d e.

  Definition not_rerr (x : rdy Err) : Prop := match x with RErr _ => False | _ => True end.

  Fixpoint wf_log (c : cfg) (inp : rin) (l : list call) : Prop :=
    match l with
    | [] => True
    | cl :: rest =>
      c_idx cl = length rest /\ c_out cl = snd (r_inner inp (c_idx cl)) /\
      c_start cl <= c_end cl /\
      match rest with
      | [] => True
      | prev :: _ => reconn c prev /\ retry_on_reconnect c = true /\
                     wake_at c prev <= c_start cl /\ not_rerr (r_ready inp (c_idx cl))
      end /\ wf_log c inp rest
    end.

  Definition done_spec (c : cfg) (inp : rin) (t : Z) (r : rst) (x : Res + rerr) : Prop :=
    match x with
    | inl v => exists cl rest, log r = cl :: rest /\ c_idx cl = attempt r /\ c_out cl = Ok v
    | inr (ServiceError e) =>
      (exists cl rest, log r = cl :: rest /\ c_idx cl = attempt r /\ c_out cl = Fail e /\
                       should_reconnect c e = false) \/
      (exists prev rest, log r = prev :: rest /\ S (c_idx prev) = attempt r /\ reconn c prev /\
                         retry_on_reconnect c = true /\ r_ready inp (attempt r) = RErr e)
    | inr (MaxAttemptsExceeded n e) =>
      exists cl rest, log r = cl :: rest /\ c_idx cl = attempt r /\ c_out cl = Fail e /\
                      should_reconnect c e = true /\ n = sat32 (S (c_idx cl)) /\
                      exceeded c (S (c_idx cl)) = true
    | inr (ConnectionFailed e) =>
      exists cl rest, log r = cl :: rest /\ c_idx cl = attempt r /\ c_out cl = Fail e /\
                      should_reconnect c e = true /\ exceeded c (S (c_idx cl)) = false /\
                      delay_at c (S (c_idx cl)) = None
    | inr (ConnectionFailedNoRetry e) =>
      exists cl rest d, log r = cl :: rest /\ S (c_idx cl) = attempt r /\
                        sleeps_after c (c_idx cl) (c_out cl) d e /\
                        retry_on_reconnect c = false /\ wake_at c cl <= t
    end.

  (* what the future writes to the published state when it returns x *)
  Definition tailw (x : Res + rerr) : list cstate :=
    match x with
    | inl _ => [Connected]
    | inr (ServiceError _) => []
    | inr (MaxAttemptsExceeded _ _) | inr (ConnectionFailed _) => [Disconnected]
    | inr (ConnectionFailedNoRetry _) => [Connected]
    end.

  Lemma repeat_dr_S n : repeat_dr (S n) = repeat_dr n ++ [Disconnected; Reconnecting].
  Proof. induction n as [|n IH]; [reflexivity|]. cbn [repeat_dr app] in *. rewrite <- IH. reflexivity. Qed.

  (* invariant of one future; [wl] = what it has written to the published state, in order *)
  Definition RI (c : cfg) (inp : rin) (t : Z) (r : rst) (wl : list cstate) : Prop :=
    wf_log c inp (log r) /\
    wl = repeat_dr (attempt r) ++ match res r with Some x => tailw x | None => [] end /\
    match ph r with
    | PInit => attempt r = 0%nat /\ log r = [] /\ res r = None
    | PCalling _ =>
      attempt r = length (log r) /\ res r = None /\ cur_start r <= t /\
      match log r with
      | [] => True
      | prev :: _ => reconn c prev /\ retry_on_reconnect c = true /\
                     wake_at c prev <= cur_start r /\ not_rerr (r_ready inp (attempt r))
      end
    | PSleeping dl =>
      res r = None /\
      exists prev rest e d, log r = prev :: rest /\ S (c_idx prev) = attempt r /\
                            sleeps_after c (c_idx prev) (c_out prev) d e /\
                            last_error r = Some e /\ dl = wake_at c prev
    | PReadying _ =>
      res r = None /\ retry_on_reconnect c = true /\
      exists prev rest, log r = prev :: rest /\ S (c_idx prev) = attempt r /\ reconn c prev /\
                        wake_at c prev <= t
    | PDone => exists x, res r = Some x /\ done_spec c inp t r x
    end.

  (* what a future has last written to the published state (None: nothing yet) *)
  Definition pub (r : rst) : option cstate :=
    match ph r with
    | PInit => None
    | PCalling _ => if (attempt r =? 0)%nat then None else Some Reconnecting
    | PSleeping _ | PReadying _ => Some Reconnecting
    | PDone =>
      match res r with
      | Some (inl _) => Some Connected
      | Some (inr (ConnectionFailedNoRetry _)) => Some Connected
      | Some (inr (MaxAttemptsExceeded _ _)) | Some (inr (ConnectionFailed _)) => Some Disconnected
      | Some (inr (ServiceError _)) => if (attempt r =? 0)%nat then None else Some Reconnecting
      | None => None
      end
    end.

  Definition last_opt (ws : list cstate) (d : option cstate) : option cstate :=
    match ws with [] => d | _ => Some (last ws Connected) end.

  Lemma last_app_ne {A} (l l' : list A) d d' : l' <> [] -> last (l ++ l') d = last l' d'.
  Proof.
    intros Hne. induction l as [|x l IH]; cbn [app].
    - destruct l' as [|y l']; [contradiction|]. clear Hne. revert y.
      induction l' as [|z l' IH']; intros y; [reflexivity|]. cbn [last] in *. apply IH'.
    - cbn [last]. destruct (l ++ l') eqn:E; [destruct l; [cbn in E; contradiction|discriminate]|].
      exact IH.
  Qed.

  Lemma last_opt_app ws ws' d : last_opt (ws ++ ws') d = last_opt ws' (last_opt ws d).
  Proof.
    destruct ws' as [|y ws']; [rewrite app_nil_r; reflexivity|].
    unfold last_opt at 1 2. destruct (ws ++ y :: ws') eqn:E; [destruct ws; discriminate|].
    rewrite <- E. f_equal. apply last_app_ne. discriminate.
  Qed.

  Lemma wf_log_length c inp cl rest : wf_log c inp (cl :: rest) -> c_idx cl = length rest.
  Proof. intros [H _]. exact H. Qed.

  Lemma delay_of_sleeps c prev d e :
    sleeps_after c (c_idx prev) (c_out prev) d e -> delay_of c prev = Z.max 0 d.
  Proof. intros [_ [_ [_ Hp]]]. unfold delay_of, pdelay. rewrite Hp. reflexivity. Qed.

  Definition poll_ok (r r' : rst) (p : pres Res Err) (sw : bool) : Prop :=
    (p = Nothing -> ph r = PDone /\ r' = r) /\
    (forall x, p = Ready x -> ph r <> PDone /\ ph r' = PDone /\ res r' = Some x) /\
    (sw = true -> p = Pending).

  Lemma poll_ok_pre0 (r r1 r' : rst) p sw :
    ph r1 <> PDone -> ph r <> PDone -> poll_ok r1 r' p sw -> poll_ok r r' p sw.
  Proof.
    intros H1 H0 [Ha [Hb Hc]]. split; [|split; [|exact Hc]].
    - intros Hn. destruct (Ha Hn) as [Hx _]. contradiction.
    - intros x Hx. destruct (Hb x Hx) as [_ Hy]. split; [exact H0|exact Hy].
  Qed.

  Lemma poll_ok_pending (r : rst) sw : poll_ok r r Pending sw.
  Proof. split; [discriminate|]. split; [intros x H; discriminate|reflexivity]. Qed.

  Ltac stay HI :=
    rewrite app_nil_r; split; [exact HI|]; split; [reflexivity|apply poll_ok_pending].

  Lemma drive_RI (c : cfg) (inp : rin) fuel : forall coop t r wl r' ws p sw,
    RI c inp t r wl ->
    drive c inp fuel coop t r = (r', ws, p, sw) ->
    RI c inp t r' (wl ++ ws) /\ pub r' = last_opt ws (pub r) /\ poll_ok r r' p sw.
  Proof.
    induction fuel as [|f IH]; intros coop t r wl r' ws p sw HI Hd.
    - cbn in Hd. injection Hd as <- <- <- <-. stay HI.
    - cbn [drive] in Hd. pose proof HI as HI0. destruct HI as [Hwf [Hwl Hph]].
      destruct (ph r) as [|av|dl|rel|] eqn:Eph.
      + (* PInit *)
        destruct Hph as [Ha [Hl Hr]].
        eapply IH in Hd.
        * destruct Hd as [H1 [H2 H3]]. split; [exact H1|]. split.
          -- rewrite H2. f_equal. unfold pub, start_call. cbn [ph attempt]. rewrite Eph, Ha. reflexivity.
          -- eapply poll_ok_pre0; [| |exact H3]; [cbn [ph start_call]; discriminate|rewrite Eph; discriminate].
        * unfold RI, start_call. cbn [log ph attempt res cur_start].
          split; [exact Hwf|]. split; [exact Hwl|]. rewrite Hl. cbn [length].
          split; [exact Ha|]. split; [exact Hr|]. split; [lia|exact I].
      + (* PCalling *)
        destruct Hph as [Ha [Hr [Hcs Hprev]]].
        destruct (fst (r_inner inp (attempt r)) && (coop =? 0)%nat) eqn:Eg.
        { injection Hd as <- <- <- <-. stay HI0. }
        destruct av; cbn [negb] in Hd.
        2:{ injection Hd as <- <- <- <-. stay HI0. }
        set (coop1 := if fst (r_inner inp (attempt r)) then Nat.pred coop else coop) in *.
        set (o := snd (r_inner inp (attempt r))) in *.
        set (cl := mkCall (attempt r) (cur_start r) t o) in *.
        assert (Hwf' : wf_log c inp (cl :: log r)).
        { cbn [wf_log]. subst cl. cbn [c_idx c_out c_start c_end].
          split; [exact Ha|]. split; [reflexivity|]. split; [exact Hcs|].
          split; [|exact Hwf]. destruct (log r); [exact I|exact Hprev]. }
        assert (Hpub : pub r = if (attempt r =? 0)%nat then None else Some Reconnecting)
          by (unfold pub; rewrite Eph; reflexivity).
        rewrite Hr in Hwl. rewrite app_nil_r in Hwl.
        destruct (after_outcome c (attempt r) o) as [ws0 act] eqn:Ea.
        destruct act as [x|d e].
        * injection Hd as <- <- <- <-.
          apply after_return in Ea. destruct Ea as [Hrs Hws].
          split.
          { unfold RI. cbn [log ph attempt res cur_start]. split; [exact Hwf'|].
            split.
            { rewrite Hwl, Hws. unfold tailw. destruct x as [v|[n e|e|e|e]]; try reflexivity.
              unfold returns_spec in Hrs. contradiction. }
            exists x. split; [reflexivity|]. unfold done_spec, returns_spec in *. cbn [log attempt].
            destruct x as [v|[n e|e|e|e]].
            - exists cl, (log r). repeat split; assumption.
            - destruct Hrs as [Ho [Hs [Hn Hx]]]. exists cl, (log r).
              subst cl. cbn [c_idx c_out]. repeat split; assumption.
            - destruct Hrs as [Ho [Hs [Hx Hp]]]. exists cl, (log r).
              subst cl. cbn [c_idx c_out]. repeat split; assumption.
            - contradiction.
            - destruct Hrs as [Ho Hs]. left. exists cl, (log r).
              subst cl. cbn [c_idx c_out]. repeat split; assumption. }
          split.
          { unfold pub at 1. cbn [ph res attempt]. rewrite Hpub, Hws.
            destruct x as [v|[n e|e|e|e]]; try reflexivity. contradiction. }
          split; [discriminate|]. split; [|discriminate]. intros x0 Hx. injection Hx as <-.
          split; [rewrite Eph; discriminate|]. split; reflexivity.
        * apply after_retry in Ea. destruct Ea as [Hsl Hws].
          destruct (drive c inp f coop1 t _) as [[[r1 ws1] p1] sw1] eqn:Ed.
          injection Hd as <- <- <- <-.
          eapply (IH _ _ _ (wl ++ ws0)) in Ed.
          2:{ unfold RI. cbn [log ph attempt res cur_start last_error].
              split; [exact Hwf'|].
              split; [rewrite Hr, app_nil_r, Hwl, Hws; symmetry; apply repeat_dr_S|].
              split; [exact Hr|].
              exists cl, (log r), e, d. subst cl. cbn [c_idx c_end c_out].
              split; [reflexivity|]. split; [reflexivity|]. split; [exact Hsl|]. split; [reflexivity|].
              unfold wake_at. cbn [c_end]. f_equal. f_equal.
              symmetry. apply (delay_of_sleeps c _ d e). cbn [c_idx c_out]. exact Hsl. }
          destruct Ed as [H1 [H2 H3]]. split; [rewrite app_assoc; exact H1|]. split.
          { rewrite H2, last_opt_app. f_equal. rewrite Hws. reflexivity. }
          eapply poll_ok_pre0; [| |exact H3]; [cbn [ph]; discriminate|rewrite Eph; discriminate].
      + (* PSleeping *)
        destruct Hph as [Hr [prev [rest [e [d [Hl [Hi [Hsl [Hle Hdl]]]]]]]]].
        assert (Hre : reconn c prev) by (exists e, d; exact Hsl).
        destruct coop as [|k].
        { injection Hd as <- <- <- <-. stay HI0. }
        destruct (dl <=? t) eqn:Et.
        2:{ injection Hd as <- <- <- <-. stay HI0. }
        apply Z.leb_le in Et. rewrite Hle in Hd.
        rewrite Hr in Hwl. rewrite app_nil_r in Hwl.
        unfold after_sleep in Hd. destruct (retry_on_reconnect c) eqn:Hrt.
        * eapply IH in Hd.
          -- destruct Hd as [H1 [H2 H3]]. split; [exact H1|]. split.
             ++ rewrite H2. f_equal. unfold pub. cbn [ph]. rewrite Eph. reflexivity.
             ++ eapply poll_ok_pre0; [| |exact H3]; [cbn [ph]; discriminate|rewrite Eph; discriminate].
          -- unfold RI. cbn [log ph attempt res cur_start]. split; [exact Hwf|].
             split; [rewrite Hr, app_nil_r; exact Hwl|].
             split; [exact Hr|]. split; [exact Hrt|]. exists prev, rest.
             split; [exact Hl|]. split; [exact Hi|]. split; [exact Hre|]. lia.
        * injection Hd as <- <- <- <-. split.
          { unfold RI. cbn [log ph attempt res cur_start]. split; [exact Hwf|].
            split; [rewrite Hwl; reflexivity|].
            exists (inr (ConnectionFailedNoRetry e)). split; [reflexivity|].
            unfold done_spec. cbn [log attempt]. exists prev, rest, d.
            split; [exact Hl|]. split; [exact Hi|]. split; [exact Hsl|]. split; [exact Hrt|lia]. }
          split; [reflexivity|].
          split; [discriminate|]. split; [|discriminate]. intros x0 Hx. injection Hx as <-.
          split; [rewrite Eph; discriminate|]. split; reflexivity.
      + (* PReadying *)
        destruct Hph as [Hr [Hrt [prev [rest [Hl [Hi [Hre Hsp]]]]]]].
        assert (Hne : (attempt r =? 0)%nat = false) by (apply Nat.eqb_neq; lia).
        assert (Hstart : not_rerr (r_ready inp (attempt r)) -> RI c inp t (start_call inp t r) wl).
        { intros Hnr. unfold RI, start_call. cbn [log ph attempt res cur_start]. split; [exact Hwf|].
          split; [exact Hwl|].
          rewrite Hl in *. apply wf_log_length in Hwf. cbn [length].
          split; [lia|]. split; [exact Hr|]. split; [lia|].
          split; [exact Hre|]. split; [exact Hrt|]. split; [exact Hsp|exact Hnr]. }
        assert (Hpubs : pub (start_call inp t r) = pub r).
        { unfold pub, start_call. cbn [ph attempt]. rewrite Eph, Hne. reflexivity. }
        destruct (r_ready inp (attempt r)) as [|e|] eqn:Erd.
        * eapply IH in Hd; [|apply Hstart; exact I].
          destruct Hd as [H1 [H2 H3]]. split; [exact H1|]. split; [rewrite H2, Hpubs; reflexivity|].
          eapply poll_ok_pre0; [| |exact H3]; [cbn [ph start_call]; discriminate|rewrite Eph; discriminate].
        * injection Hd as <- <- <- <-. rewrite app_nil_r. split.
          { unfold RI. cbn [log ph attempt res cur_start]. split; [exact Hwf|].
            split; [rewrite Hwl, Hr; reflexivity|].
            exists (inr (ServiceError e)). split; [reflexivity|].
            unfold done_spec. cbn [log attempt]. right. exists prev, rest. repeat split; assumption. }
          split.
          { unfold pub. cbn [ph res attempt last_opt]. rewrite Eph, Hne. reflexivity. }
          split; [discriminate|]. split; [|discriminate]. intros x0 Hx. injection Hx as <-.
          split; [rewrite Eph; discriminate|]. split; reflexivity.
        * destruct rel.
          -- eapply IH in Hd; [|apply Hstart; exact I].
             destruct Hd as [H1 [H2 H3]]. split; [exact H1|]. split; [rewrite H2, Hpubs; reflexivity|].
             eapply poll_ok_pre0; [| |exact H3]; [cbn [ph start_call]; discriminate|rewrite Eph; discriminate].
          -- injection Hd as <- <- <- <-. stay HI0.
      + injection Hd as <- <- <- <-. rewrite app_nil_r. split; [exact HI0|].
        split; [reflexivity|]. split; [intros _; split; [exact Eph|reflexivity]|].
        split; discriminate.
  Qed.

  (* an attempt counter only grows in a poll that writes the published state *)
  Lemma drive_attempt (c : cfg) (inp : rin) fuel : forall coop t r r' ws p sw,
    drive c inp fuel coop t r = (r', ws, p, sw) ->
    (attempt r <= attempt r')%nat /\ ((attempt r < attempt r')%nat -> ws <> []).
  Proof.
    induction fuel as [|f IH]; intros coop t r r' ws p sw Hd.
    - cbn in Hd. injection Hd as <- <- <- <-. split; lia.
    - cbn [drive] in Hd. destruct (ph r) as [|av|dl|rel|].
      + apply IH in Hd. exact Hd.
      + destruct (fst (r_inner inp (attempt r)) && (coop =? 0)%nat);
          [injection Hd as <- <- <- <-; split; lia|].
        destruct av; cbn [negb] in Hd; [|injection Hd as <- <- <- <-; split; lia].
        destruct (after_outcome c (attempt r) (snd (r_inner inp (attempt r)))) as [ws0 act] eqn:Ea.
        destruct act as [x|d e].
        * injection Hd as <- <- <- <-. cbn [attempt]. split; lia.
        * apply after_retry in Ea. destruct Ea as [_ ->].
          destruct (drive c inp f _ t _) as [[[r1 ws1] p1] sw1] eqn:Ed.
          injection Hd as <- <- <- <-. apply IH in Ed. cbn [attempt] in Ed.
          split; [lia|]. intros _. discriminate.
      + destruct coop as [|k]; [injection Hd as <- <- <- <-; split; lia|].
        destruct (dl <=? t); [|injection Hd as <- <- <- <-; split; lia].
        destruct (last_error r) as [e|]; [|injection Hd as <- <- <- <-; split; lia].
        destruct (after_sleep c e) as [[ws0 x]|].
        * injection Hd as <- <- <- <-. cbn [attempt]. split; lia.
        * apply IH in Hd. exact Hd.
      + destruct (r_ready inp (attempt r)) as [|e|].
        * apply IH in Hd. exact Hd.
        * injection Hd as <- <- <- <-. cbn [attempt]. split; lia.
        * destruct rel; [apply IH in Hd; exact Hd|injection Hd as <- <- <- <-; split; lia].
      + injection Hd as <- <- <- <-. split; lia.
  Qed.

  (* ---------- global invariant ---------- *)
  Lemma upd_same {A} (f : nat -> A) i v : upd f i v i = v.
  Proof. unfold upd. rewrite Nat.eqb_refl. reflexivity. Qed.
  Lemma upd_other {A} (f : nat -> A) i v j : j <> i -> upd f i v j = f j.
  Proof. intros H. unfold upd. apply Nat.eqb_neq in H. rewrite H. reflexivity. Qed.

  (* the values request i has written to the published state, oldest first *)
  Definition writes_of (i : nat) (wl : list (nat * cstate)) : list cstate :=
    rev (map snd (filter (fun x => Nat.eqb (fst x) i) wl)).

  Lemma filter_pair_rev i j (ws : list cstate) :
    filter (fun x : nat * cstate => Nat.eqb (fst x) j) (rev (map (pair i) ws)) =
    if Nat.eqb i j then rev (map (pair i) ws) else [].
  Proof.
    induction ws as [|o ws IH]; cbn [map rev]; [destruct (Nat.eqb i j); reflexivity|].
    rewrite filter_app, IH. cbn [filter fst].
    destruct (Nat.eqb i j); [reflexivity|reflexivity].
  Qed.

  Lemma writes_of_poll i j ws wl :
    writes_of j (rev (map (pair i) ws) ++ wl) = writes_of j wl ++ (if Nat.eqb i j then ws else []).
  Proof.
    unfold writes_of. rewrite filter_app, map_app, rev_app_distr. f_equal.
    rewrite filter_pair_rev. destruct (Nat.eqb i j); [|reflexivity].
    rewrite <- map_rev, rev_involutive, map_map. cbn [snd]. apply map_id.
  Qed.

  (* the published state is what its last writer wrote (Disconnected before any write) *)
  Definition SI (s : st) : Prop :=
    match writer s with
    | None => cs s = Disconnected /\ forall i, pub (reqs s i) = None
    | Some i => pub (reqs s i) = Some (cs s)
    end.

  Definition GI (c : cfg) (inps : nat -> rin) (s : st) : Prop :=
    (forall i, RI c (inps i) (now s) (reqs s i) (writes_of i (wlog s))) /\ SI s.

  Lemma RI_mono c inp t t' r wl : t <= t' -> RI c inp t r wl -> RI c inp t' r wl.
  Proof.
    intros Ht [Hwf [Hwl H]]. split; [exact Hwf|]. split; [exact Hwl|]. destruct (ph r); try exact H.
    - destruct H as [H1 [H2 [H3 H4]]]. repeat split; try assumption. lia.
    - destruct H as [H1 [H2 [prev [rest [H3 [H4 [H5 H6]]]]]]]. split; [exact H1|]. split; [exact H2|].
      exists prev, rest. repeat split; try assumption. lia.
    - destruct H as [x [Hr Hd]]. exists x. split; [exact Hr|].
      unfold done_spec in *. destruct x as [v|[n e|e|e|e]]; try exact Hd.
      destruct Hd as [cl [rest [d [H1 [H2 [H3 [H4 H5]]]]]]]. exists cl, rest, d.
      repeat split; try assumption; try apply H3. lia.
  Qed.

  Lemma GI_init c inps : GI c inps init.
  Proof.
    split.
    - intros i. unfold RI. cbn. tauto.
    - unfold SI. cbn. split; reflexivity.
  Qed.

  Lemma last_nonempty {A} (l : list A) d d' : l <> [] -> last l d = last l d'.
  Proof. intros H. apply (last_app_ne [] l d d' H). Qed.

  Lemma pub_flag_calling (r : rst) av av' :
    ph r = PCalling av ->
    pub (mkRst (PCalling av') (attempt r) (last_error r) (cur_start r) (log r) (res r)) = pub r.
  Proof. intros H. unfold pub. cbn [ph attempt]. rewrite H. reflexivity. Qed.

  Lemma pub_flag_readying (r : rst) rel rel' :
    ph r = PReadying rel ->
    pub (mkRst (PReadying rel') (attempt r) (last_error r) (cur_start r) (log r) (res r)) = pub r.
  Proof. intros H. unfold pub. cbn [ph]. rewrite H. reflexivity. Qed.

  (* replacing the state of request i by one with the same published value keeps SI *)
  Lemma SI_upd_same (s : st) i r' t wk pl wlg :
    SI s -> pub r' = pub (reqs s i) ->
    SI (mkSt t (cs s) (upd (reqs s) i r') wk pl (writer s) wlg).
  Proof.
    unfold SI. cbn [writer cs reqs]. intros H Hp. destruct (writer s) as [w|].
    - destruct (Nat.eq_dec w i) as [->|Hne]; [rewrite upd_same, Hp; exact H|].
      rewrite upd_other by exact Hne. exact H.
    - destruct H as [H1 H2]. split; [exact H1|]. intros j.
      destruct (Nat.eq_dec j i) as [->|Hne]; [rewrite upd_same, Hp; apply H2|].
      rewrite upd_other by exact Hne. apply H2.
  Qed.

  Lemma GI_step c inps pf cp s e : GI c inps s -> GI c inps (step_st c inps pf cp s e).
  Proof.
    intros [HR HS]. unfold step_st. destruct e as [i|d|i|i|i]; cbn [step].
    - (* Poll *)
      destruct (drive c (inps i) pf cp (now s) (reqs s i)) as [[[r' ws] p] sw] eqn:Ed.
      cbn [fst]. destruct (drive_RI _ _ _ _ _ _ _ _ _ _ _ (HR i) Ed) as [H1 [H2 _]].
      split.
      + intros j. cbn [now reqs wlog]. rewrite writes_of_poll.
        destruct (Nat.eq_dec j i) as [->|Hne]; [rewrite upd_same, Nat.eqb_refl; exact H1|].
        rewrite upd_other by exact Hne.
        replace (Nat.eqb i j) with false by (symmetry; apply Nat.eqb_neq; congruence).
        rewrite app_nil_r. apply HR.
      + destruct ws as [|w ws].
        * cbn [last]. apply SI_upd_same; [exact HS|exact H2].
        * unfold SI. cbn [writer cs reqs]. rewrite upd_same, H2. cbn [last_opt]. f_equal.
          apply last_nonempty. discriminate.
    - (* Advance *)
      cbn [fst]. split.
      + intros i. cbn [now reqs wlog]. eapply RI_mono; [|apply HR]. lia.
      + exact HS.
    - (* Complete *)
      destruct (ph (reqs s i)) as [|[|]|dl|rel|] eqn:Eph; cbn [fst]; try (split; assumption).
      split.
      + intros j. cbn [now reqs wlog].
        destruct (Nat.eq_dec j i) as [->|Hne]; [|rewrite upd_other by exact Hne; apply HR].
        rewrite upd_same. specialize (HR i). unfold RI in *. rewrite Eph in HR.
        cbn [ph log attempt res cur_start]. exact HR.
      + apply SI_upd_same; [exact HS|]. eapply pub_flag_calling. exact Eph.
    - (* MakeReady *)
      destruct (ph (reqs s i)) as [|av|dl|[|]|] eqn:Eph; cbn [fst]; try (split; assumption).
      split.
      + intros j. cbn [now reqs wlog].
        destruct (Nat.eq_dec j i) as [->|Hne]; [|rewrite upd_other by exact Hne; apply HR].
        rewrite upd_same. specialize (HR i). unfold RI in *. rewrite Eph in HR.
        cbn [ph log attempt res cur_start]. exact HR.
      + apply SI_upd_same; [exact HS|]. eapply pub_flag_readying. exact Eph.
    - (* Call *)
      destruct (ph (reqs s i)) as [|av|dl|rel|] eqn:Eph; cbn [fst]; try (split; assumption).
      pose proof (HR i) as [Hwf [Hwl Hi]]. rewrite Eph in Hi. destruct Hi as [Ha [Hl Hr]].
      split.
      + intros j. cbn [now reqs wlog].
        destruct (Nat.eq_dec j i) as [->|Hne]; [|rewrite upd_other by exact Hne; apply HR].
        rewrite upd_same. unfold RI, start_call. cbn [log ph attempt res cur_start].
        split; [exact Hwf|]. split; [exact Hwl|]. rewrite Hl. cbn [length].
        split; [exact Ha|]. split; [exact Hr|]. split; [lia|exact I].
      + apply SI_upd_same; [exact HS|]. unfold pub, start_call. cbn [ph attempt].
        rewrite Eph, Ha. reflexivity.
  Qed.

  Lemma GI_reach c inps pf cp evs : Forall (GI c inps) (states (step_st c inps pf cp) init evs).
  Proof. apply reach_inv; [apply GI_init|]. intros s e H. apply GI_step. exact H. Qed.

  Lemma GI_fold c inps pf cp evs : GI c inps (fold_left (step_st c inps pf cp) evs init).
  Proof. apply fold_left_inv; [apply GI_init|]. intros s0 e H. apply GI_step. exact H. Qed.

  Lemma started_length (r : rst) :
    length (started_calls r) =
    (length (log r) + match ph r with PCalling _ => 1 | _ => 0 end)%nat.
  Proof.
    unfold started_calls, rev'. rewrite <- rev_alt, app_length, map_length, rev_length.
    destruct (ph r); reflexivity.
  Qed.

  Lemma reconn_le c prev m : reconn c prev -> max_attempts c = Some m -> (S (c_idx prev) <= m)%nat.
  Proof.
    intros [e [d [_ [_ [Hx _]]]]] Hm. exact (exceeded_false_le c _ m Hx Hm).
  Qed.

  Lemma wf_log_bound c inp l m :
    wf_log c inp l -> max_attempts c = Some m -> (length l <= m + 1)%nat.
  Proof.
    intros Hwf Hm. destruct l as [|cl rest]; [cbn; lia|].
    cbn [wf_log] in Hwf. destruct Hwf as [Hi [_ [_ [Hp Hwf]]]]. cbn [length].
    destruct rest as [|prev rest']; [cbn; lia|].
    destruct Hp as [Hre _]. pose proof (reconn_le _ _ _ Hre Hm) as Hle.
    apply wf_log_length in Hwf. cbn [length] in *. lia.
  Qed.

  (* C16_call_bound at poll granularity *)
  Lemma RI_calls c inp t r wl m :
    RI c inp t r wl -> max_attempts c = Some m -> (length (started_calls r) <= m + 1)%nat.
  Proof.
    intros [Hwf [_ H]] Hm. rewrite started_length.
    pose proof (wf_log_bound _ _ _ _ Hwf Hm) as Hb.
    destruct (ph r) as [|av|dl|rel|]; try lia.
    destruct H as [_ [_ [_ Hp]]]. destruct (log r) as [|prev rest] eqn:El; [cbn; lia|].
    destruct Hp as [Hre _]. pose proof (reconn_le _ _ _ Hre Hm) as Hle.
    apply wf_log_length in Hwf. cbn [length]. lia.
  Qed.

  Definition sched_spec (c : cfg) (inp : rin) (t : Z) (r : rst) (wl : list cstate) : Prop :=
    (forall m, max_attempts c = Some m -> (length (started_calls r) <= m + 1)%nat) /\
    wf_log c inp (log r) /\
    (forall av prev rest, ph r = PCalling av -> log r = prev :: rest ->
        reconn c prev /\ retry_on_reconnect c = true /\
        wake_at c prev <= cur_start r /\ not_rerr (r_ready inp (attempt r))) /\
    (ph r = PDone <-> res r <> None) /\
    (forall x, res r = Some x -> done_spec c inp t r x) /\
    wl = repeat_dr (attempt r) ++ match res r with Some x => tailw x | None => [] end.

  Lemma RI_sched c inp t r wl : RI c inp t r wl -> sched_spec c inp t r wl.
  Proof.
    intros H. split; [intros m Hm; eapply RI_calls; eassumption|].
    destruct H as [Hwf [Hwl H]]. split; [exact Hwf|].
    assert (G : (forall av prev rest, ph r = PCalling av -> log r = prev :: rest ->
                   reconn c prev /\ retry_on_reconnect c = true /\
                   wake_at c prev <= cur_start r /\ not_rerr (r_ready inp (attempt r))) /\
                (ph r = PDone <-> res r <> None) /\
                (forall x, res r = Some x -> done_spec c inp t r x));
      [|destruct G as [G1 [G2 G3]]; split; [exact G1|]; split; [exact G2|]; split; [exact G3|exact Hwl]].
    destruct (ph r) as [|av|dl|rel|] eqn:Eph.
    - destruct H as [_ [_ Hr]]. rewrite Hr.
      split; [discriminate|]. split; [split; [discriminate|congruence]|discriminate].
    - destruct H as [_ [Hr [_ Hp]]]. rewrite Hr.
      split; [intros av' prev rest _ Hl; rewrite Hl in Hp; exact Hp|].
      split; [split; [discriminate|congruence]|discriminate].
    - destruct H as [Hr _]. rewrite Hr.
      split; [discriminate|]. split; [split; [discriminate|congruence]|discriminate].
    - destruct H as [Hr _]. rewrite Hr.
      split; [discriminate|]. split; [split; [discriminate|congruence]|discriminate].
    - destruct H as [x [Hr Hd]]. rewrite Hr.
      split; [discriminate|]. split; [split; [discriminate|reflexivity]|].
      intros x' E. injection E as <-. exact Hd.
  Qed.

  Lemma any_schedule (c : cfg) (inps : nat -> rin) pf cp evs :
    Forall (fun s => forall i, sched_spec c (inps i) (now s) (reqs s i) (writes_of i (wlog s)))
           (states (step_st c inps pf cp) init evs).
  Proof.
    eapply Forall_impl; [|apply (GI_reach c inps pf cp evs)].
    intros s [HR _] i. apply RI_sched. apply HR.
  Qed.

  (* C16_state at poll granularity *)
  Lemma state_any (c : cfg) (inps : nat -> rin) pf cp evs :
    Forall (fun s => match writer s with
                     | None => cs s = Disconnected /\ forall i, pub (reqs s i) = None
                     | Some i => pub (reqs s i) = Some (cs s)
                     end)
           (states (step_st c inps pf cp) init evs).
  Proof.
    eapply Forall_impl; [|apply (GI_reach c inps pf cp evs)]. intros s [_ HS]. exact HS.
  Qed.

  (* ---------- progress: a poll only returns Pending when the future really waits, or
     when the cooperative budget of the poll is used up (then it has woken itself) ---------- *)
  Definition waiting (inp : rin) (t : Z) (r : rst) : Prop :=
    match ph r with
    | PCalling false => True
    | PSleeping dl => t < dl
    | PReadying false => r_ready inp (attempt r) = RGated
    | _ => False
    end.

  Definition mu (coop : nat) (r : rst) : nat :=
    (4 * coop + match ph r with
                | PInit | PReadying _ => 3 | PCalling _ => 2 | PSleeping _ => 1 | PDone => 0
                end)%nat.

  (* the unreachable branch of the Sleeping arm *)
  Definition sleep_ok (r : rst) : Prop :=
    forall dl, ph r = PSleeping dl -> last_error r <> None.

  Lemma drive_progress (c : cfg) (inp : rin) fuel : forall coop t r r' ws,
    sleep_ok r -> (mu coop r < fuel)%nat ->
    drive c inp fuel coop t r = (r', ws, Pending, false) -> waiting inp t r'.
  Proof.
    induction fuel as [|f IH]; intros coop t r r' ws Hs Hmu Hd; [lia|].
    cbn [drive] in Hd. unfold mu in Hmu.
    destruct (ph r) as [|av|dl|rel|] eqn:Eph.
    - eapply IH; [| |exact Hd].
      + intros dl H. discriminate.
      + unfold mu, start_call. cbn [ph]. lia.
    - destruct (fst (r_inner inp (attempt r)) && (coop =? 0)%nat); [discriminate|].
      destruct av; cbn [negb] in Hd.
      2:{ injection Hd as <- <-. unfold waiting. rewrite Eph. exact I. }
      destruct (after_outcome c (attempt r) (snd (r_inner inp (attempt r)))) as [ws0 act] eqn:Ea.
      destruct act as [x|d e]; [discriminate|].
      destruct (drive c inp f _ t _) as [[[r1 ws1] p1] sw1] eqn:Ed.
      injection Hd as <- <- -> ->.
      eapply IH; [| |exact Ed].
      + intros dl _. cbn [last_error]. discriminate.
      + unfold mu. cbn [ph]. destruct (fst (r_inner inp (attempt r))); lia.
    - destruct coop as [|k]; [discriminate|].
      destruct (dl <=? t) eqn:Et.
      + specialize (Hs dl Eph). destruct (last_error r) as [e|]; [|contradiction].
        destruct (after_sleep c e) as [[ws0 x]|]; [discriminate|].
        eapply IH; [| |exact Hd].
        * intros dl' H. discriminate.
        * unfold mu. cbn [ph]. lia.
      + injection Hd as <- <-. unfold waiting. rewrite Eph. apply Z.leb_gt. exact Et.
    - destruct (r_ready inp (attempt r)) as [|e|] eqn:Er.
      + eapply IH; [| |exact Hd].
        * intros dl H. discriminate.
        * unfold mu, start_call. cbn [ph]. lia.
      + discriminate.
      + destruct rel.
        * eapply IH; [| |exact Hd].
          -- intros dl H. discriminate.
          -- unfold mu, start_call. cbn [ph]. lia.
        * injection Hd as <- <-. unfold waiting. rewrite Eph. exact Er.
    - discriminate.
  Qed.

  Lemma RI_sleep_ok c inp t r wl : RI c inp t r wl -> sleep_ok r.
  Proof.
    intros [_ [_ H]] dl Hp. rewrite Hp in H.
    destruct H as [_ [prev [rest [e [d [_ [_ [_ [Hle _]]]]]]]]]. rewrite Hle. discriminate.
  Qed.

  Lemma mu_lt_fuel pf cp r : (4 * cp + 3 < pf)%nat -> (mu cp r < pf)%nat.
  Proof. unfold mu. destruct (ph r); lia. Qed.

  Lemma poll_fuel_enough : (4 * COOP + 3 < poll_fuel)%nat.
  Proof. unfold poll_fuel. lia. Qed.

  (* a poll that ends on an exhausted budget has used it: every unit went into a completed
     sleep (one reconnection attempt each), except at most one for the result of a gated call *)
  Lemma drive_selfwake (c : cfg) (inp : rin) fuel : forall coop t r r' ws p,
    drive c inp fuel coop t r = (r', ws, p, true) ->
    (attempt r <= attempt r')%nat /\
    (coop <= attempt r' - attempt r +
             match ph r with
             | PCalling true => if fst (r_inner inp (attempt r)) then 1 else 0
             | PSleeping _ => 1
             | _ => 0
             end)%nat /\
    match ph r' with
    | PSleeping _ => True
    | PCalling _ => fst (r_inner inp (attempt r')) = true
    | _ => False
    end.
  Proof.
    induction fuel as [|f IH]; intros coop t r r' ws p Hd; [discriminate|].
    cbn [drive] in Hd. destruct (ph r) as [|av|dl|rel|] eqn:Eph.
    - apply IH in Hd. unfold start_call in Hd. cbn [ph attempt] in Hd.
      destruct Hd as [H1 [H2 H3]]. split; [exact H1|]. split; [|exact H3].
      destruct (fst (r_inner inp (attempt r))); cbn [negb] in H2; lia.
    - destruct (fst (r_inner inp (attempt r))) eqn:Eg; cbn [andb] in Hd.
      + destruct (coop =? 0)%nat eqn:E0.
        * injection Hd as <- _ _. apply Nat.eqb_eq in E0. rewrite Eph, Eg.
          split; [lia|]. split; [lia|reflexivity].
        * destruct av; cbn [negb] in Hd; [|discriminate].
          destruct (after_outcome c (attempt r) (snd (r_inner inp (attempt r)))) as [ws0 act].
          destruct act as [x|d e]; [discriminate|].
          destruct (drive c inp f _ t _) as [[[r1 ws1] p1] sw1] eqn:Ed.
          injection Hd as <- _ _ ->. apply IH in Ed. cbn [ph attempt] in Ed.
          destruct Ed as [H1 [H2 H3]]. split; [lia|]. split; [lia|exact H3].
      + destruct av; cbn [negb] in Hd; [|discriminate].
        destruct (after_outcome c (attempt r) (snd (r_inner inp (attempt r)))) as [ws0 act].
        destruct act as [x|d e]; [discriminate|].
        destruct (drive c inp f _ t _) as [[[r1 ws1] p1] sw1] eqn:Ed.
        injection Hd as <- _ _ ->. apply IH in Ed. cbn [ph attempt] in Ed.
        destruct Ed as [H1 [H2 H3]]. split; [lia|]. split; [lia|exact H3].
    - destruct coop as [|k].
      + injection Hd as <- _ _. rewrite Eph. split; [lia|]. split; [lia|exact I].
      + destruct (dl <=? t); [|discriminate].
        destruct (last_error r) as [e|]; [|discriminate].
        destruct (after_sleep c e) as [[ws0 x]|]; [discriminate|].
        apply IH in Hd. cbn [ph attempt] in Hd. destruct Hd as [H1 [H2 H3]].
        split; [lia|]. split; [lia|exact H3].
    - destruct (r_ready inp (attempt r)) as [|e|].
      + apply IH in Hd. unfold start_call in Hd. cbn [ph attempt] in Hd.
        destruct Hd as [H1 [H2 H3]]. split; [exact H1|]. split; [|exact H3].
        destruct (fst (r_inner inp (attempt r))); cbn [negb] in H2; lia.
      + discriminate.
      + destruct rel; [|discriminate].
        apply IH in Hd. unfold start_call in Hd. cbn [ph attempt] in Hd.
        destruct Hd as [H1 [H2 H3]]. split; [exact H1|]. split; [|exact H3].
        destruct (fst (r_inner inp (attempt r))); cbn [negb] in H2; lia.
    - discriminate.
  Qed.

  Lemma poll_event (c : cfg) (inps : nat -> rin) pf cp evs i :
    (4 * cp + 3 < pf)%nat ->
    let s := fold_left (step_st c inps pf cp) evs init in
    let s' := fst (step c inps pf cp s (Poll i)) in
    let o := snd (step c inps pf cp s (Poll i)) in
    (o_res o = Pending -> o_self o = false -> waiting (inps i) (now s) (reqs s' i)) /\
    (o_self o = true ->
       o_res o = Pending /\ woken s' i = true /\
       (cp <= S (attempt (reqs s' i) - attempt (reqs s i)))%nat /\
       match ph (reqs s' i) with
       | PSleeping _ => True
       | PCalling _ => fst (r_inner (inps i) (attempt (reqs s' i))) = true
       | _ => False
       end) /\
    (o_res o = Nothing -> ph (reqs s i) = PDone /\ reqs s' i = reqs s i) /\
    (forall x, o_res o = Ready x ->
       ph (reqs s i) <> PDone /\ ph (reqs s' i) = PDone /\ res (reqs s' i) = Some x /\
       match x with
       | inl _ => cs s' = Connected
       | inr (ConnectionFailedNoRetry _) => cs s' = Connected
       | inr (MaxAttemptsExceeded _ _) | inr (ConnectionFailed _) => cs s' = Disconnected
       | inr (ServiceError _) => cs s' = cs s \/ cs s' = Reconnecting
       end) /\
    ((attempt (reqs s i) < attempt (reqs s' i))%nat ->
       writer s' = Some i /\
       match ph (reqs s' i) with
       | PCalling _ | PSleeping _ | PReadying _ => cs s' = Reconnecting
       | _ => True
       end).
  Proof.
    intros Hpf. cbn zeta. set (s := fold_left (step_st c inps pf cp) evs init).
    pose proof (GI_fold c inps pf cp evs) as HG. fold s in HG.
    pose proof (GI_step c inps pf cp s (Poll i) HG) as [_ HS'].
    destruct HG as [HR HS]. unfold step_st in HS'. cbn [step] in *.
    destruct (drive c (inps i) pf cp (now s) (reqs s i)) as [[[r' ws] p] sw] eqn:Ed.
    cbn [fst snd o_res o_self reqs cs writer woken] in *. rewrite !upd_same.
    destruct (drive_RI _ _ _ _ _ _ _ _ _ _ _ (HR i) Ed) as [H1 [H2 [P1 [P2 P3]]]].
    destruct (drive_attempt _ _ _ _ _ _ _ _ _ _ Ed) as [A1 A2].
    assert (Hcs : ws <> [] -> pub r' = Some (last ws (cs s))).
    { intros Hne. rewrite H2. destruct ws as [|w ws]; [contradiction|]. cbn [last_opt]. f_equal.
      apply last_nonempty. discriminate. }
    split.
    { intros -> ->. eapply drive_progress; [| |exact Ed].
      - eapply RI_sleep_ok. apply HR.
      - apply mu_lt_fuel. exact Hpf. }
    split.
    { intros ->. split; [apply P3; reflexivity|]. split; [reflexivity|].
      destruct (drive_selfwake _ _ _ _ _ _ _ _ _ Ed) as [S1 [S2 S3]].
      split; [|exact S3].
      destruct (ph (reqs s i)) as [|[|]| | |]; try lia.
      destruct (fst (r_inner (inps i) (attempt (reqs s i)))); lia. }
    split; [exact P1|]. split.
    - intros x Hx. destruct (P2 x Hx) as [Q1 [Q2 Q3]].
      split; [exact Q1|]. split; [exact Q2|]. split; [exact Q3|].
      assert (Hpr : pub r' = match x with
                             | inl _ | inr (ConnectionFailedNoRetry _) => Some Connected
                             | inr (MaxAttemptsExceeded _ _) | inr (ConnectionFailed _) => Some Disconnected
                             | inr (ServiceError _) => if (attempt r' =? 0)%nat then None else Some Reconnecting
                             end).
      { unfold pub. rewrite Q2, Q3. destruct x as [v|[n e|e|e|e]]; reflexivity. }
      assert (Hnd : pub (reqs s i) = None \/ pub (reqs s i) = Some Reconnecting).
      { unfold pub. destruct (ph (reqs s i)); try (left; reflexivity); try (right; reflexivity);
          try contradiction. destruct (attempt (reqs s i) =? 0)%nat; [left|right]; reflexivity. }
      destruct ws as [|w ws].
      + (* no write in this poll *)
        cbn [last_opt] in H2. cbn [last]. rewrite H2 in Hpr.
        destruct x as [v|[n e|e|e|e]]; try (destruct Hnd as [Hn|Hn]; rewrite Hn in Hpr; discriminate).
        left. reflexivity.
      + specialize (Hcs ltac:(discriminate)). rewrite Hcs in Hpr.
        destruct x as [v|[n e|e|e|e]]; try (injection Hpr as Hpr; exact Hpr).
        destruct (attempt r' =? 0)%nat; [discriminate|]. injection Hpr as Hpr. right. exact Hpr.
    - intros Hlt. specialize (A2 Hlt). specialize (Hcs A2).
      destruct ws as [|w ws]; [contradiction|]. split; [reflexivity|].
      unfold pub in Hcs. destruct (ph r'); try exact I.
      + replace (attempt r' =? 0)%nat with false in Hcs by (symmetry; apply Nat.eqb_neq; lia).
        injection Hcs as Hcs. symmetry. exact Hcs.
      + injection Hcs as Hcs. symmetry. exact Hcs.
      + injection Hcs as Hcs. symmetry. exact Hcs.
  Qed.

  Lemma poll_before_deadline (c : cfg) (inp : rin) f k t r dl :
    ph r = PSleeping dl -> t < dl -> drive c inp (S f) (S k) t r = (r, [], Pending, false).
  Proof.
    intros Hp Ht. cbn [drive]. rewrite Hp.
    replace (dl <=? t) with false by (symmetry; apply Z.leb_gt; exact Ht). reflexivity.
  Qed.

  Lemma poll_at_deadline (c : cfg) (inp : rin) f k t r dl e :
    ph r = PSleeping dl -> dl <= t -> last_error r = Some e -> retry_on_reconnect c = true ->
    r_ready inp (attempt r) = ROk ->
    drive c inp (S (S f)) (S k) t r =
    drive c inp f k t (mkRst (PCalling (negb (fst (r_inner inp (attempt r))))) (attempt r)
                             (last_error r) t (log r) (res r)).
  Proof.
    intros Hp Ht He Hrt Hr. cbn [drive]. rewrite Hp.
    replace (dl <=? t) with true by (symmetry; apply Z.leb_le; exact Ht).
    rewrite He. unfold after_sleep. rewrite Hrt. cbn [ph attempt]. rewrite Hr. reflexivity.
  Qed.

  (* ---------- the state clause for ONE request ---------- *)
  Definition only0 (e : ev) : Prop :=
    match e with
    | Poll j | Complete j | MakeReady j | CallEv j => j = 0%nat
    | Advance _ => True
    end.

  (* the request has observed a connection failure it is going to retry (or is retrying)
     and has not returned *)
  Definition handling (r : rst) : Prop :=
    match ph r with
    | PSleeping _ | PReadying _ => True
    | PCalling _ => (0 < attempt r)%nat
    | _ => False
    end.

  Lemma reach_inv_P {S E : Type} (step : S -> E -> S) (P : E -> Prop) (Inv : S -> Prop) :
    (forall s e, P e -> Inv s -> Inv (step s e)) ->
    forall evs init, Inv init -> Forall P evs -> Forall Inv (states step init evs).
  Proof.
    intros Hs evs. induction evs as [|e t IH]; intros s H HP; cbn [states].
    - constructor; [exact H|constructor].
    - inversion HP; subst. constructor; [exact H|]. apply IH; [|assumption]. apply Hs; assumption.
  Qed.

  Lemma writer_step (c : cfg) (inps : nat -> rin) pf cp (s : st) e :
    only0 e -> (writer s = None \/ writer s = Some 0%nat) ->
    (writer (step_st c inps pf cp s e) = None \/ writer (step_st c inps pf cp s e) = Some 0%nat).
  Proof.
    intros He Hw. unfold step_st. destruct e as [i|d|i|i|i]; cbn [step only0] in *.
    - destruct (drive c (inps i) pf cp (now s) (reqs s i)) as [[[r' ws] p] sw].
      cbn [fst writer]. destruct ws; [exact Hw|right; subst i; reflexivity].
    - exact Hw.
    - destruct (ph (reqs s i)) as [|[|]| | |]; exact Hw.
    - destruct (ph (reqs s i)) as [| | |[|]|]; exact Hw.
    - destruct (ph (reqs s i)); exact Hw.
  Qed.

  Lemma single_request_state (c : cfg) (inps : nat -> rin) pf cp evs :
    Forall only0 evs ->
    Forall (fun s => (handling (reqs s 0) -> cs s = Reconnecting) /\
                     (forall v, res (reqs s 0) = Some (inl v) -> cs s = Connected) /\
                     (forall j, j <> 0%nat -> reqs s j = init_rst))
           (states (step_st c inps pf cp) init evs).
  Proof.
    intros Hev.
    eapply Forall_impl;
      [|apply (reach_inv_P (step_st c inps pf cp) only0
                 (fun s => GI c inps s /\ (writer s = None \/ writer s = Some 0%nat) /\
                           (forall j, j <> 0%nat -> reqs s j = init_rst)));
        [|split; [apply GI_init|split; [left; reflexivity|intros; reflexivity]]|exact Hev]].
    - intros s [[HR HS] [Hw Ho]]. split; [|split; [|exact Ho]].
      + intros Hh. unfold SI in HS. destruct Hw as [Hw|Hw]; rewrite Hw in HS.
        * destruct HS as [_ Hn]. specialize (Hn 0%nat). unfold pub, handling in *.
          destruct (ph (reqs s 0)); try contradiction; try discriminate.
          replace (attempt (reqs s 0) =? 0)%nat with false in Hn by (symmetry; apply Nat.eqb_neq; lia).
          discriminate.
        * unfold pub, handling in *. destruct (ph (reqs s 0)); try contradiction.
          -- replace (attempt (reqs s 0) =? 0)%nat with false in HS by (symmetry; apply Nat.eqb_neq; lia).
             injection HS as HS. symmetry. exact HS.
          -- injection HS as HS. symmetry. exact HS.
          -- injection HS as HS. symmetry. exact HS.
      + intros v Hv. destruct (HR 0%nat) as [_ [_ Hph]].
        assert (Hp : pub (reqs s 0) = Some Connected).
        { unfold pub. destruct (ph (reqs s 0)).
          - destruct Hph as [_ [_ H]]. congruence.
          - destruct Hph as [_ [H _]]. congruence.
          - destruct Hph as [H _]. congruence.
          - destruct Hph as [H _]. congruence.
          - rewrite Hv. reflexivity. }
        unfold SI in HS. destruct Hw as [Hw|Hw]; rewrite Hw in HS.
        * destruct HS as [_ Hn]. rewrite (Hn 0%nat) in Hp. discriminate.
        * rewrite Hp in HS. injection HS as HS. symmetry. exact HS.
    - intros s e He [HG [Hw Ho]]. split; [apply GI_step; exact HG|].
      split; [apply writer_step; assumption|].
      intros j Hj. unfold step_st. destruct e as [i|d|i|i|i]; cbn [step only0] in *.
      + destruct (drive c (inps i) pf cp (now s) (reqs s i)) as [[[r' ws] p] sw].
        cbn [fst reqs]. subst i. rewrite upd_other by exact Hj. apply Ho. exact Hj.
      + cbn [fst reqs]. apply Ho. exact Hj.
      + destruct (ph (reqs s i)) as [|[|]| | |]; cbn [fst reqs]; try (apply Ho; exact Hj).
        subst i. rewrite upd_other by exact Hj. apply Ho. exact Hj.
      + destruct (ph (reqs s i)) as [| | |[|]|]; cbn [fst reqs]; try (apply Ho; exact Hj).
        subst i. rewrite upd_other by exact Hj. apply Ho. exact Hj.
      + destruct (ph (reqs s i)); cbn [fst reqs]; try (apply Ho; exact Hj).
        subst i. rewrite upd_other by exact Hj. apply Ho. exact Hj.
  Qed.

  (* ------------------------------------------------------------------ *)
  (* refinement: what the step machine does for one request IS a run of [reconnect_run].
     The streams are read off the request's log: outcomes and readiness errors are the
     wrapped service's, durations and extra waits are the observed ones. *)
  Fixpoint w_dur (l : list call) (k : nat) : Z :=
    match l with
    | [] => 0
    | cl :: rest => if Nat.eqb k (length rest) then c_end cl - c_start cl else w_dur rest k
    end.

  Fixpoint w_slack (c : cfg) (l : list call) (k : nat) : Z :=
    match l with
    | [] => 0
    | cl :: rest =>
      if Nat.eqb k (length rest) then
        match rest with prev :: _ => c_start cl - wake_at c prev | [] => 0 end
      else w_slack c rest k
    end.

  Fixpoint w_t0 (l : list call) : Z :=
    match l with
    | [] => 0
    | cl :: rest => match rest with [] => c_start cl | _ => w_t0 rest end
    end.

  Definition rdy_err (x : rdy Err) : option Err := match x with RErr e => Some e | _ => None end.

  Definition w_inner (inp : rin) (l : list call) (k : nat) : Z * outcome :=
    (w_dur l k, snd (r_inner inp k)).
  Definition w_ready (c : cfg) (inp : rin) (l : list call) (k : nat) : Z * option Err :=
    (w_slack c l k, rdy_err (r_ready inp k)).

  (* a log (newest first) is what [go] produces from t0 on the given streams *)
  Fixpoint replays (c : cfg) (inner : nat -> Z * outcome) (ready : nat -> Z * option Err)
           (t0 : Z) (l : list call) : Prop :=
    match l with
    | [] => True
    | cl :: rest =>
      c_idx cl = length rest /\ c_out cl = snd (inner (c_idx cl)) /\
      c_end cl = c_start cl + Z.max 0 (fst (inner (c_idx cl))) /\
      match rest with
      | [] => c_start cl = t0
      | prev :: _ => c_start cl = wake_at c prev + Z.max 0 (fst (ready (c_idx cl)))
      end /\ replays c inner ready t0 rest
    end.

  Lemma replays_of_wf c inp inner ready : forall l,
    wf_log c inp l ->
    (forall k, snd (inner k) = snd (r_inner inp k)) ->
    (forall k, (k < length l)%nat -> fst (inner k) = w_dur l k /\ fst (ready k) = w_slack c l k) ->
    replays c inner ready (w_t0 l) l.
  Proof.
    induction l as [|cl rest IH]; intros Hwf Hs Hk; [exact I|].
    cbn [wf_log] in Hwf. destruct Hwf as [Hi [Ho [Hse [Hp Hwf]]]].
    destruct (Hk (length rest)) as [Hd Hsl]; [cbn [length]; lia|].
    cbn [w_dur w_slack] in Hd, Hsl. rewrite Nat.eqb_refl in Hd, Hsl.
    cbn [replays]. split; [exact Hi|]. split; [rewrite Hs; exact Ho|].
    split; [rewrite Hi, Hd; lia|].
    assert (Hrest : replays c inner ready (w_t0 rest) rest).
    { apply IH; [exact Hwf|exact Hs|]. intros k Hlt. destruct (Hk k) as [H1 H2]; [cbn [length]; lia|].
      cbn [w_dur w_slack] in H1, H2.
      replace (Nat.eqb k (length rest)) with false in H1, H2 by (symmetry; apply Nat.eqb_neq; lia).
      split; assumption. }
    destruct rest as [|prev rest'].
    - split; [reflexivity|exact I].
    - destruct Hp as [_ [_ [Hw _]]]. split; [rewrite Hi, Hsl; lia|]. exact Hrest.
  Qed.

  Lemma run_eta (r : run) : mkRun (calls r) (result r) (writes r) = r.
  Proof. destruct r; reflexivity. Qed.

  Lemma call_eta (cl : call) a t tf o :
    c_idx cl = a -> c_start cl = t -> c_end cl = tf -> c_out cl = o -> mkCall a t tf o = cl.
  Proof. destruct cl; cbn. intros <- <- <- <-. reflexivity. Qed.

  Section Replay.
    Context (c : cfg) (inner : nat -> Z * outcome) (ready : nat -> Z * option Err) (t0 : Z).
    Notation go := (go c inner ready).
    Notation stopb := (stop_at c inner ready).

    (* one step of [go] at a call that is retried *)
    Lemma go_retry_step f a t :
      stopb a = false ->
      go (S f) a t =
      let tf := t + Z.max 0 (fst (inner a)) in
      let r := go f (S a) (ceil_ms (tf + pdelay c (S a)) + Z.max 0 (fst (ready (S a)))) in
      mkRun (mkCall a t tf (snd (inner a)) :: calls r) (result r)
            ([Disconnected; Reconnecting] ++ writes r).
    Proof.
      intros Hst. destruct (stop_at_false _ _ _ _ Hst) as [e [d [Ho [Hs [Hx [Hp [Hrt Hr]]]]]]].
      cbn [Reconnect.go]. unfold after_outcome. rewrite Ho, Hs. cbn [negb]. rewrite Hx, Hp.
      unfold after_sleep. rewrite Hrt, Hr. unfold pdelay. rewrite Hp. reflexivity.
    Qed.

    Lemma go_replay : forall rest cl f,
      replays c inner ready t0 (cl :: rest) ->
      (forall k, (k < length rest)%nat -> stopb k = false) ->
      go (f + length rest) 0 t0 =
      let r := go f (length rest) (c_start cl) in
      mkRun (rev rest ++ calls r) (result r) (repeat_dr (length rest) ++ writes r).
    Proof.
      induction rest as [|prev rest' IH]; intros cl f Hrp Hst.
      - cbn [replays] in Hrp. destruct Hrp as [_ [_ [_ [Ht _]]]].
        cbn [length rev app repeat_dr]. rewrite Nat.add_0_r, Ht. cbn zeta.
        symmetry. apply run_eta.
      - cbn [replays] in Hrp. destruct Hrp as [Hi [Ho [He [Hs Hrp']]]].
        cbn [length]. replace (f + S (length rest'))%nat with (S f + length rest')%nat by lia.
        rewrite (IH prev (S f) Hrp') by (intros k Hk; apply Hst; cbn [length]; lia).
        cbn zeta.
        pose proof Hrp' as Hp. cbn [replays] in Hp. destruct Hp as [Hpi [Hpo [Hpe _]]].
        rewrite go_retry_step by (apply Hst; cbn [length]; lia). cbn zeta.
        cbn [calls result writes].
        assert (Hprev : mkCall (length rest') (c_start prev)
                          (c_start prev + Z.max 0 (fst (inner (length rest'))))
                          (snd (inner (length rest'))) = prev).
        { apply call_eta; [exact Hpi|reflexivity|rewrite Hpe, Hpi; reflexivity|rewrite Hpo, Hpi; reflexivity]. }
        rewrite Hprev.
        assert (Hnext : ceil_ms (c_start prev + Z.max 0 (fst (inner (length rest'))) +
                                 pdelay c (S (length rest'))) +
                        Z.max 0 (fst (ready (S (length rest')))) = c_start cl).
        { rewrite Hs. unfold wake_at, delay_of. rewrite Hpe, Hpi, Hi. cbn [length]. reflexivity. }
        rewrite Hnext. f_equal.
        + cbn [rev]. rewrite <- app_assoc. reflexivity.
        + rewrite app_assoc, <- repeat_dr_S. reflexivity.
    Qed.

    Lemma newest_eta cl rest :
      replays c inner ready t0 (cl :: rest) ->
      mkCall (length rest) (c_start cl) (c_start cl + Z.max 0 (fst (inner (length rest))))
             (snd (inner (length rest))) = cl.
    Proof.
      cbn [replays]. intros [Hi [Ho [He _]]]. rewrite Hi in *.
      apply call_eta; [exact Hi|reflexivity|exact He|exact Ho].
    Qed.

    (* the three ways [go] ends at a call, for any fuel *)
    Lemma go_return f a t ws (x : Res + rerr) :
      after_outcome c a (snd (inner a)) = (ws, AReturn x) ->
      go f a t = mkRun [mkCall a t (t + Z.max 0 (fst (inner a))) (snd (inner a))] (Some x) ws.
    Proof. intros H. destruct f; cbn [Reconnect.go]; rewrite H; reflexivity. Qed.

    Lemma go_no_retry f a t ws d e :
      after_outcome c a (snd (inner a)) = (ws, ARetry d e) -> retry_on_reconnect c = false ->
      go f a t = mkRun [mkCall a t (t + Z.max 0 (fst (inner a))) (snd (inner a))]
                       (Some (inr (ConnectionFailedNoRetry e))) (ws ++ [Connected]).
    Proof.
      intros H Hrt. destruct f; cbn [Reconnect.go]; rewrite H; unfold after_sleep; rewrite Hrt; reflexivity.
    Qed.

    Lemma go_not_ready f a t ws d e e' :
      after_outcome c a (snd (inner a)) = (ws, ARetry d e) -> retry_on_reconnect c = true ->
      snd (ready (S a)) = Some e' ->
      go f a t = mkRun [mkCall a t (t + Z.max 0 (fst (inner a))) (snd (inner a))]
                       (Some (inr (ServiceError e'))) ws.
    Proof.
      intros H Hrt Hr.
      destruct f; cbn [Reconnect.go]; rewrite H; unfold after_sleep; rewrite Hrt, Hr; reflexivity.
    Qed.

    (* a replayed log whose newest call ends the run *)
    Lemma refine_end cl rest fuel (xo : option (Res + rerr)) ws :
      replays c inner ready t0 (cl :: rest) ->
      (forall k, (k < length rest)%nat -> stopb k = false) ->
      (length rest <= fuel)%nat ->
      (forall f t, go f (length rest) t =
                   mkRun [mkCall (length rest) t (t + Z.max 0 (fst (inner (length rest))))
                                 (snd (inner (length rest)))] xo ws) ->
      go fuel 0 t0 = mkRun (rev (cl :: rest)) xo (repeat_dr (length rest) ++ ws).
    Proof.
      intros Hrp Hst HF Hend.
      replace fuel with ((fuel - length rest) + length rest)%nat by lia.
      rewrite (go_replay rest cl _ Hrp Hst). cbn zeta.
      rewrite Hend. cbn [calls result writes].
      rewrite (newest_eta _ _ Hrp). reflexivity.
    Qed.
  End Replay.

  Lemma wf_retried c inp : forall l k,
    wf_log c inp l -> (S k < length l)%nat ->
    (exists e d, sleeps_after c k (snd (r_inner inp k)) d e) /\ retry_on_reconnect c = true /\
    not_rerr (r_ready inp (S k)).
  Proof.
    induction l as [|cl rest IH]; intros k Hwf Hk; [cbn in Hk; lia|].
    cbn [wf_log] in Hwf. destruct Hwf as [Hi [_ [_ [Hp Hwf]]]]. cbn [length] in Hk.
    destruct (Nat.eq_dec (S k) (length rest)) as [E|NE]; [|apply IH; [exact Hwf|lia]].
    destruct rest as [|prev rest']; [cbn in E; lia|].
    destruct Hp as [[e [d Hsl]] [Hrt [_ Hnr]]].
    cbn [wf_log] in Hwf. destruct Hwf as [Hpi [Hpo _]]. cbn [length] in E.
    assert (Hk' : c_idx prev = k) by lia.
    split; [exists e, d; rewrite <- Hk', <- Hpo; exact Hsl|]. split; [exact Hrt|].
    rewrite Hi in Hnr. cbn [length] in Hnr. rewrite Hpi in *. replace (S k) with (S (length rest')) by lia.
    exact Hnr.
  Qed.

  Lemma after_outcome_sleeps (c : cfg) a (o : outcome) d e :
    sleeps_after c a o d e -> after_outcome c a o = ([Disconnected; Reconnecting], ARetry d e).
  Proof.
    intros [-> [Hs [Hx Hp]]]. unfold after_outcome. rewrite Hs. cbn [negb]. rewrite Hx, Hp. reflexivity.
  Qed.

  (* what a returned future did is exactly a run of [reconnect_run] (any fuel that covers
     its retries) *)
  Lemma step_refines_run (c : cfg) (inps : nat -> rin) pf cp evs i x fuel :
    let s := fold_left (step_st c inps pf cp) evs init in
    res (reqs s i) = Some x ->
    let l := log (reqs s i) in
    (length l - 1 <= fuel)%nat ->
    let r := reconnect_run c (w_inner (inps i) l) (w_ready c (inps i) l) fuel (w_t0 l) in
    calls r = rev l /\ result r = Some x /\ writes r = writes_of i (wlog s).
  Proof.
    cbn zeta. set (s := fold_left (step_st c inps pf cp) evs init). intros Hres Hfuel.
    pose proof (GI_fold c inps pf cp evs) as [HR _]. fold s in HR. specialize (HR i).
    set (rq := reqs s i) in *. set (inp := inps i) in *.
    destruct HR as [Hwf [Hwl Hph]]. rewrite Hres in Hwl.
    assert (Hd : done_spec c inp (now s) rq x).
    { destruct (ph rq).
      - destruct Hph as [_ [_ Hr]]. congruence.
      - destruct Hph as [_ [Hr _]]. congruence.
      - destruct Hph as [Hr _]. congruence.
      - destruct Hph as [Hr _]. congruence.
      - destruct Hph as [x' [Hr Hd]]. rewrite Hres in Hr. injection Hr as <-. exact Hd. }
    set (l := log rq) in *.
    set (inner := w_inner inp l). set (ready := w_ready c inp l).
    assert (Hrp : replays c inner ready (w_t0 l) l).
    { apply (replays_of_wf c inp); [exact Hwf|reflexivity|]. intros k _. split; reflexivity. }
    set (t0 := w_t0 l) in *. clearbody t0.
    assert (Hstop : forall k, (S k < length l)%nat -> stop_at c inner ready k = false).
    { intros k Hk. destruct (wf_retried c inp l k Hwf Hk) as [[e [d [Ho [Hs [Hx Hp]]]]] [Hrt Hnr]].
      unfold stop_at. subst inner ready. unfold w_inner, w_ready. cbn [fst snd].
      rewrite Ho, Hs, Hx, Hp, Hrt. cbn [negb orb].
      destruct (r_ready inp (S k)); try reflexivity. contradiction. }
    assert (Hinner : forall k, snd (inner k) = snd (r_inner inp k)) by reflexivity.
    unfold reconnect_run.
    assert (Hfin : forall cl rest ws,
              l = cl :: rest ->
              (forall f t, go c inner ready f (length rest) t =
                 mkRun [mkCall (length rest) t (t + Z.max 0 (fst (inner (length rest))))
                               (snd (inner (length rest)))] (Some x) ws) ->
              repeat_dr (attempt rq) ++ tailw x = repeat_dr (length rest) ++ ws ->
              let r := go c inner ready fuel 0 t0 in
              calls r = rev l /\ result r = Some x /\ writes r = writes_of i (wlog s)).
    { intros cl rest ws Hl Hend Hws. cbn zeta. rewrite Hl in Hrp.
      rewrite (refine_end c inner ready t0 cl rest fuel (Some x) ws Hrp);
        [|intros k Hk; apply Hstop; rewrite Hl; cbn [length]; lia
         |rewrite Hl in Hfuel; cbn [length] in Hfuel; lia|exact Hend].
      cbn [calls result writes]. rewrite Hl. repeat split; try reflexivity.
      rewrite Hwl, Hws. reflexivity. }
    unfold done_spec in Hd. destruct x as [v|[n e|e|e|e]].
    - (* Ok *)
      destruct Hd as [cl [rest [Hl [Hi Hv]]]]. fold l in Hl.
      pose proof Hwf as Hwf'. rewrite Hl in Hwf'. cbn [wf_log] in Hwf'. destruct Hwf' as [Hci [Hco _]].
      apply (Hfin cl rest [Connected] Hl).
      + intros f t. apply go_return. rewrite Hinner, <- Hci, <- Hco, Hv. reflexivity.
      + rewrite <- Hi, Hci. reflexivity.
    - (* MaxAttemptsExceeded *)
      destruct Hd as [cl [rest [Hl [Hi [Hv [Hs [Hn Hx]]]]]]]. fold l in Hl.
      pose proof Hwf as Hwf'. rewrite Hl in Hwf'. cbn [wf_log] in Hwf'. destruct Hwf' as [Hci [Hco _]].
      apply (Hfin cl rest [Disconnected] Hl).
      + intros f t. apply go_return. rewrite Hinner, <- Hci, <- Hco, Hv.
        unfold after_outcome. rewrite Hs. cbn [negb]. rewrite Hx, Hn. reflexivity.
      + rewrite <- Hi, Hci. reflexivity.
    - (* ConnectionFailed *)
      destruct Hd as [cl [rest [Hl [Hi [Hv [Hs [Hx Hp]]]]]]]. fold l in Hl.
      pose proof Hwf as Hwf'. rewrite Hl in Hwf'. cbn [wf_log] in Hwf'. destruct Hwf' as [Hci [Hco _]].
      apply (Hfin cl rest [Disconnected] Hl).
      + intros f t. apply go_return. rewrite Hinner, <- Hci, <- Hco, Hv.
        unfold after_outcome. rewrite Hs. cbn [negb]. rewrite Hx, Hp. reflexivity.
      + rewrite <- Hi, Hci. reflexivity.
    - (* ConnectionFailedNoRetry *)
      destruct Hd as [cl [rest [d [Hl [Hi [Hsl [Hrt _]]]]]]]. fold l in Hl.
      pose proof Hwf as Hwf'. rewrite Hl in Hwf'. cbn [wf_log] in Hwf'. destruct Hwf' as [Hci [Hco _]].
      apply (Hfin cl rest ([Disconnected; Reconnecting] ++ [Connected]) Hl).
      + intros f t. apply (go_no_retry c inner ready f (length rest) t _ d e); [|exact Hrt].
        rewrite Hinner, <- Hci, <- Hco. apply after_outcome_sleeps. exact Hsl.
      + rewrite <- Hi, Hci, repeat_dr_S, <- app_assoc. reflexivity.
    - (* ServiceError *)
      destruct Hd as [[cl [rest [Hl [Hi [Hv Hs]]]]]|[prev [rest [Hl [Hi [[e0 [d Hsl]] [Hrt Hrd]]]]]]];
        fold l in Hl;
        pose proof Hwf as Hwf'; rewrite Hl in Hwf'; cbn [wf_log] in Hwf'; destruct Hwf' as [Hci [Hco _]].
      + apply (Hfin cl rest [] Hl).
        * intros f t. apply go_return. rewrite Hinner, <- Hci, <- Hco, Hv.
          unfold after_outcome. rewrite Hs. reflexivity.
        * rewrite <- Hi, Hci. reflexivity.
      + apply (Hfin prev rest [Disconnected; Reconnecting] Hl).
        * intros f t. apply (go_not_ready c inner ready f (length rest) t _ d e0 e); [|exact Hrt|].
          -- rewrite Hinner, <- Hci, <- Hco. apply after_outcome_sleeps. exact Hsl.
          -- subst ready. unfold w_ready. cbn [snd]. rewrite <- Hci, Hi, Hrd. reflexivity.
        * rewrite <- Hi, Hci, repeat_dr_S. cbn [tailw]. rewrite app_nil_r. reflexivity.
  Qed.

  (* the same at poll level, from ANY state whose counter has reached u32::MAX (such a state
     takes 2^32 - 1 connection failures to reach; no script runs that long): a poll that
     observes one more connection failure returns MaxAttemptsExceeded at once, whatever finite
     max_attempts is configured — max_attempts(u32::MAX) included *)
  Lemma drive_overflow (c : cfg) (inp : rin) f coop t (r : rst) (e : Err) m :
    ph r = PCalling true -> fst (r_inner inp (attempt r)) = false ->
    snd (r_inner inp (attempt r)) = Fail e -> should_reconnect c e = true ->
    max_attempts c = Some m -> U32MAX <= Z.of_nat (attempt r) ->
    exists r', drive c inp (S f) coop t r =
               (r', [Disconnected], Ready (inr (MaxAttemptsExceeded (Z.to_nat U32MAX) e)), false) /\
               ph r' = PDone /\ length (log r') = S (length (log r)).
  Proof.
    intros Hp Hg Ho Hs Hm Ha. cbn [drive]. rewrite Hp, Hg. cbn [andb negb]. rewrite Ho.
    rewrite (overflow_step c (attempt r) e m Hm Hs Ha).
    eexists. split; [reflexivity|]. split; reflexivity.
  Qed.
End ReconnectProofs.

(* ---------- non-vacuity: every result variant and state is reachable ---------- *)
Module Examples.
  Definition c1 (mx : option nat) (pol : nat -> option Z) (rt : bool) : cfg Zerr :=
    {| pred := Some (fun e => snd e); max_attempts := mx; policy := pol; retry_on_reconnect := rt |}.
  Definition fixed5 (a : nat) : option Z := Some (5 * MS).
  Definition fails_then_ok (n : nat) (k : nat) : Z * outcome Z Zerr :=
    (3 * MS, if (k <? n)%nat then Fail (Z.of_nat k, true) else Ok 42).
  Definition rd0 (k : nat) : Z * option Zerr := (0, None).

  Example run_ok :
    let r := reconnect_run (c1 (Some 3%nat) fixed5 true) (fails_then_ok 2) rd0 10 (100 * MS) in
    map (fun cl => (c_start cl / MS, c_end cl / MS)) (calls r) = [(100, 103); (108, 111); (116, 119)] /\
    result r = Some (inl 42) /\
    writes r = [Disconnected; Reconnecting; Disconnected; Reconnecting; Connected].
  Proof. vm_compute. repeat split; reflexivity. Qed.

  (* a delay of 0.4 ms after a failure observed at 3 ms: the retry starts at 4 ms *)
  Example run_submilli :
    let r := reconnect_run (c1 None (fun _ => Some 400000) true) (fails_then_ok 1) rd0 10 0 in
    map (fun cl => (c_start cl, c_end cl)) (calls r) = [(0, 3 * MS); (4 * MS, 7 * MS)].
  Proof. vm_compute. reflexivity. Qed.

  Example run_exceeded :
    let r := reconnect_run (c1 (Some 1%nat) fixed5 true) (fails_then_ok 5) rd0 10 0 in
    length (calls r) = 2%nat /\ result r = Some (inr (MaxAttemptsExceeded 2 (1, true))) /\
    writes r = [Disconnected; Reconnecting; Disconnected].
  Proof. vm_compute. repeat split; reflexivity. Qed.

  Example run_max0 :
    result (reconnect_run (c1 (Some 0%nat) fixed5 true) (fails_then_ok 5) rd0 10 0)
    = Some (inr (MaxAttemptsExceeded 1 (0, true))).
  Proof. reflexivity. Qed.

  Example run_no_policy :
    result (reconnect_run (c1 None (fun _ => None) true) (fails_then_ok 5) rd0 10 0)
    = Some (inr (ConnectionFailed (0, true))).
  Proof. reflexivity. Qed.

  Example run_no_retry :
    let r := reconnect_run (c1 None fixed5 false) (fails_then_ok 5) rd0 10 0 in
    result r = Some (inr (ConnectionFailedNoRetry (0, true))) /\
    writes r = [Disconnected; Reconnecting; Connected].
  Proof. vm_compute. split; reflexivity. Qed.

  Example run_service_error :
    let r := reconnect_run (Res:=Z) (c1 None fixed5 true) (fun k => (0, Fail (7, Nat.eqb k 0))) rd0 10 0 in
    result r = Some (inr (ServiceError (7, false))) /\ length (calls r) = 2%nat /\
    writes r = [Disconnected; Reconnecting].
  Proof. vm_compute. repeat split; reflexivity. Qed.

  Example run_unlimited_out_of_fuel :
    let r := reconnect_run (c1 None fixed5 true) (fails_then_ok 100) rd0 7 0 in
    result r = None /\ length (calls r) = 8%nat.
  Proof. vm_compute. split; reflexivity. Qed.

  (* the fuel and budget run_script uses satisfy the hypothesis of the progress theorem *)
  Example script_fuel_enough : (4 * COOP + 3 < poll_fuel)%nat.
  Proof. exact poll_fuel_enough. Qed.

  (* the hypotheses of the overflow lemmas are satisfiable (by a counter value no run reaches),
     and max_attempts(u32::MAX) is a u32 *)
  Example overflow_hyp : U32MAX <= Z.of_nat (Z.to_nat U32MAX) /\ Z.of_nat (Z.to_nat U32MAX) <= U32MAX.
  Proof. rewrite Z2Nat.id; unfold U32MAX; lia. Qed.

  Definition inp (i : nat) : rin Z Zerr :=
    {| r_inner := fun k => (true, if (k <? 1)%nat then Fail (Z.of_nat (10 * i + k), true) else Ok 42);
       r_ready := fun _ => ROk |}.
  Definition evs : list ev :=
    [CallEv 0; Advance (3 * MS); Complete 0; Poll 0; Advance (5 * MS); Poll 0; Advance (3 * MS); Complete 0].
  Definition cc := c1 (Some 2%nat) fixed5 true.
  Definition smid := fold_left (step_st cc inp poll_fuel COOP) evs init.
  Definition sfin := step_st cc inp poll_fuel COOP smid (Poll 0).

  Example event_level :
    cs smid = Reconnecting /\ writer smid = Some 0%nat /\
    started_calls (reqs smid 0) = [(0, 3 * MS); (8 * MS, -1)] /\
    cs sfin = Connected /\ res (reqs sfin 0) = Some (inl 42) /\
    started_calls (reqs sfin 0) = [(0, 3 * MS); (8 * MS, 11 * MS)].
  Proof. vm_compute. repeat split; reflexivity. Qed.

  (* the hypotheses of the single-request theorem and of the refinement theorem are met *)
  Example event_level_only0 : Forall only0 (evs ++ [Poll 0]).
  Proof. repeat constructor. Qed.

  Example event_refines :
    let l := log (reqs sfin 0) in
    let r := reconnect_run cc (w_inner (inp 0) l) (w_ready cc (inp 0) l) 1 (w_t0 l) in
    calls r = rev l /\ result r = Some (inl 42) /\
    writes r = [Disconnected; Reconnecting; Connected] /\
    writes_of 0 (wlog sfin) = [Disconnected; Reconnecting; Connected].
  Proof. vm_compute. repeat split; reflexivity. Qed.

  (* the state clause needs "one request": with two requests sharing the layer's state,
     request 1 fails reconnectably and sleeps, request 0 succeeds - the published state is
     Connected while request 1 is still handling its connection failure *)
  Definition inp2 (i : nat) : rin Z Zerr :=
    {| r_inner := fun k => (false, if (i =? 1)%nat && (k =? 0)%nat then Fail (11, true) else Ok 1);
       r_ready := fun _ => ROk |}.
  Definition s_two := fold_left (step_st (c1 None (fun _ => Some (10 * MS)) true) inp2 poll_fuel COOP)
                                [Poll 1; Poll 0] init.
  Example two_requests_connected_while_handling :
    handling (reqs s_two 1) /\ cs s_two = Connected /\ res (reqs s_two 0) = Some (inl 1).
  Proof. vm_compute. repeat split; reflexivity. Qed.

  (* the cooperative budget is reachable: zero delay, unlimited attempts, 200 immediate
     failures; the first poll makes 129 inner calls, finds the budget exhausted at the 129th
     sleep and wakes itself; the second poll goes on *)
  Definition c0 : cfg Zerr :=
    {| pred := None; max_attempts := None; policy := fun _ => Some 0; retry_on_reconnect := true |}.
  Definition inp_fail (i : nat) : rin Z Zerr :=
    {| r_inner := fun k => (false, if (k <? 200)%nat then Fail (Z.of_nat k, true) else Ok 7);
       r_ready := fun _ => ROk |}.
  Definition s1 := step c0 inp_fail poll_fuel COOP init (Poll 0).
  Definition s2 := step c0 inp_fail poll_fuel COOP (fst s1) (Poll 0).

  Example coop_exhausted :
    o_res (snd s1) = Pending /\ o_self (snd s1) = true /\ woken (fst s1) 0 = true /\
    length (log (reqs (fst s1) 0)) = 129%nat /\ cs (fst s1) = Reconnecting /\
    o_res (snd s2) = Ready (inl 7) /\ length (log (reqs (fst s2) 0)) = 201%nat.
  Proof. vm_compute. repeat split; reflexivity. Qed.
End Examples.
